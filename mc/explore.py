"""E2 -- explicit-state breadth-first explorer over the REAL transition function.

A state is the event history that reaches it.  `build(history)` replays the history on fresh real
objects and returns an opaque "world" (implementation object(s) + reference model); `canon(world)` is a
hashable canonical form of exactly the fields the property can observe; `events(world)` lists the enabled
events; `step(world, event)` applies one event to BOTH implementation and model *in place* and returns a
list of (key, description) violations observed on that transition; `invariant(world)` returns violations
observed in the reached state.

Because live passlib objects do not deep-copy reliably, successor states are built by replaying
history + [event] from scratch (cost O(depth) per transition, fine for depth <= 6).
"""
from __future__ import annotations

import collections


class Result:
    def __init__(self):
        self.states = 0
        self.transitions = 0
        self.max_depth = 0
        self.violations = []  # (key, desc, history)
        self.depth_hist = collections.Counter()
        self.event_hist = collections.Counter()
        self.capped = False
        self.samples = []


def bfs(build, events, step, canon, invariant, max_depth, max_states=None, event_label=str, roots=((),)):
    """explore every history of length <= max_depth over `events`, deduplicating on canon().

    returns Result; every transition is executed on the real implementation (inside build/step).
    """
    res = Result()
    seen = set()
    frontier = collections.deque()
    for root in roots:
        w = build(list(root))
        k = canon(w)
        if k in seen:
            continue
        seen.add(k)
        res.states += 1
        for key, desc in invariant(w):
            res.violations.append((key, desc, list(root)))
        frontier.append(list(root))
    while frontier:
        hist = frontier.popleft()
        depth = len(hist)
        res.max_depth = max(res.max_depth, depth)
        if depth >= max_depth:
            continue
        w0 = build(hist)
        evs = list(events(w0))
        for ev in evs:
            w = build(hist)
            vs = step(w, ev)
            res.transitions += 1
            res.event_hist[event_label(ev)] += 1
            nh = hist + [ev]
            for key, desc in vs:
                res.violations.append((key, desc, nh))
            bad = bool(vs)
            for key, desc in invariant(w):
                res.violations.append((key, desc, nh))
                bad = True
            k = canon(w)
            if k in seen or bad:
                # (a state that already violated is not expanded further: its futures are not meaningful)
                continue
            seen.add(k)
            res.states += 1
            res.depth_hist[depth + 1] += 1
            if len(res.samples) < 4 and depth + 1 == max_depth:
                res.samples.append(nh)
            if max_states is not None and res.states >= max_states:
                res.capped = True
                return res
            frontier.append(nh)
    return res


def replay_history(build, step, invariant, history):
    """re-execute one history step by step (no search); returns all violations seen along it"""
    out = []
    for n in range(len(history)):
        w = build(history[:n])
        vs = step(w, history[n])
        out.extend(vs)
        out.extend(invariant(w))
    if not history:
        out.extend(invariant(build([])))
    return out
