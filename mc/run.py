"""./check <Cxx> [--tier quick|thorough] [--replay file]   (see DESIGN.md section 2)"""
from __future__ import annotations

import argparse
import concurrent.futures
import fnmatch
import importlib
import json
import os
import subprocess
import sys
import time
import traceback

from mc import core
from mc.core import HarnessError, VERIF


def _ensure_env():
    if os.environ.get("PYTHONHASHSEED") != "0" or os.environ.get("PASSLIB_BUILTIN_BCRYPT") != "enabled":
        env = dict(os.environ, PYTHONHASHSEED="0", PASSLIB_BUILTIN_BCRYPT="enabled", PYTHONDONTWRITEBYTECODE="1")
        os.execve(sys.executable, [sys.executable, "-m", "mc.run"] + sys.argv[1:], env)


def _assert_repo():
    import passlib

    here = os.path.realpath(passlib.__file__)
    want = os.path.realpath(core.REPO)
    if not here.startswith(want + os.sep):
        raise HarnessError(f"passlib imported from {here}, expected under {want}")
    import libpass

    here = os.path.realpath(libpass.__file__)
    if not here.startswith(want + os.sep):
        raise HarnessError(f"libpass imported from {here}, expected under {want}")


def load_module(pid):
    return importlib.import_module(f"mc.checks.{pid.lower()}")


def validate_evidence(ev):
    """hand validation of the rules of EVIDENCE.schema.json we rely on (+ jsonschema when importable)"""
    for k in ("property_id", "tier", "seed", "level", "coverage", "wall_s"):
        if k not in ev:
            raise HarnessError(f"evidence lacks {k}")
    cov = ev["coverage"]
    lvl = ev["level"]
    if lvl in ("exploration", "fault_enumeration") or not all(
        k in cov for k in ("states", "transitions", "traces_validated_against_impl", "samples")
    ):
        if not (cov.get("evaluations", 0) >= 1 and cov.get("distinct_nontrivial", 0) >= 2):
            raise HarnessError("evidence: evaluations>=1 and distinct_nontrivial>=2 required")
        if not cov.get("samples") or "rule" not in cov:
            raise HarnessError("evidence: samples and rule required")
    else:
        if not (cov["states"] >= 1 and cov["transitions"] >= 1 and cov["samples"]):
            raise HarnessError("evidence: states/transitions/samples required")
    schema = os.path.join(VERIF, "mc", "EVIDENCE.schema.json")
    vt = "/usr/local/bin/python3-vt"
    if os.path.exists(schema) and os.path.exists(vt):
        code = (
            "import json,sys,jsonschema;"
            "jsonschema.validate(json.load(sys.stdin), json.load(open(sys.argv[1])))"
        )
        r = subprocess.run([vt, "-W", "ignore", "-c", code, schema], input=json.dumps(ev, default=repr),
                           capture_output=True, text=True)
        if r.returncode != 0:
            raise HarnessError("evidence does not validate: " + r.stderr[-1500:])


def write_evidence(ctx, mod, nviol, wall):
    acc = ctx.acc
    cov = {
        "evaluations": acc.evaluations,
        "distinct_nontrivial": len(acc.classes),
        "rule": mod.RULE,
        "samples": acc.samples[: core.Acc.MAX_SAMPLES] or ["(no sample recorded)"],
        "exhaustive": bool(ctx.exhaustive),
        "distinct_outcomes": len(acc.outcomes),
        "outcomes": dict(acc.outcomes.most_common(25)),
        "axes": {
            k: {"distinct_values": len(c), "values": dict(sorted(c.items(), key=lambda kv: (-kv[1], kv[0]))[:40])}
            for k, c in sorted(acc.hist.items())
        },
        "counters": dict(acc.counters),
        "parts": ctx.parts,
        "caps_hit": ctx.caps,
        "notes": acc.notes[:20],
    }
    cov.update(ctx.cov)
    ev = {
        "property_id": ctx.pid,
        "tier": ctx.tier,
        "seed": ctx.seed,
        "level": ctx.level,
        "coverage": cov,
        "assumptions": ctx.assumptions,
        "wall_s": round(wall, 2),
        "violations": nviol,
    }
    validate_evidence(ev)
    edir = os.environ.get("VERIF_EVIDENCE_DIR") or (
        os.path.join(VERIF, "evidence") if os.path.realpath(core.REPO) == "/repo" else "/tmp/verif-scratch-evidence"
    )
    os.makedirs(edir, exist_ok=True)
    path = os.path.join(edir, f"{ctx.pid}.json")
    tmp = path + ".tmp"
    with open(tmp, "w") as fh:
        json.dump(ev, fh, indent=1, sort_keys=True, default=repr)
        fh.write("\n")
    os.replace(tmp, path)
    return path


def do_replay(pid, path):
    mod = load_module(pid)
    with open(path) as fh:
        doc = json.load(fh)
    if doc.get("needs_full_run"):
        # history-dependent violation (wrong only after other evaluations made by the same process): the replay
        # is a complete run of the check, looking for the same key
        keys = _full_run_keys(pid, doc.get("tier") or "quick")
        if doc.get("key") in keys:
            print(f"REPRODUCED property={pid} key={doc['key']} (by a complete run)")
            return 1
        print(f"not reproduced by a complete run: {doc.get('key')}")
        return 0
    case = core.dec(doc["case"])
    found = mod.replay(case)
    keys = [k for k, _ in found]
    want = doc.get("key")
    for k, d in found:
        print(f"replay: {k}: {d}")
    if want is None:
        return 1 if found else 0
    if want in keys:
        print(f"REPRODUCED property={pid} key={want}")
        return 1
    print(f"not reproduced: {want} (saw {keys})")
    return 0


def _confirm(pid, path):
    env = dict(os.environ, VERIF_CONFIRM="1")
    r = subprocess.run(
        [sys.executable, "-m", "mc.run", pid, "--replay", path],
        cwd=VERIF, env=env, capture_output=True, text=True, timeout=1800,
    )
    return r.returncode, r.stdout[-2000:] + r.stderr[-2000:]


def _full_run_keys(pid, tier):
    env = dict(os.environ, VERIF_CONFIRM="1", VERIF_EVIDENCE_DIR="/tmp/verif-scratch-evidence")
    r = subprocess.run(
        [sys.executable, "-m", "mc.run", pid, "--tier", tier, "--no-confirm"],
        cwd=VERIF, env=env, capture_output=True, text=True, timeout=6 * 3600,
    )
    keys = set()
    for line in r.stdout.splitlines():
        if line.startswith("VIOLATION ") and " key=" in line:
            keys.add(line.split(" key=", 1)[1].split(" :: ", 1)[0])
    return keys


def main(argv=None):
    _ensure_env()
    ap = argparse.ArgumentParser()
    ap.add_argument("pid")
    ap.add_argument("--tier", default=os.environ.get("VERIF_TIER") or "quick", choices=["quick", "thorough"])
    ap.add_argument("--replay")
    ap.add_argument("--no-confirm", action="store_true")
    args = ap.parse_args(argv)
    pid = args.pid.upper()
    try:
        seed = int(os.environ.get("VERIF_SEED", "0") or 0)
    except ValueError:
        seed = core.stable_hash(os.environ["VERIF_SEED"]) % (2**31)
    t0 = time.time()
    try:
        _assert_repo()
        if args.replay:
            return do_replay(pid, args.replay)
        mod = load_module(pid)
        ctx = core.Ctx(pid, args.tier, seed, mod.LEVEL)
        mod.run(ctx)
        # ---- group violations by key (first in enumeration order wins)
        by_key = {}
        counts = {}
        for key, desc, case in ctx.acc.violations:
            counts[key] = counts.get(key, 0) + 1
            by_key.setdefault(key, (desc, case))
        known = core.load_known()

        def is_known(key):
            if key in known:
                return known[key]
            for pat, ent in known.items():
                if ent.get("glob") and fnmatch.fnmatchcase(key, pat):
                    return ent
            return None

        rdir = os.path.join(VERIF, "replays", pid)
        if os.path.realpath(core.REPO) != "/repo":
            rdir = os.path.join("/tmp/verif-scratch-replays", core.safe_name(core.REPO), pid)
        new = []
        listed = []
        for key, (desc, case) in by_key.items():
            os.makedirs(rdir, exist_ok=True)
            path = os.path.join(rdir, core.safe_name(key) + ".json")
            with open(path, "w") as fh:
                json.dump({"property": pid, "key": key, "desc": desc, "count": counts[key], "case": case}, fh, indent=1)
                fh.write("\n")
            ent = is_known(key)
            (listed if ent else new).append((key, desc, path, ent))
        # ---- confirm new violations from a fresh process (plain replay, no explorer)
        if new and not args.no_confirm and not getattr(mod, "SELF_CONFIRMED", False):
            with concurrent.futures.ThreadPoolExecutor(8) as ex:
                res = list(ex.map(lambda it: _confirm(pid, it[2]), new))
            bad = [(it, r) for it, r in zip(new, res) if r[0] != 1]
            if bad and not os.environ.get("VERIF_CONFIRM"):
                # second chance: a value that is wrong only after OTHER evaluations of the same process (state
                # leaking between calls) cannot be reproduced from one case; it is accepted when a second, independent
                # complete run of the check in a fresh process reports the same key
                again = _full_run_keys(pid, args.tier)
                still = []
                for it, r in bad:
                    if it[0] in again:
                        with open(it[2]) as fh:
                            doc = json.load(fh)
                        doc.update(needs_full_run=True, tier=args.tier,
                                   note="not reproducible from the single case in a fresh process; reported again by a second complete run")
                        with open(it[2], "w") as fh:
                            json.dump(doc, fh, indent=1)
                            fh.write("\n")
                    else:
                        still.append((it, r))
                bad = still
            if bad and len(bad) < len(new):
                # some violations are confirmed, others were seen once and neither replay nor a second complete run
                # shows them again (typically the same state leak surfacing under another key, depending on which
                # worker process evaluated what): the confirmed ones are reported, the others are listed as unstable
                unstable = {it[0] for it, _r in bad}
                for (key, desc, path, _), (rc, out) in bad[:8]:
                    print(f"UNSTABLE property={pid} seen once, not reproducible (not reported as a violation): {key}")
                new = [it for it in new if it[0] not in unstable]
                bad = []
            if bad:
                for (key, desc, path, _), (rc, out) in bad[:5]:
                    print(f"HARNESS-ERROR property={pid} violation not reproducible from a fresh process: {key} rc={rc}\n{out}")
                write_evidence(ctx, mod, len(by_key), time.time() - t0)
                return 2
        path = write_evidence(ctx, mod, len(by_key), time.time() - t0)
        for key, desc, rp, ent in listed:
            print(f"KNOWN-FINDING: property={pid} {key}: {ent.get('what', desc)}")
        for key, desc, rp, _ in new:
            print(f"VIOLATION property={pid} replay={rp} key={key} :: {core.short(desc, 300)} (x{counts[key]})")
        cov = ctx.acc
        print(
            f"{pid} {args.tier}: evaluations={cov.evaluations} distinct_nontrivial={len(cov.classes)} "
            f"outcomes={len(cov.outcomes)} exhaustive={ctx.exhaustive} "
            + " ".join(f"{k}={v}" for k, v in ctx.cov.items() if isinstance(v, int))
            + f" violations={len(new)} known={len(listed)} wall={time.time() - t0:.1f}s evidence={path}"
        )
        return 1 if new else 0
    except HarnessError as e:
        print(f"HARNESS-ERROR property={pid}: {e}")
        traceback.print_exc()
        return 2
    except Exception as e:  # noqa: BLE001
        print(f"HARNESS-ERROR property={pid}: unexpected {e!r}")
        traceback.print_exc()
        return 2


if __name__ == "__main__":
    sys.exit(main())
