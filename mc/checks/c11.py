"""C11 -- the built-in (pure Python) cryptographic primitives equal their standards.

Bounded-exhaustive products (engine E1), one family of shards per primitive:

des       des_encrypt_int_block / des_encrypt_block / expand_des_key / shrink_des_key against the
          textbook FIPS 46-3 reference (mc.refs.des): all 64x64 unit-vector key/block pairs and their
          complements; an input set *constructed* (Feistel rounds run backwards on the reference) so
          that every one of the 8x64 S-box entries is read in every one of the 16 rounds, under three
          key/salt configurations -- the coverage is measured on the reference's trace and asserted;
          all 4096 values of the low and of the high 12 salt bits; every single salt bit, its
          complement, the all-ones salt; rounds 1..26; the bytes API with 7- and 8-byte keys;
          every nibble value at every nibble position of key and block plus 128 dense keys (so that
          every reachable entry of passlib's 4-bit-indexed permutation tables is read -- measured by
          wrapping des._permute, reported as des_impl_permutation_table_entries_read);
          key expansion/shrinking of every 7-bit (8-bit) group value at every position, as inverses;
          arguments DES does not define (sizes, ranges) must be refused.
bcrypt    raw_bcrypt with BOTH engines (base, unrolled) against the bcrypt wheel and libxcrypt.
md4       passlib.crypto._md4.md4 against the RFC 1320 reference (mc.refs.md4): every length, every
          2-split, 3-splits, copy() at every split point, digest() idempotence, hexdigest.
scrypt    ScryptEngine (and the frontend under the "builtin" backend) against hashlib.scrypt;
          validate() against the RFC 7914 predicate.
hmac/pbkdf1/pbkdf2   compile_hmac / pbkdf1 / pbkdf2_hmac against RFC 2104 / RFC 2898 references
          (mc.refs.kdf) for every digest passlib can look up on this host.
saslprep  passlib.utils.saslprep against the RFC 4013 reference (mc.refs.saslprep): every code point
          singly; every string of length <= 3 (thorough 4) over one representative per table/class.

ctx.seed only chooses filler bytes (keys/blocks/passwords/messages); never which cases run.
"""
from __future__ import annotations

import hashlib
import hmac as std_hmac
import itertools
import logging
import os
import warnings

from mc import core
from mc.core import Acc, HarnessError
from mc.refs import b64 as RB
from mc.refs import des as RD
from mc.refs import kdf as RK
from mc.refs import md4 as RM
from mc.refs import saslprep as RS

ID = "C11"
LEVEL = "exploration"
RULE = (
    "full cartesian products per primitive: DES unit-vector keys x blocks (+complements), constructed inputs "
    "reading every S-box entry in every round (asserted on the reference trace), all 2x4096 12-bit salt halves, "
    "salt bit lanes, rounds 1..26, bytes API with 7/8-byte keys, key/block nibble lanes + dense keys (every reachable "
    "permutation-table entry), key expand/shrink per group value x position; "
    "bcrypt engine{base,unrolled} x ident{2,2a,2y,2b} x cost x password length x content x salt lanes; MD4 every "
    "length x content, every 2-split (3-splits) with copy() at each cut; scrypt N x r x p x keylen and the "
    "validate() grid; HMAC digest x key length x message length x call mode; PBKDF1/2 digest x rounds x every "
    "key length; SASLprep every code point and every short string over table representatives. A case is "
    "non-trivial when the primitive under test really computed (or had to refuse) it; distinct class = "
    "component|part|structural parameters (position / length / table / parameter tuple), never filler bytes"
)

MASK64 = (1 << 64) - 1


class _QuietHashNames(logging.Filter):
    """passlib.crypto.digest announces every unusual digest name ('sha512_224') on the root logger"""

    def filter(self, record):
        return "normalizing unrecognized hash name" not in str(record.msg)


logging.getLogger().addFilter(_QuietHashNames())


def filler(seed, n, tag=b""):
    out = b""
    i = 0
    while len(out) < n:
        out += hashlib.sha256(b"c11:%d:%d:" % (seed, i) + tag).digest()
        i += 1
    return out[:n]


def filler_int(seed, nbytes, tag):
    return int.from_bytes(filler(seed, nbytes, tag), "big")


def _exc(e):
    return type(e).__name__


# ===========================================================================
# DES
# ===========================================================================
def _pdes():
    from passlib.crypto import des

    return des


def eval_des_int(part, key, block, salt, rounds):
    salted = "salted" if salt else "plain"
    multi = "iterated" if rounds > 1 else "single"
    want = RD.des_encrypt_int_block(key, block, salt, rounds)
    try:
        got = _pdes().des_encrypt_int_block(key, block, salt, rounds)
    except Exception as e:  # noqa: BLE001
        return [(f"C11|des|int_block:{part}:{salted}:{multi}:raises:{_exc(e)}",
                 f"des_encrypt_int_block(0x{key:016x}, 0x{block:016x}, salt=0x{salt:06x}, rounds={rounds}) raised {e!r}")]
    if got != want:
        return [(f"C11|des|int_block:{part}:{salted}:{multi}:value",
                 f"des_encrypt_int_block(0x{key:016x}, 0x{block:016x}, salt=0x{salt:06x}, rounds={rounds}) = "
                 f"0x{got:016x}, FIPS 46-3 reference 0x{want:016x}")]
    return []


def eval_des_block(part, key, block, salt, rounds):
    """bytes API; key of 7 or 8 bytes"""
    klen = len(key)
    want = RD.des_encrypt_block(key, block, salt, rounds)
    try:
        got = _pdes().des_encrypt_block(key, block, salt, rounds)
    except Exception as e:  # noqa: BLE001
        return [(f"C11|des|block:key{klen}:{part}:raises:{_exc(e)}", f"des_encrypt_block({key!r}, {block!r}, {salt}, {rounds}) raised {e!r}")]
    if got != want:
        return [(f"C11|des|block:key{klen}:{part}:value",
                 f"des_encrypt_block({key.hex()}, {block.hex()}, salt=0x{salt:06x}, rounds={rounds}) = "
                 f"{got.hex() if isinstance(got, bytes) else got!r}, reference {want.hex()}")]
    return []


_PARITY_FREE = 0xFEFEFEFEFEFEFEFE


def eval_des_key(op, form, value):
    """op: expand (56-bit value) | shrink (64-bit value); form: int | bytes.
    expansion: the 56 key bits must sit in the upper 7 bits of each byte (parity bits are free);
    shrink drops the parity bits; the two are inverses on the key bits."""
    des = _pdes()
    out = []
    if op == "expand":
        arg = value if form == "int" else value.to_bytes(7, "big")
        want = RD.expand_des_key(value)
        try:
            got = des.expand_des_key(arg)
            goti = got if form == "int" else int.from_bytes(got, "big")
            if form == "bytes" and (not isinstance(got, bytes) or len(got) != 8):
                return [(f"C11|des|expand_des_key:{form}:shape", f"expand_des_key({arg!r}) = {got!r}")]
            if form == "int" and not (isinstance(got, int) and 0 <= got <= MASK64):
                return [(f"C11|des|expand_des_key:{form}:shape", f"expand_des_key({arg!r}) = {got!r}")]
        except Exception as e:  # noqa: BLE001
            return [(f"C11|des|expand_des_key:{form}:raises:{_exc(e)}", f"expand_des_key({arg!r}) raised {e!r}")]
        if goti & _PARITY_FREE != want:
            out.append((f"C11|des|expand_des_key:{form}:value", f"expand_des_key({arg!r}) = {got!r}, reference key bits 0x{want:016x}"))
        try:
            back = des.shrink_des_key(got)
        except Exception as e:  # noqa: BLE001
            out.append((f"C11|des|shrink_des_key:{form}:raises:{_exc(e)}", f"shrink_des_key({got!r}) raised {e!r}"))
        else:
            if back != arg:
                out.append((f"C11|des|shrink_des_key:{form}:inverse", f"shrink_des_key(expand_des_key({arg!r})) = {back!r}"))
    else:
        arg = value if form == "int" else value.to_bytes(8, "big")
        want = RD.shrink_des_key(value)
        try:
            got = des.shrink_des_key(arg)
            goti = got if form == "int" else int.from_bytes(got, "big")
            if form == "bytes" and (not isinstance(got, bytes) or len(got) != 7):
                return [(f"C11|des|shrink_des_key:{form}:shape", f"shrink_des_key({arg!r}) = {got!r}")]
        except Exception as e:  # noqa: BLE001
            return [(f"C11|des|shrink_des_key:{form}:raises:{_exc(e)}", f"shrink_des_key({arg!r}) raised {e!r}")]
        if goti != want:
            out.append((f"C11|des|shrink_des_key:{form}:value", f"shrink_des_key({arg!r}) = {got!r}, reference 0x{want:014x}"))
        try:
            back = des.expand_des_key(got)
            backi = back if form == "int" else int.from_bytes(back, "big")
        except Exception as e:  # noqa: BLE001
            out.append((f"C11|des|expand_des_key:{form}:raises:{_exc(e)}", f"expand_des_key({got!r}) raised {e!r}"))
        else:
            if backi & _PARITY_FREE != value & _PARITY_FREE:
                out.append((f"C11|des|expand_des_key:{form}:inverse", f"expand_des_key(shrink_des_key({arg!r})) = {back!r}"))
    return out


DES_BAD = {
    # name -> callable(des) that must raise ValueError or TypeError
    "block:key_len": lambda des, n: des.des_encrypt_block(b"k" * n, b"b" * 8),
    "block:input_len": lambda des, n: des.des_encrypt_block(b"k" * 8, b"b" * n),
    "block:salt": lambda des, n: des.des_encrypt_block(b"k" * 8, b"b" * 8, n, 1),
    "block:rounds": lambda des, n: des.des_encrypt_block(b"k" * 8, b"b" * 8, 0, n),
    "int_block:key": lambda des, n: des.des_encrypt_int_block(n, 0),
    "int_block:input": lambda des, n: des.des_encrypt_int_block(0, n),
    "int_block:salt": lambda des, n: des.des_encrypt_int_block(1, 2, n, 1),
    "int_block:rounds": lambda des, n: des.des_encrypt_int_block(1, 2, 0, n),
    "expand:bytes_len": lambda des, n: des.expand_des_key(b"k" * n),
    "expand:int": lambda des, n: des.expand_des_key(n),
    "shrink:bytes_len": lambda des, n: des.shrink_des_key(b"k" * n),
    "shrink:int": lambda des, n: des.shrink_des_key(n),
}


def des_bad_grid():
    g = []
    g += [("block:key_len", n) for n in (0, 1, 6, 9, 10, 16)]
    g += [("block:input_len", n) for n in (0, 1, 7, 9, 16)]
    g += [("block:salt", n) for n in (-1, 1 << 24)]
    g += [("block:rounds", n) for n in (0, -1)]
    g += [("int_block:key", n) for n in (-1, 1 << 64)]
    g += [("int_block:input", n) for n in (-1, 1 << 64)]
    g += [("int_block:salt", n) for n in (-1, 1 << 24)]
    g += [("int_block:rounds", n) for n in (0, -1)]
    g += [("expand:bytes_len", n) for n in (0, 6, 8)]
    g += [("expand:int", n) for n in (-1, 1 << 56)]
    g += [("shrink:bytes_len", n) for n in (0, 7, 9)]
    g += [("shrink:int", n) for n in (-1, 1 << 64)]
    return g


def eval_des_bad(what, n):
    try:
        got = DES_BAD[what](_pdes(), n)
    except (ValueError, TypeError):
        return []
    except Exception as e:  # noqa: BLE001
        return [(f"C11|des|invalid:{what}:raises:{_exc(e)}", f"{what}={n}: raised {e!r} (expected ValueError/TypeError)")]
    return [(f"C11|des|invalid:{what}:accepted", f"{what}={n}: returned {got!r} instead of refusing a value DES does not define")]


SBOX_CONFIGS = ("fixedkey", "zerokey", "salted")


def sbox_config(name, seed):
    if name == "fixedkey":
        return 0x0123456789ABCDEF, 0
    if name == "zerokey":
        return 0, 0
    # fixed (seed-independent): the number of constructed blocks depends on the round keys
    return dense_int(0, 8, b"sbox-key"), 0xA5C3E1


def sbox_inputs(key, salt, rnd):
    """constructed blocks: for every value v, blocks whose round `rnd` feeds v into every S-box"""
    out = []
    for v in range(64):
        pending = {b: v for b in range(8)}
        step = 0
        while pending:
            right, done = RD.right_half_for_sbox_inputs(key, rnd, pending, salt, fill=(0x9E3779B9 * (v + 1) + step) & 0xFFFFFFFF)
            if not done:
                raise HarnessError("S-box input construction made no progress")
            left = (0x12345678 ^ (v * 0x01010101) ^ (rnd << 28)) & 0xFFFFFFFF
            out.append((v, tuple(done), RD.block_for_round_state(key, rnd, left, right, salt)))
            for b in done:
                del pending[b]
            step += 1
    return out


# ===========================================================================
# bcrypt
# ===========================================================================
BCRYPT_LENS = (0, 1, 2, 3, 4, 5, 17, 18, 35, 36, 54, 55, 56, 71, 72, 73)
BCRYPT_IDENTS = ("2", "2a", "2y", "2b")
BCRYPT_ENGINES = ("base", "unrolled")


def bcrypt_password(content, n, seed):
    if content == "mixed":  # high-bit and low bytes alternate, every residue class of the 4-byte words
        return bytes(((0x80 + 37 * i + 11 * n) & 0xFF) or 1 for i in range(n))
    if content == "ascii":
        return bytes(33 + (i * 7 + n) % 94 for i in range(n))
    data = filler(seed, n, b"bcrypt-pw")
    return bytes(b or 1 for b in data)


def bcrypt_lane_salt(k):
    """22 salt characters; over k = 0..63 every alphabet character occurs at every position"""
    return "".join(RB.BCRYPT[(k + 5 * pos) % 64] for pos in range(22)).encode("ascii")


def _xcrypt_bytes(word, setting):
    """libxcrypt crypt_r on raw bytes (legacycrypt.crypt insists on str); None when unavailable"""
    try:
        import ctypes

        import legacycrypt
    except ImportError:
        return None
    fn = getattr(legacycrypt, "_crypt_r_func", None)
    dt = getattr(legacycrypt, "_crypt_data", None)
    if fn is None or dt is None:
        try:
            text = word.decode("utf-8")
        except UnicodeDecodeError:
            return None
        r = legacycrypt.crypt(text, setting.decode("ascii"))
        return r.encode("ascii") if r else None
    data = dt()
    r = fn(word, setting, ctypes.byref(data))
    return bytes(r) if r else None


_BCRYPT_LAST = [0]


def bcrypt_oracle(ident, cost, password, salt):
    """31-character checksum demanded by the bcrypt definition, from the bcrypt wheel and libxcrypt"""
    import bcrypt as wheel

    raw = RB.decode_bytes(salt, RB.BCRYPT, True)[:16]
    canon = RB.encode_bytes(raw, RB.BCRYPT, True)
    if ident == "2":
        # $2$: the key is the password cycled WITHOUT the terminating NUL.  Cycling p over the 72 key
        # bytes equals the $2a$ key of the 72-byte string p p p ...[:72] (whose NUL falls off the end);
        # for the empty password the original C code reads the NUL, the same as $2a$.
        if password:
            password = (password * (72 // len(password) + 1))[:72]
        oid = b"2a"
    else:
        oid = ident.encode("ascii")
    pw = password[:72]  # bcrypt reads 72 key bytes; bcrypt>=5 refuses longer input instead of truncating
    setting = b"$" + oid + b"$%02d$" % cost + canon
    full = wheel.hashpw(pw, setting)
    if not full.startswith(setting) or len(full) != len(setting) + 31:
        raise HarnessError(f"bcrypt wheel returned {full!r} for setting {setting!r}")
    want = full[len(setting):]
    other = _xcrypt_bytes(pw, setting)
    checked = 1
    if other is not None and other.startswith(b"$2"):
        if other != full:
            raise HarnessError(f"bcrypt wheel {full!r} and libxcrypt {other!r} disagree")
        checked = 2
    _BCRYPT_LAST[0] = checked
    return want, checked


def _len_class(n):
    return "0" if n == 0 else "1-71" if n < 72 else "72" if n == 72 else "73+"


def eval_bcrypt(engine, ident, cost, password, salt):
    import passlib.crypto._blowfish as B
    from passlib.crypto._blowfish import base, unrolled

    cls = {"base": base.BlowfishEngine, "unrolled": unrolled.BlowfishEngine}[engine]
    want, _ = bcrypt_oracle(ident, cost, password, salt)
    old = B.BlowfishEngine
    B.BlowfishEngine = cls
    try:
        try:
            got = B.raw_bcrypt(password, ident, salt, cost)
        finally:
            B.BlowfishEngine = old
    except Exception as e:  # noqa: BLE001
        return [(f"C11|bcrypt|{engine}:{ident}:len{_len_class(len(password))}:raises:{_exc(e)}",
                 f"raw_bcrypt({password!r}, {ident!r}, {salt!r}, {cost}) [{engine} engine] raised {e!r}")]
    if got != want:
        return [(f"C11|bcrypt|{engine}:{ident}:len{_len_class(len(password))}:value",
                 f"raw_bcrypt({password!r}, {ident!r}, {salt!r}, {cost}) [{engine} engine] = {got!r}, bcrypt wheel/libxcrypt {want!r}")]
    return []


# ===========================================================================
# MD4
# ===========================================================================
_MD4_CACHE = {}


def ref_md4(data):
    r = _MD4_CACHE.get(data)
    if r is None:
        if len(_MD4_CACHE) > 20000:
            _MD4_CACHE.clear()
        r = _MD4_CACHE[data] = RM.md4(data)
    return r


def _pmd4():
    from passlib.crypto._md4 import md4

    return md4


def md4_content(kind, n, seed):
    if kind == "filler":
        return filler(seed, n, b"md4")
    if kind == "walk":  # every byte value at every residue mod 64 sooner or later
        return bytes((i * 67 + n * 3 + 1) & 0xFF for i in range(n))
    if kind == "utf16":  # NT-hash shaped: UTF-16-LE of printable ASCII (odd lengths get a trailing byte)
        return b"".join(bytes([33 + (i * 7 + n) % 90, 0]) for i in range(n // 2)) + (b"\xff" if n % 2 else b"")
    raise HarnessError(kind)


def _tail_class(n):
    return "tail_lt56" if n % 64 < 56 else "tail_ge56"


def eval_md4_oneshot(data):
    md4 = _pmd4()
    n = len(data)
    tc = f"{'multi' if n >= 64 else 'one'}block:{_tail_class(n)}"
    want = ref_md4(data)
    out = []
    try:
        h = md4(data)
        d1 = h.digest()
        d2 = h.digest()
        hx = h.hexdigest()
        h2 = md4()
        h2.update(data)
        d3 = h2.digest()
        # digest() must not disturb the running state: more data can follow
        more = b"\x80tail" + data[:7]
        h2.update(more)
        d4 = h2.digest()
        h5 = md4()
        h5.update(b"")
        h5.update(data)
        h5.update(b"")
        d5 = h5.digest()
    except Exception as e:  # noqa: BLE001
        return [(f"C11|md4|oneshot:{tc}:raises:{_exc(e)}", f"md4 over {n} bytes raised {e!r}")]
    if d1 != want:
        out.append((f"C11|md4|oneshot:{tc}:value", f"md4({n} bytes).digest() = {d1.hex()}, RFC 1320 reference {want.hex()}"))
    # the other call paths are reported under their own key only when they differ from the one-shot path
    if d3 != want and d3 != d1:
        out.append((f"C11|md4|update:{tc}:value", f"md4().update({n} bytes).digest() = {d3.hex()}, reference {want.hex()}"))
    if d5 != want and d5 != d1:
        out.append((f"C11|md4|update:{tc}:empty_updates", f"md4 with empty update() calls around {n} bytes = {d5.hex()}, reference {want.hex()}"))
    if d2 != d1:
        out.append((f"C11|md4|digest:{tc}:idempotent", f"second digest() over {n} bytes = {d2.hex()}, first {d1.hex()}"))
    if hx != d1.hex() or not isinstance(hx, str):
        out.append((f"C11|md4|hexdigest:{tc}:value", f"hexdigest() over {n} bytes = {hx!r}, digest() {d1.hex()!r}"))
    w4 = ref_md4(data + more)
    if d4 != w4 and d1 == want:
        out.append((f"C11|md4|digest:{tc}:then_update", f"update() after digest() over {n}+{len(more)} bytes = {d4.hex()}, reference {w4.hex()}"))
    return out


def eval_md4_nt(data):
    """second opinion for UTF-16 shaped messages: libxcrypt's $3$ (NT hash)"""
    try:
        import legacycrypt
    except ImportError:
        return []
    if len(data) % 2 or any(data[i + 1] != 0 or not 32 < data[i] < 127 for i in range(0, len(data), 2)):
        return []
    want = legacycrypt.crypt(data.decode("utf-16-le"), "$3$")
    if not want or not want.startswith("$3$$"):
        return []
    got = _pmd4()(data).hexdigest()
    if "$3$$" + got != want:
        return [(f"C11|md4|oneshot:nt_hash:value", f"md4({len(data)} UTF-16 bytes) = {got}, libxcrypt NT hash {want}")]
    return []


def eval_md4_split(data, cuts):
    """feed data in len(cuts)+1 update() calls; at every cut take two copies: one stays frozen,
    one continues with a different tail; the original must be unaffected"""
    md4 = _pmd4()
    n = len(data)
    k = len(cuts) + 1
    out = []
    bounds = [0] + list(cuts) + [n]
    try:
        h = md4()
        frozen = []
        forks = []
        for i in range(k):
            h.update(data[bounds[i] : bounds[i + 1]])
            if i < k - 1:
                frozen.append((bounds[i + 1], h.copy()))
                f = h.copy()
                alt = b"\xa5" + data[bounds[i + 1] :][::-1]
                f.update(alt)
                forks.append((bounds[i + 1], alt, f))
        got = h.digest()
        fd = [(c, x.digest()) for c, x in frozen]
        kd = [(c, alt, x.digest()) for c, alt, x in forks]
        again = h.digest()
    except Exception as e:  # noqa: BLE001
        return [(f"C11|md4|split{k}:raises:{_exc(e)}", f"md4 over {n} bytes cut at {list(cuts)} raised {e!r}")]
    want = ref_md4(data)
    if got != want or again != want:
        out.append((f"C11|md4|split{k}:value", f"md4 of {n} bytes fed as update() x{k} cut at {list(cuts)} = {got.hex()}, one-shot reference {want.hex()}"))
    for c, d in fd:
        if d != ref_md4(data[:c]):
            out.append((f"C11|md4|split{k}:copy_frozen", f"copy() taken after {c} of {n} bytes digests to {d.hex()}, reference {ref_md4(data[:c]).hex()}"))
            break
    for c, alt, d in kd:
        w = ref_md4(data[:c] + alt)
        if d != w:
            out.append((f"C11|md4|split{k}:copy_continues", f"copy() taken after {c} of {n} bytes then updated with {len(alt)} other bytes = {d.hex()}, reference {w.hex()}"))
            break
    return out


MD4_BOUNDARY = (0, 1, 55, 56, 57, 63, 64, 65, 119, 120, 121, 127, 128, 129)


# ===========================================================================
# scrypt
# ===========================================================================
SCRYPT_KEYLENS = (1, 16, 31, 32, 33, 63, 64, 65, 130)


def scrypt_oracle(secret, salt, n, r, p, keylen):
    return hashlib.scrypt(secret, salt=salt, n=n, r=r, p=p, dklen=keylen, maxmem=128 * r * (n + p + 2) + (1 << 20))


def eval_scrypt(via, secret, salt, n, r, p, keylen):
    want = scrypt_oracle(secret, salt, n, r, p, keylen)
    rc = "r1" if r == 1 else "r>1"
    pc = "p1" if p == 1 else "p>1"
    try:
        if via == "engine":
            from passlib.crypto.scrypt._builtin import ScryptEngine

            got = ScryptEngine.execute(secret, salt, n, r, p, keylen)
        else:
            from passlib.crypto import scrypt as S

            old = S.backend
            with warnings.catch_warnings():
                warnings.simplefilter("ignore")
                S._set_backend("builtin")
                try:
                    if S.backend != "builtin":
                        raise HarnessError("could not select the builtin scrypt backend")
                    got = S.scrypt(secret, salt, n, r, p, keylen)
                finally:
                    S._set_backend(old)
    except HarnessError:
        raise
    except Exception as e:  # noqa: BLE001
        return [(f"C11|scrypt|{via}:{rc}:{pc}:raises:{_exc(e)}", f"scrypt({secret!r}, {salt!r}, n={n}, r={r}, p={p}, keylen={keylen}) [{via}] raised {e!r}")]
    if got != want:
        return [(f"C11|scrypt|{via}:{rc}:{pc}:value",
                 f"builtin scrypt({secret!r}, {salt!r}, n={n}, r={r}, p={p}, keylen={keylen}) [{via}] = "
                 f"{got.hex() if isinstance(got, bytes) else got!r}, hashlib.scrypt {want.hex()}")]
    return []


def scrypt_invalid_kind(n, r, p):
    """RFC 7914 section 2/6: r, p positive; p <= (2^32-1)*32/(128 r); N > 1, a power of 2, N < 2^(128 r / 8)"""
    if r < 1:
        return "r<1"
    if p < 1:
        return "p<1"
    if 128 * r * p > (2**32 - 1) * 32:
        return "r*p>=2^30"
    if n < 2:
        return "n<2"
    if n & (n - 1):
        return "n_not_power_of_2"
    if n.bit_length() > 16 * r:  # n >= 2^(16 r), without building that number
        return "n>=2^(16r)"
    return None


def eval_scrypt_validate(n, r, p):
    from passlib.crypto.scrypt import validate

    kind = scrypt_invalid_kind(n, r, p)
    try:
        got = validate(n, r, p)
    except ValueError:
        if kind is None:
            return [("C11|scrypt|validate:valid:rejected", f"validate(n={n}, r={r}, p={p}) raised ValueError for parameters RFC 7914 allows")]
        return []
    except Exception as e:  # noqa: BLE001
        return [(f"C11|scrypt|validate:{kind or 'valid'}:raises:{_exc(e)}", f"validate(n={n}, r={r}, p={p}) raised {e!r}")]
    if kind is not None:
        return [(f"C11|scrypt|validate:{kind}:accepted", f"validate(n={n}, r={r}, p={p}) returned {got!r}; RFC 7914 forbids these parameters ({kind})")]
    if got is not True:
        return [("C11|scrypt|validate:valid:result", f"validate(n={n}, r={r}, p={p}) returned {got!r}")]
    return []


def eval_scrypt_integerify(n, r, lane):
    """RFC 7914 section 4: Integerify(B[0..2r-1]) reads B[2r-1] -- the LAST 64-byte block -- as a little-endian integer,
    taken mod N.  N beyond 2^32 cannot be run (terabytes), so the engine's integerify step is probed directly (white box
    on ScryptEngine(n, r, p).integerify over the engine's 32-bit-word block representation; skipped with a note if the
    engine is restructured): one-hot word lanes say which words of the block reach the result, and where."""
    try:
        from passlib.crypto.scrypt._builtin import ScryptEngine

        eng = ScryptEngine(n, r, 1)
        f = eng.integerify
        words = 32 * r
    except Exception as e:  # noqa: BLE001
        raise HarnessError(f"ScryptEngine(n={n}).integerify is not reachable any more: {e!r}") from e
    X = [0] * words
    X[lane] = 0x80000001
    raw = b"".join(w.to_bytes(4, "little") for w in X)
    want = int.from_bytes(raw[-64:], "little") % n
    try:
        got = f(X) % n
    except Exception as e:  # noqa: BLE001
        return [(f"C11|scrypt|integerify:raises:{_exc(e)}", f"ScryptEngine({n}, {r}, 1).integerify raised {e!r}")]
    if got != want:
        return [(f"C11|scrypt|integerify:n{'>' if n > 0xFFFFFFFF else '<='}2^32:value",
                 f"ScryptEngine(n=2^{n.bit_length() - 1}, r={r}).integerify(block with word {lane - words} = 0x80000001) mod n = {got:#x}, "
                 f"RFC 7914 Integerify (last 64-byte block, little-endian) mod n = {want:#x}")]
    return []


def eval_scrypt_keylen(keylen):
    """frontend: dkLen must be a positive integer <= (2^32-1)*32"""
    from passlib.crypto import scrypt as S

    ok = 1 <= keylen <= (2**32 - 1) * 32
    if ok:
        return []  # valid lengths are the business of eval_scrypt
    try:
        got = S.scrypt(b"pw", b"salt", 2, 1, 1, keylen)
    except ValueError:
        return []
    except Exception as e:  # noqa: BLE001
        return [(f"C11|scrypt|frontend:keylen_invalid:raises:{_exc(e)}", f"scrypt(keylen={keylen}) raised {e!r}, expected ValueError")]
    return [("C11|scrypt|frontend:keylen_invalid:accepted", f"scrypt(keylen={keylen}) returned {got!r}")]


VALIDATE_N = (-2, -1, 0, 1, 2, 3, 4, 5, 6, 7, 8, 9, 12, 15, 16, 17, 1 << 15, (1 << 16) - 1, 1 << 16, (1 << 16) + 1, 1 << 17,
              1 << 31, 1 << 32, (1 << 32) + 2, 1 << 33, 1 << 48, 1 << 63, 1 << 64)
VALIDATE_R = (-1, 0, 1, 2, 3, 4, 8, 1 << 15, 1 << 29, (1 << 30) - 1, 1 << 30)
VALIDATE_P = (-1, 0, 1, 2, 3, 1 << 15, 1 << 29, (1 << 30) - 1, 1 << 30, 1 << 31)


# ===========================================================================
# HMAC / PBKDF
# ===========================================================================
_DIGESTS = None


def digests():
    """every fixed-output digest of this host that passlib can look up and the reference can compute"""
    global _DIGESTS
    if _DIGESTS is None:
        from passlib.crypto.digest import lookup_hash

        out = []
        for name in sorted(set(hashlib.algorithms_available) | {"md4"}):
            if name.startswith("shake"):
                continue  # extendable-output functions are not "hash functions" in the RFC 2104 sense
            if name != name.lower() or "-" in name:
                continue  # aliases of names already in the list
            try:
                _, hlen, block = RK.digest_info(name)
            except ValueError:
                continue
            try:
                info = lookup_hash(name, required=False)
            except Exception:  # noqa: BLE001
                continue
            if not info.supported:
                continue
            out.append((name, hlen, block))
        _DIGESTS = out
    return _DIGESTS


def _std_available(name):
    if name == "md4":
        return False
    try:
        hashlib.new(name)
    except ValueError:
        return False
    return True


def hmac_expected(name, key, msg):
    want = RK.hmac_ref(name, key, msg)
    if _std_available(name):
        std = std_hmac.new(key, msg, name).digest()
        if std != want:
            raise HarnessError(f"HMAC reference and stdlib hmac disagree for {name}")
    return want


def _key_class(klen, block):
    return "key_lt_block" if klen < block else "key_eq_block" if klen == block else "key_gt_block"


HMAC_MODES = ("single", "strkey", "multi")


def eval_hmac(name, key, msg, mode):
    from passlib.crypto.digest import compile_hmac

    block = RK.digest_info(name)[2]
    kb = key.encode("utf-8") if isinstance(key, str) else key
    kc = _key_class(len(kb), block)
    out = []
    try:
        if mode in ("single", "strkey"):
            f = compile_hmac(name, key)
            got = f(msg)
            want = hmac_expected(name, kb, msg)
            if got != want:
                out.append((f"C11|hmac|{name}:{kc}:{mode}:value",
                            f"compile_hmac({name!r}, key of {len(kb)} bytes)({len(msg)} bytes) = {got.hex()}, RFC 2104 reference {want.hex()}"))
            # the compiled function is reusable
            got2 = f(msg[::-1])
            if got == want and (got2 != hmac_expected(name, kb, msg[::-1]) or f(msg) != got):
                out.append((f"C11|hmac|{name}:{kc}:{mode}:reuse", f"compile_hmac({name!r}) function gives different answers when reused"))
        else:
            f = compile_hmac(name, key, multipart=True)
            update, finalize = f()
            cut = len(msg) // 2
            update(msg[:cut])
            mid = finalize()
            update(b"")
            update(msg[cut:])
            got = finalize()
            again = finalize()
            u2, f2 = f()
            fresh = f2()
            want = hmac_expected(name, kb, msg)
            if got != want or again != want:
                out.append((f"C11|hmac|{name}:{kc}:multi:value",
                            f"compile_hmac({name!r}, key of {len(kb)} bytes, multipart=True) over {cut}+{len(msg) - cut} bytes = {got.hex()}, reference {want.hex()}"))
            if got == want and mid != hmac_expected(name, kb, msg[:cut]):
                out.append((f"C11|hmac|{name}:{kc}:multi:partial", f"finalize() after the first {cut} bytes = {mid.hex()}"))
            if got == want and fresh != hmac_expected(name, kb, b""):
                out.append((f"C11|hmac|{name}:{kc}:multi:fresh", f"a second hmac() instance is not independent of the first"))
    except HarnessError:
        raise
    except Exception as e:  # noqa: BLE001
        return [(f"C11|hmac|{name}:{kc}:{mode}:raises:{_exc(e)}", f"compile_hmac({name!r}, key of {len(kb)} bytes) raised {e!r}")]
    return out


def eval_pbkdf1(name, secret, salt, rounds, keylen):
    from passlib.crypto.digest import pbkdf1

    hlen = RK.digest_info(name)[1]
    eff = hlen if keylen is None else keylen
    valid = rounds >= 1 and 0 <= eff <= hlen
    try:
        got = pbkdf1(name, secret, salt, rounds, keylen)
    except ValueError as e:
        if valid:
            return [(f"C11|pbkdf1|{name}:raises:{_exc(e)}", f"pbkdf1({name!r}, {secret!r}, {salt!r}, {rounds}, {keylen}) raised {e!r}")]
        return []
    except Exception as e:  # noqa: BLE001
        return [(f"C11|pbkdf1|{name}:raises:{_exc(e)}", f"pbkdf1({name!r}, {secret!r}, {salt!r}, {rounds}, {keylen}) raised {e!r}")]
    if not valid:
        why = "rounds_lt_1" if rounds < 1 else "keylen_gt_hlen" if eff > hlen else "keylen_negative"
        return [(f"C11|pbkdf1|{name}:{why}:accepted", f"pbkdf1({name!r}, ..., rounds={rounds}, keylen={keylen}) returned {got!r}; RFC 2898 5.1 says 'derived key too long' / positive count")]
    want = RK.pbkdf1_ref(name, secret, salt, rounds, eff)
    if got != want:
        return [(f"C11|pbkdf1|{name}:value", f"pbkdf1({name!r}, {secret!r}, {salt!r}, {rounds}, {keylen}) = {got.hex()}, RFC 2898 reference {want.hex()}")]
    return []


def eval_pbkdf2(name, secret, salt, rounds, keylen):
    from passlib.crypto.digest import pbkdf2_hmac

    hlen = RK.digest_info(name)[1]
    eff = hlen if keylen is None else keylen
    valid = rounds >= 1 and eff >= 1
    try:
        got = pbkdf2_hmac(name, secret, salt, rounds, keylen)
    except Exception as e:  # noqa: BLE001
        if not valid and isinstance(e, ValueError):
            return []
        if eff == 0 and isinstance(e, ValueError):
            return []  # RFC 2898: dkLen is a positive integer; refusing 0 is fine
        return [(f"C11|pbkdf2|{name}:raises:{_exc(e)}", f"pbkdf2_hmac({name!r}, {secret!r}, {salt!r}, {rounds}, {keylen}) raised {e!r}")]
    if rounds < 1 or eff < 0:
        return [(f"C11|pbkdf2|{name}:invalid:accepted", f"pbkdf2_hmac({name!r}, ..., rounds={rounds}, keylen={keylen}) returned {got!r}")]
    want = RK.pbkdf2_ref(name, secret, salt, rounds, eff)
    if _std_available(name) and eff >= 1:
        if hashlib.pbkdf2_hmac(name, secret, salt, rounds, eff) != want:
            raise HarnessError(f"PBKDF2 reference and hashlib.pbkdf2_hmac disagree for {name}")
    if got != want:
        kc = "first_block" if eff <= hlen else "later_blocks"
        return [(f"C11|pbkdf2|{name}:{kc}:value", f"pbkdf2_hmac({name!r}, {secret!r}, {salt!r}, {rounds}, {keylen}) = {got.hex()}, RFC 2898 reference {want.hex()}")]
    return []


PBKDF_ROUNDS = (1, 2, 3, 10)


def pbkdf_secrets(seed, block):
    return (
        (b"password", b"salt"),
        (b"", b""),
        (filler(seed, block + 3, b"pbkdf-secret"), filler(seed, 17, b"pbkdf-salt")),
    )


# ===========================================================================
# SASLprep
# ===========================================================================
#: one representative per RFC 3454 table / bidi class / NFKC behaviour
SASL_REPS = (
    ("L_ascii", "a"),
    ("EN", "1"),
    ("space", " "),
    ("neutral", "-"),
    ("R", "\u05d0"),
    ("AL", "\u0627"),
    ("AN", "\u0661"),
    ("C.1.2", "\u00a0"),
    ("B.1", "\u00ad"),
    ("B.1+C.1.2", "\u200b"),
    ("C.2.1", "\u0007"),
    ("C.2.2", "\u0085"),
    ("C.3", "\ue000"),
    ("C.4", "\ufdd0"),
    ("C.5", "\ud800"),
    ("C.6", "\ufffd"),
    ("C.7", "\u2ff0"),
    ("C.8_L", "\u200e"),
    ("C.8", "\u202a"),
    ("C.9", "\U000e0001"),
    ("A.1", "\u0221"),
    ("A.1_nfkc", "\u1d2c"),
    ("compat", "\ufb01"),
    ("compat_digit", "\u2168"),
    ("combining", "\u0301"),
    ("singleton", "\u212b"),
    ("R_compat", "\ufb2a"),
    ("L_nonascii", "\u00e9"),
)


def _psasl():
    from passlib.utils import saslprep

    return saslprep


def sasl_ref_class(text):
    """(set of acceptable outcomes, class name of the reference verdict)"""
    acc_strict = RS.acceptable(text, True)
    kind, val = RS.explain(text, True)
    if kind == "ok":
        return acc_strict, "ok_same" if val == text else "ok_changed"
    loose_kind, loose_val = RS.explain(text, False)
    if loose_kind == "ok":
        # only the A.1 test on the un-normalised text refuses it: a code point unassigned in Unicode 3.2 that the
        # running interpreter's newer NFKC rewrites into assigned ones before the output test can see it
        return acc_strict, "refused_A.1_rewritten_by_newer_NFKC"
    return acc_strict, f"refused_{loose_val}"


def eval_saslprep(text):
    saslprep = _psasl()
    allowed, rc = sasl_ref_class(text)
    try:
        got = ("ok", saslprep(text))
    except ValueError:
        got = ("refused", None)
    except Exception as e:  # noqa: BLE001
        return [(f"C11|saslprep|{rc}:raises:{_exc(e)}", f"saslprep({text!r}) raised {e!r}")]
    if got in allowed:
        return []
    cps = " ".join(f"U+{ord(c):04X}" for c in text)
    if got[0] == "refused":
        return [(f"C11|saslprep|{rc}:rejected", f"saslprep({text!r}) [{cps}] raised ValueError; RFC 4013 result {sorted(allowed, key=repr)!r}")]
    if rc.startswith("refused"):
        return [(f"C11|saslprep|{rc}:accepted", f"saslprep({text!r}) [{cps}] returned {got[1]!r}; RFC 4013 / RFC 3454 prohibit it ({rc})")]
    return [(f"C11|saslprep|{rc}:value", f"saslprep({text!r}) [{cps}] returned {got[1]!r}; RFC 4013 result {sorted(allowed, key=repr)!r}")]


# ===========================================================================
# case dispatch (shared by the enumeration and by replay)
# ===========================================================================
def eval_hmac_after_ctor(name, variant, order):
    """digest resolution is memoised by name: after the application has looked up a constructor of ITS OWN that
    reports a standard name (a truncated / personalised blake2, a hashlib.new wrapper), the NAME must still compute
    the standard function -- in either order of the two lookups"""
    import functools
    import hashlib

    from passlib.crypto import digest as G

    out = []
    if variant == "truncated":
        ctor = functools.partial(getattr(hashlib, name), digest_size=16) if name.startswith("blake2") else None
    elif variant == "personalised":
        ctor = functools.partial(getattr(hashlib, name), person=b"c11") if name.startswith("blake2") else None
    else:
        ctor = functools.partial(hashlib.new, name)
    if ctor is None:
        return []
    key, msg = b"key-c11", b"message-c11"
    want = hmac_expected(name, key, msg)
    G._hash_info_cache.clear()
    try:
        steps = ("ctor", "name") if order == "ctor_first" else ("name", "ctor")
        for st in steps:
            try:
                if st == "ctor":
                    G.lookup_hash(ctor)
                else:
                    G.lookup_hash(name)
            except (AssertionError, ValueError, TypeError):
                pass  # refusing the application's constructor is fine; poisoning the name is not
        got = G.compile_hmac(name, key)(msg)
        if got != want:
            out.append((f"C11|hmac|{name}:after_custom_constructor:{variant}:{order}",
                        f"after lookup_hash(<{variant} {name} constructor>) ({order}), compile_hmac({name!r}, key)(msg) = {got.hex()}, RFC 2104 reference {want.hex()}"))
        info = G.lookup_hash(name)
        if info.digest_size != RK.digest_info(name)[1]:
            out.append((f"C11|hmac|{name}:after_custom_constructor:{variant}:{order}:digest_size", f"lookup_hash({name!r}).digest_size = {info.digest_size}"))
    except Exception as e:  # noqa: BLE001
        out.append((f"C11|hmac|{name}:after_custom_constructor:{variant}:raises:{_exc(e)}", f"{variant} {order}: raised {e!r}"))
    finally:
        G._hash_info_cache.clear()
    return out


def eval_own_ctor(name, variant, rounds, keylen):
    """a digest CONSTRUCTOR of the application's own (the documented 'digest name or constructor' argument) that reports a
    standard name: HMAC / PBKDF2 over it are HMAC / PBKDF2 of THAT function (RFC 2104 / 2898 over the constructor, through
    the standard library's hmac), or the constructor is refused -- never silently the standard digest of the same name"""
    import functools
    import hashlib
    import hmac as std_hmac

    from passlib.crypto import digest as G

    if variant == "truncated":
        ctor = functools.partial(getattr(hashlib, name), digest_size=16) if name.startswith("blake2") else None
    elif variant == "personalised":
        ctor = functools.partial(getattr(hashlib, name), person=b"c11") if name.startswith("blake2") else None
    else:
        ctor = functools.partial(hashlib.new, name)
    if ctor is None:
        return []
    out = []
    key, msg, salt = b"key-c11", b"message-c11", b"salt-c11"
    try:
        hlen = ctor().digest_size
    except ValueError:
        return []  # the host's hashlib does not offer this digest (md4): no constructor of the application's own to offer

    def ref_pbkdf2():
        res = b""
        for idx in range(1, -(-(keylen or hlen) // hlen) + 1):
            u = std_hmac.new(key, salt + idx.to_bytes(4, "big"), ctor).digest()
            acc_ = int.from_bytes(u, "big")
            for _ in range(rounds - 1):
                u = std_hmac.new(key, u, ctor).digest()
                acc_ ^= int.from_bytes(u, "big")
            res += acc_.to_bytes(hlen, "big")
        return res[: keylen or hlen]

    G._hash_info_cache.clear()
    try:
        for what, f, want in (("hmac", lambda: G.compile_hmac(ctor, key)(msg), std_hmac.new(key, msg, ctor).digest()),
                              ("pbkdf2", lambda: G.pbkdf2_hmac(ctor, key, salt, rounds, keylen), ref_pbkdf2())):
            try:
                got = f()
            except (ValueError, TypeError):
                continue  # refusing the application's constructor is fine
            if got != want:
                out.append((f"C11|{what}|own_constructor:{variant}:value",
                            f"{what} over a {variant} {name} constructor (rounds={rounds}, keylen={keylen}) = {got.hex()}, over that constructor the standard library gives {want.hex()}"))
    except Exception as e:  # noqa: BLE001
        out.append((f"C11|hmac|own_constructor:{variant}:raises:{_exc(e)}", f"{variant} {name}: raised {e!r}"))
    finally:
        G._hash_info_cache.clear()
    return out


def eval_get_prf(name, sep, key, msg):
    """the legacy HMAC entry point passlib.utils.pbkdf2.get_prf('hmac-<digest>') -> (function(key, msg), digest size)"""
    import warnings

    want = hmac_expected(name, key, msg)
    try:
        with warnings.catch_warnings():
            warnings.simplefilter("ignore")
            from passlib.utils.pbkdf2 import get_prf

            f, size = get_prf(f"hmac{sep}{name}")
            got = f(key, msg)
    except Exception as e:  # noqa: BLE001
        return [(f"C11|hmac|get_prf:raises:{_exc(e)}", f"get_prf('hmac{sep}{name}') / its function raised {e!r}")]
    out = []
    if got != want:
        out.append((f"C11|hmac|get_prf:{name}:value", f"get_prf('hmac{sep}{name}')[0]({key!r}, {msg!r}) = {got.hex()}, RFC 2104 reference {want.hex()}"))
    if size != len(want):
        out.append((f"C11|hmac|get_prf:{name}:size", f"get_prf('hmac{sep}{name}')[1] = {size}, digest size {len(want)}"))
    return out


EVALS = {
    "get_prf": lambda c: eval_get_prf(c["digest"], c["sep"], c["key"], c["msg"]),
    "own_ctor": lambda c: eval_own_ctor(c["digest"], c["variant"], c["rounds"], c["keylen"]),
    "hmac_after_ctor": lambda c: eval_hmac_after_ctor(c["digest"], c["variant"], c["order"]),
    "des_int": lambda c: eval_des_int(c["part"], c["key"], c["block"], c["salt"], c["rounds"]),
    "des_block": lambda c: eval_des_block(c["part"], c["key"], c["block"], c["salt"], c["rounds"]),
    "des_key": lambda c: eval_des_key(c["op"], c["form"], c["value"]),
    "des_bad": lambda c: eval_des_bad(c["what"], c["n"]),
    "bcrypt": lambda c: eval_bcrypt(c["engine"], c["ident"], c["cost"], c["password"], c["salt"]),
    "md4_oneshot": lambda c: eval_md4_oneshot(c["data"]) + eval_md4_nt(c["data"]),
    "md4_split": lambda c: eval_md4_split(c["data"], c["cuts"]),
    "md4_long": lambda c: eval_md4_long(c["nblocks"], c["tail"]),
    "md4_stream": lambda c: eval_md4_stream(c["mib"]),
    "scrypt": lambda c: eval_scrypt(c["via"], c["secret"], c["salt"], c["n"], c["r"], c["p"], c["keylen"]),
    "scrypt_validate": lambda c: eval_scrypt_validate(c["n"], c["r"], c["p"]),
    "scrypt_keylen": lambda c: eval_scrypt_keylen(c["keylen"]),
    "scrypt_integerify": lambda c: eval_scrypt_integerify(c["n"], c["r"], c["lane"]),
    "hmac": lambda c: eval_hmac(c["digest"], c["key"], c["msg"], c["mode"]),
    "pbkdf1": lambda c: eval_pbkdf1(c["digest"], c["secret"], c["salt"], c["rounds"], c["keylen"]),
    "pbkdf2": lambda c: eval_pbkdf2(c["digest"], c["secret"], c["salt"], c["rounds"], c["keylen"]),
    "saslprep": lambda c: eval_saslprep(c["text"]),
}


def replay(case):
    # the primitives must be pure functions: a value that is wrong only AFTER other calls (state leaking from one
    # computation into the next) is replayed together with the calls that preceded it in the worker
    for prev in case.get("after") or ():
        EVALS[prev["kind"]](prev)
    return EVALS[case["kind"]](case)


_RECENT = {}


def _do(acc, case, cls, outcome=None):
    acc.ev()
    acc.cls(*cls)
    found = EVALS[case["kind"]](case)
    recent = _RECENT.setdefault(case["kind"], [])  # the last calls of the SAME primitive made by this worker
    for key, desc in found:
        acc.violation(key, desc, dict(case, after=list(recent)))
    recent.append(case)
    del recent[:-2]
    acc.outcome(f"{cls[0]}:{'VIOLATION' if found else (outcome or 'agrees')}")
    return found


# ===========================================================================
# shard workers
# ===========================================================================
def _des_table_recorder():
    """measurement only: which entries of passlib's 4-bit-indexed permutation tables get read.
    Depends on private names of passlib.crypto.des; when they are gone the measurement is skipped."""
    des = _pdes()
    try:
        if des.PCXROT is None:
            des._load_tables()
        tabs = {id(des.PCXROT[0][0]): "PC1ROT", id(des.PCXROT[0][1]): "PC2ROTA", id(des.PCXROT[1][0]): "PC2ROTB",
                id(des.IE3264): "IE3264", id(des.CF6464): "CF6464"}
        orig = des._permute
    except Exception:  # noqa: BLE001
        return None
    touched = set()

    def recording_permute(c, p):
        name = tabs.get(id(p))
        if name:
            x = c
            for i in range(len(p)):
                touched.add((name, i, x & 0xF))
                x >>= 4
        return orig(c, p)

    des._permute = recording_permute
    return des, orig, touched


def work(task):
    acc = Acc()
    part = task["part"]
    seed = task["seed"]
    fn = WORKERS.get(part)
    if fn is None:
        raise HarnessError(f"unknown part {part}")
    rec = _des_table_recorder() if part.startswith("des.") else None
    try:
        fn(acc, task, seed)
    finally:
        if rec:
            rec[0]._permute = rec[1]
    if rec:
        for name, i, v in rec[2]:
            acc.hist.setdefault(f"des_impl_table_entries_read:{name}", {})
            acc.hist[f"des_impl_table_entries_read:{name}"][f"{i}:{v}"] = 1
    comp = part.split(".")[0]
    acc.counters[f"part:{comp}:evaluations"] += acc.evaluations
    acc.counters[f"part:{comp}:violations"] += len(acc.violations)
    acc.axis("part", part)
    return acc


def w_des_unit(acc, task, seed):
    for i in task["keybits"]:
        for j in range(64):
            k, b = 1 << i, 1 << j
            _do(acc, {"kind": "des_int", "part": "unit", "key": k, "block": b, "salt": 0, "rounds": 1}, ("des", "unit", i, j))
            _do(acc, {"kind": "des_int", "part": "complement", "key": k ^ MASK64, "block": b ^ MASK64, "salt": 0, "rounds": 1},
                ("des", "complement", i, j))
        # unit key against the zero / all-ones block, zero key against unit blocks
        for blk, nm in ((0, "zero"), (MASK64, "ones")):
            _do(acc, {"kind": "des_int", "part": "unit", "key": 1 << i, "block": blk, "salt": 0, "rounds": 1}, ("des", "unit", i, nm))
            _do(acc, {"kind": "des_int", "part": "unit", "key": blk, "block": 1 << i, "salt": 0, "rounds": 1}, ("des", "unit", nm, i))
    acc.axis("des_part", "unit")


def w_des_sbox(acc, task, seed):
    cfg, rnd = task["cfg"], task["round"]
    key, salt = sbox_config(cfg, seed)
    hit = set()
    for v, boxes, block in sbox_inputs(key, salt, rnd):
        _, trace = RD.des_trace(key, block, salt, 1)
        tr = {(r, b, x) for _, r, b, x in trace}
        for b in boxes:
            if (rnd, b, v) not in tr:
                raise HarnessError(f"constructed block does not feed {v} into S-box {b} in round {rnd}")
        hit.update(t for t in tr if t[0] == rnd)
        acc.counters["des_sbox_all_round_entries_touched"] += len(tr)
        _do(acc, {"kind": "des_int", "part": "sbox", "key": key, "block": block, "salt": salt, "rounds": 1},
            ("des", "sbox", cfg, rnd, v, boxes[0]))
    if len(hit) != 512:
        raise HarnessError(f"S-box coverage of round {rnd} under {cfg}: {len(hit)}/512")
    acc.counters["des_sbox_round_box_value_triples_covered"] += len(hit)
    acc.axis("des_part", "sbox")
    acc.axis("des_sbox_config", cfg)


def des_pairs(seed):
    """(name, key, block): the crypt(3) shape (password key, zero block) and a filler pair"""
    pw_key = int.from_bytes(bytes((c << 1) & 0xFF for c in b"password"), "big")
    return (("crypt", pw_key, 0), ("filler", filler_int(seed, 8, b"des-key"), filler_int(seed, 8, b"des-block")))


def w_des_salt12(acc, task, seed):
    for pname, key, block in des_pairs(seed):
        for s in range(task["lo"], task["hi"]):
            for half, salt in (("low", s), ("high", s << 12)):
                _do(acc, {"kind": "des_int", "part": "salt12", "key": key, "block": block, "salt": salt, "rounds": 1},
                    ("des", "salt12", pname, half, s))
    acc.axis("des_part", "salt12")


def lane_salts():
    out = [("zero", 0), ("ones", 0xFFFFFF)]
    for i in range(24):
        out.append((f"bit{i}", 1 << i))
        out.append((f"notbit{i}", 0xFFFFFF ^ (1 << i)))
    return out


def w_des_salt24(acc, task, seed):
    for pname, key, block in des_pairs(seed):
        for sname, salt in lane_salts():
            for rounds in (1, 2, 25):
                _do(acc, {"kind": "des_int", "part": "salt24", "key": key, "block": block, "salt": salt, "rounds": rounds},
                    ("des", "salt24", pname, sname, rounds))
                acc.axis("des_rounds", rounds)
    acc.axis("des_part", "salt24")


def w_des_rounds(acc, task, seed):
    salts = (("zero", 0), ("ones", 0xFFFFFF), ("bit5", 32), ("filler12", filler_int(seed, 2, b"des-salt") & 0xFFF),
             ("filler24", filler_int(seed, 3, b"des-salt24")))
    for pname, key, block in des_pairs(seed):
        for rounds in range(task["lo"], task["hi"]):
            for sname, salt in salts:
                _do(acc, {"kind": "des_int", "part": "rounds", "key": key, "block": block, "salt": salt, "rounds": rounds},
                    ("des", "rounds", pname, sname, rounds))
                acc.axis("des_rounds", rounds)
    acc.axis("des_part", "rounds")


def dense_int(i, nbytes, tag):
    """seed-independent dense material (coverage of the key-permutation tables is asserted on it)"""
    return int.from_bytes(hashlib.sha256(b"c11-dense:%s:%d" % (tag, i)).digest()[:nbytes], "big")


def w_des_keylanes(acc, task, seed):
    """every nibble value at every nibble position of the key (background all-zero and all-one):
    touches every entry of a 4-bit-indexed key-permutation table (PC1) by construction"""
    blocks = (("zero", 0), ("filler", filler_int(seed, 8, b"lane-block")))
    for pos in task["positions"]:
        for v in range(16):
            for bg, key in (("bg0", v << (4 * pos)), ("bg1", MASK64 ^ ((15 ^ v) << (4 * pos)))):
                for bname, block in blocks:
                    _do(acc, {"kind": "des_int", "part": "keylanes", "key": key, "block": block, "salt": 0, "rounds": 1},
                        ("des", "keylanes", pos, v, bg, bname))
            for bg, block in (("bg0", v << (4 * pos)), ("bg1", MASK64 ^ ((15 ^ v) << (4 * pos)))):
                _do(acc, {"kind": "des_int", "part": "blocklanes", "key": 0x0123456789ABCDEF, "block": block, "salt": 0, "rounds": 1},
                    ("des", "blocklanes", pos, v, bg))
    acc.axis("des_part", "keylanes")


def w_des_dense(acc, task, seed):
    """dense keys: the later key-schedule steps (PC2 after rotations) see every reachable nibble value"""
    for i in range(task["lo"], task["hi"]):
        key = dense_int(i, 8, b"key")
        for bname, block in (("zero", 0), ("dense", dense_int(i, 8, b"block"))):
            for sname, salt in (("plain", 0), ("salted", dense_int(i, 3, b"salt"))):
                _do(acc, {"kind": "des_int", "part": "dense", "key": key, "block": block, "salt": salt, "rounds": 1},
                    ("des", "dense", i, bname, sname))
    acc.axis("des_part", "dense")


def w_des_block(acc, task, seed):
    klen = task["klen"]
    for i in task["keybits"]:
        key = (1 << i).to_bytes(klen, "big")
        for j in range(64):
            blk = (1 << j).to_bytes(8, "big")
            _do(acc, {"kind": "des_block", "part": "unit", "key": key, "block": blk, "salt": 0, "rounds": 1}, ("des", f"block{klen}", "unit", i, j))
            ck = bytes(b ^ 0xFF for b in key)
            cb = bytes(b ^ 0xFF for b in blk)
            _do(acc, {"kind": "des_block", "part": "complement", "key": ck, "block": cb, "salt": 0, "rounds": 1},
                ("des", f"block{klen}", "complement", i, j))
    if task.get("lanes"):
        fk = filler(seed, klen, b"des-bkey")
        fb = filler(seed, 8, b"des-bblock")
        for sname, salt in lane_salts():
            for rounds in (1, 25):
                _do(acc, {"kind": "des_block", "part": "salted", "key": fk, "block": fb, "salt": salt, "rounds": rounds},
                    ("des", f"block{klen}", "salt", sname, rounds))
        for rounds in range(1, 27):
            _do(acc, {"kind": "des_block", "part": "rounds", "key": fk, "block": b"\0" * 8, "salt": 0x5A5, "rounds": rounds},
                ("des", f"block{klen}", "rounds", rounds))
    acc.axis("des_part", f"block_key{klen}")


def w_des_keys(acc, task, seed):
    for form in ("int", "bytes"):
        for pos in range(8):
            for bg in (0, 1):
                for v in range(128):
                    value = ((1 << 56) - 1 if bg else 0) & ~(0x7F << (7 * (7 - pos))) | (v << (7 * (7 - pos)))
                    _do(acc, {"kind": "des_key", "op": "expand", "form": form, "value": value}, ("des", "expand", form, pos, bg, v))
                for v in range(256):
                    value = (MASK64 if bg else 0) & ~(0xFF << (8 * (7 - pos))) | (v << (8 * (7 - pos)))
                    _do(acc, {"kind": "des_key", "op": "shrink", "form": form, "value": value}, ("des", "shrink", form, pos, bg, v))
        for t in range(8):
            _do(acc, {"kind": "des_key", "op": "expand", "form": form, "value": filler_int(seed, 7, b"k7-%d" % t)}, ("des", "expand", form, "filler", t))
            _do(acc, {"kind": "des_key", "op": "shrink", "form": form, "value": filler_int(seed, 8, b"k8-%d" % t)}, ("des", "shrink", form, "filler", t))
    for what, n in des_bad_grid():
        _do(acc, {"kind": "des_bad", "what": what, "n": n}, ("des", "invalid", what, n), "refused")
    acc.axis("des_part", "keys")


def w_bcrypt(acc, task, seed):
    c = task["case"]
    _do(acc, c, ("bcrypt", c["engine"], c["ident"], c["cost"], len(c["password"]), task["content"], task["saltname"]))
    acc.axis("bcrypt_engine", c["engine"])
    acc.axis("bcrypt_ident", c["ident"])
    acc.axis("bcrypt_cost", c["cost"])
    acc.axis("bcrypt_pwlen", len(c["password"]))
    acc.axis("bcrypt_salt", "lane" if task["saltname"].startswith("lane") else task["saltname"])
    acc.counters[f"bcrypt_cases_confirmed_by_{_BCRYPT_LAST[0]}_oracles"] += 1


# ---------------------------------------------------------------------------
# md4 over LONG messages: the appended length is the bit length modulo 2^64 (two 32-bit words, low word first)
# ---------------------------------------------------------------------------
MD4_LONG_COUNTS = (2**23 - 1, 2**23, 2**23 + 1, 2**29 - 1, 2**29, 2**32 - 1, 2**32, 2**32 + 5, 2**55 - 1, 2**55, 2**55 + 3)
MD4_LONG_TAILS = (0, 1, 55, 56, 63)
_MD4_LONG_SKIPPED = []


def eval_md4_long(nblocks, tail_len, seed=0):
    """a message of `nblocks` whole blocks + a tail, WITHOUT hashing it: the object is fed two real blocks, then its block
    counter is set to the wanted number (white box: the three private attributes _count / _state / _buf of
    passlib.crypto._md4.md4), and the digest is compared with the reference finalisation of the same chaining state"""
    from mc.refs import md4 as RM

    cls = _pmd4()
    head = filler(seed, 128, b"md4long")
    tail = filler(seed, tail_len, b"md4tail")
    o = cls(head)
    if not all(hasattr(o, a) for a in ("_count", "_state", "_buf")) or o._count != 2 or o._buf != b"":
        # the class was restructured: this white-box probe no longer applies (the thorough tier's streamed message does)
        _MD4_LONG_SKIPPED.append((nblocks, tail_len))
        return []
    state = RM.md4_absorb(RM.INITIAL_STATE, head)
    if tuple(o._state) != state:
        return [("C11|md4|long:state", f"chaining state after two blocks {tuple(o._state)} differs from the reference {state}")]
    o._count = nblocks
    try:
        o.update(tail)
        got = o.digest()
        got2 = o.copy().digest()
    except Exception as e:  # noqa: BLE001
        return [(f"C11|md4|long:raises:{_exc(e)}", f"md4 with {nblocks} blocks absorbed + {tail_len} bytes raised {e!r}")]
    want = RM.md4_finish(state, nblocks, tail)
    out = []
    cls_ = "below_2^32_bits" if nblocks * 512 + 8 * tail_len < 2**32 else "2^32..2^64_bits" if nblocks * 512 + 8 * tail_len < 2**64 else "beyond_2^64_bits"
    if got != want:
        out.append((f"C11|md4|long:length_field:{cls_}", f"md4 of a message of {nblocks} blocks + {tail_len} bytes ({nblocks * 512 + 8 * tail_len} bits): digest {got.hex()}, "
                    f"RFC 1320 (length = bit count mod 2^64, low word first) gives {want.hex()}"))
    elif got2 != want:
        out.append((f"C11|md4|long:copy:{cls_}", f"a copy() of the md4 object after {nblocks} blocks gives {got2.hex()}, expected {want.hex()}"))
    return out


def eval_md4_stream(mib, seed=0):
    """thorough tier: the same through the public interface only -- `mib` MiB really fed through update()"""
    from mc.refs import md4 as RM

    cls = _pmd4()
    chunk = filler(seed, 1 << 20, b"md4stream")
    o = cls()
    state = RM.INITIAL_STATE
    for _ in range(mib):
        o.update(chunk)
        state = RM.md4_absorb(state, chunk)
    o.update(b"abc")
    want = RM.md4_finish(state, mib * (1 << 14), b"abc")
    got = o.digest()
    if got != want:
        return [("C11|md4|long:stream", f"md4 of {mib} MiB + 'abc' fed through update() = {got.hex()}, reference {want.hex()}")]
    return []


def w_md4_long(acc, task, seed):
    if task.get("mib"):
        _do(acc, {"kind": "md4_stream", "mib": task["mib"]}, ("md4", "stream", task["mib"]))
        return
    for n in MD4_LONG_COUNTS:
        for t in MD4_LONG_TAILS:
            _do(acc, {"kind": "md4_long", "nblocks": n, "tail": t}, ("md4", "long", n, t))
    acc.axis("md4_long", "white_box_block_counter" if not _MD4_LONG_SKIPPED else "skipped:class_restructured")
    if _MD4_LONG_SKIPPED:
        acc.counters["md4_long_probe_skipped"] += len(_MD4_LONG_SKIPPED)
        del _MD4_LONG_SKIPPED[:]


def w_md4_oneshot(acc, task, seed):
    for n in range(task["lo"], task["hi"]):
        for kind in ("filler", "walk", "utf16"):
            data = md4_content(kind, n, seed)
            _do(acc, {"kind": "md4_oneshot", "data": data}, ("md4", "oneshot", n, kind))
        acc.axis("md4_len_mod64", n % 64)
        acc.axis("md4_blocks", n // 64)


def w_md4_split2(acc, task, seed):
    for n in range(task["lo"], task["hi"]):
        for kind in ("filler", "walk"):
            data = md4_content(kind, n, seed)
            for cut in range(n + 1):
                _do(acc, {"kind": "md4_split", "data": data, "cuts": [cut]}, ("md4", "split2", n, cut, kind))
        acc.axis("md4_split_len", n)


def w_md4_split3(acc, task, seed):
    mode = task["mode"]
    for n in range(task["lo"], task["hi"]):
        data = md4_content("filler", n, seed)
        if mode == "all":
            pts = range(n + 1)
        else:
            pts = sorted({p for p in MD4_BOUNDARY + (n - 1, n) if 0 <= p <= n})
        for i in pts:
            for j in pts:
                if j < i:
                    continue
                _do(acc, {"kind": "md4_split", "data": data, "cuts": [i, j]}, ("md4", "split3", n, i, j))
    acc.axis("md4_split3_mode", mode)


def w_scrypt(acc, task, seed):
    n, r = task["n"], task["r"]
    for p in task["ps"]:
        for keylen in task["keylens"]:
            for sname, secret, salt in task["secrets"]:
                _do(acc, {"kind": "scrypt", "via": task["via"], "secret": secret, "salt": salt, "n": n, "r": r, "p": p, "keylen": keylen},
                    ("scrypt", task["via"], n, r, p, keylen, sname))
                acc.axis("scrypt_keylen", keylen)
        acc.axis("scrypt_p", p)
    acc.axis("scrypt_n", n)
    acc.axis("scrypt_r", r)
    acc.axis("scrypt_via", task["via"])


def w_scrypt_validate(acc, task, seed):
    for n in VALIDATE_N:
        for r in VALIDATE_R:
            for p in VALIDATE_P:
                kind = scrypt_invalid_kind(n, r, p)
                _do(acc, {"kind": "scrypt_validate", "n": n, "r": r, "p": p}, ("scrypt", "validate", n, r, p), kind or "valid")
                acc.axis("scrypt_validate_kind", kind or "valid")
    for keylen in (-1, 0, (2**32 - 1) * 32 + 1, 1 << 40):
        _do(acc, {"kind": "scrypt_keylen", "keylen": keylen}, ("scrypt", "keylen_invalid", keylen), "refused")
    # Integerify for every size class of N (the 64-bit branch is unreachable by running scrypt)
    for nb in (1, 4, 16, 31, 32, 33, 40, 63):
        for r in (1, 2, 8):
            for lane in range(32 * r - 20, 32 * r):
                _do(acc, {"kind": "scrypt_integerify", "n": 1 << nb, "r": r, "lane": lane}, ("scrypt", "integerify", nb, r, lane - 32 * r))


def w_hmac(acc, task, seed):
    name, hlen, block = task["digest"]
    for klen in (0, 1, block - 1, block, block + 1, 2 * block):
        key = filler(seed, klen, b"hmac-key" + name.encode())
        skey = "".join(chr(33 + (i * 5 + klen) % 90) for i in range(klen))
        for mlen in (0, 1, block - 1, block, block + 1):
            msg = filler(seed, mlen, b"hmac-msg" + name.encode())
            for mode in HMAC_MODES:
                k = skey if mode == "strkey" else key
                _do(acc, {"kind": "hmac", "digest": name, "key": k, "msg": msg, "mode": mode}, ("hmac", name, klen, mlen, mode))
        acc.axis("hmac_keylen_vs_block", _key_class(klen, block))
    for variant in ("truncated", "personalised", "hashlib_new"):
        for order in ("ctor_first", "name_first"):
            _do(acc, {"kind": "hmac_after_ctor", "digest": name, "variant": variant, "order": order}, ("hmac", name, "after_ctor", variant, order))
    for sep in ("-", "_"):
        for klen in (0, block, block + 1):
            _do(acc, {"kind": "get_prf", "digest": name, "sep": sep, "key": filler(seed, klen, b"prf-key"), "msg": filler(seed, 33, b"prf-msg")},
                ("hmac", name, "get_prf", sep, klen))
    for variant in ("truncated", "personalised", "hashlib_new"):
        for rounds in (1, 3):
            for keylen in (None, 8, hlen + 1):
                _do(acc, {"kind": "own_ctor", "digest": name, "variant": variant, "rounds": rounds, "keylen": keylen}, ("hmac", name, "own_ctor", variant, rounds, keylen))
    # text keys whose CHARACTER count and utf-8 BYTE count fall on different sides of the block size
    # (the key is 'encoded using utf-8' first, the block-size rule applies to the bytes)
    for ch, width in (("é", 2), ("€", 3), ("\U0001f600", 4)):
        for nchar in sorted({block // width, block // width + 1, block - 1, block}):
            skey = ch * nchar
            if not (nchar <= block < nchar * width or nchar * width in (block, block + width)):
                continue
            for mlen in (0, block + 1):
                msg = filler(seed, mlen, b"hmac-msg" + name.encode())
                for mode in ("strkey", "multi"):
                    _do(acc, {"kind": "hmac", "digest": name, "key": skey, "msg": msg, "mode": mode}, ("hmac", name, f"text{width}x{nchar}", mlen, mode))
    acc.axis("digest", name)


def w_pbkdf(acc, task, seed):
    name, hlen, block = task["digest"]
    for sname, (secret, salt) in zip(("plain", "empty", "long"), pbkdf_secrets(seed, block)):
        for rounds in PBKDF_ROUNDS:
            for keylen in [None] + list(range(0, 2 * hlen + 2)):
                _do(acc, {"kind": "pbkdf2", "digest": name, "secret": secret, "salt": salt, "rounds": rounds, "keylen": keylen},
                    ("pbkdf2", name, sname, rounds, keylen))
                _do(acc, {"kind": "pbkdf1", "digest": name, "secret": secret, "salt": salt, "rounds": rounds, "keylen": keylen},
                    ("pbkdf1", name, sname, rounds, keylen), "too_long_refused" if keylen is not None and keylen > hlen else None)
        for keylen in (1, hlen):
            _do(acc, {"kind": "pbkdf2", "digest": name, "secret": secret, "salt": salt, "rounds": 0, "keylen": keylen},
                ("pbkdf2", name, sname, 0, keylen), "refused")
            _do(acc, {"kind": "pbkdf1", "digest": name, "secret": secret, "salt": salt, "rounds": 0, "keylen": keylen},
                ("pbkdf1", name, sname, 0, keylen), "refused")
    acc.axis("digest", name)


def w_sasl_single(acc, task, seed):
    saslprep = _psasl()
    acceptable = RS.acceptable
    pre, post = task.get("wrap", ("", ""))
    for cp in range(task["lo"], task["hi"]):
        ch = pre + chr(cp) + post
        acc.evaluations += 1
        try:
            got = ("ok", saslprep(ch))
        except ValueError:
            got = ("refused", None)
        except Exception:  # noqa: BLE001
            got = ("error", None)
        if got not in acceptable(ch, True):
            case = {"kind": "saslprep", "text": ch}
            found = eval_saslprep(ch)
            if not found:
                raise HarnessError(f"saslprep fast path and evaluator disagree on U+{cp:04X}")
            for key, desc in found:
                acc.violation(key, desc, case)
            acc.outcome("saslprep:VIOLATION")
        else:
            acc.outcome(f"saslprep:{got[0]}")
        if cp % 0x400 == 0:
            _, rc = sasl_ref_class(ch)
            acc.cls("saslprep", "single" if not pre else f"in_context:{ascii(pre)}", cp >> 10, rc)
    acc.counters["saslprep_code_points_checked" if not pre else "saslprep_code_points_checked_in_RandAL_context"] += task["hi"] - task["lo"]
    acc.axis("saslprep_plane", task["lo"] >> 16)


def w_sasl_strings(acc, task, seed):
    reps = SASL_REPS
    saslprep = _psasl()
    for length in task["lengths"]:
        for tail in itertools.product(range(len(reps)), repeat=length - len(task["prefix"])):
            idx = tuple(task["prefix"]) + tail
            text = "".join(reps[i][1] for i in idx)
            acc.evaluations += 1
            try:
                got = ("ok", saslprep(text))
            except ValueError:
                got = ("refused", None)
            except Exception:  # noqa: BLE001
                got = ("error", None)
            allowed, rc = sasl_ref_class(text)
            if got not in allowed:
                case = {"kind": "saslprep", "text": text}
                found = eval_saslprep(text)
                if not found:
                    raise HarnessError(f"saslprep fast path and evaluator disagree on {text!r}")
                for key, desc in found:
                    acc.violation(key, desc, case)
                acc.outcome("saslprep:VIOLATION")
            else:
                acc.outcome(f"saslprep:{rc}")
            acc.cls("saslprep", "string", length, reps[idx[0]][0] if idx else "", reps[idx[-1]][0] if idx else "", rc)
            acc.counters["saslprep_strings_checked"] += 1
    acc.axis("saslprep_string_first", reps[task["prefix"][0]][0] if task["prefix"] else "(short)")


WORKERS = {
    "des.unit": w_des_unit,
    "des.sbox": w_des_sbox,
    "des.salt12": w_des_salt12,
    "des.salt24": w_des_salt24,
    "des.rounds": w_des_rounds,
    "des.block": w_des_block,
    "des.keylanes": w_des_keylanes,
    "des.dense": w_des_dense,
    "des.keys": w_des_keys,
    "bcrypt": w_bcrypt,
    "md4.oneshot": w_md4_oneshot,
    "md4.split2": w_md4_split2,
    "md4.split3": w_md4_split3,
    "md4.long": w_md4_long,
    "scrypt.value": w_scrypt,
    "scrypt.validate": w_scrypt_validate,
    "hmac": w_hmac,
    "pbkdf": w_pbkdf,
    "saslprep.single": w_sasl_single,
    "saslprep.strings": w_sasl_strings,
}


# ===========================================================================
# task list
# ===========================================================================
def bcrypt_tasks(ctx):
    seed = ctx.seed
    tasks = []
    fixed = (("dots", b"." * 22), ("mixed", b"abcdefghijklmnopqrstuu"))

    def add(engine, ident, cost, n, content, saltname, salt):
        pw = bcrypt_password(content, n, seed)
        tasks.append({"part": "bcrypt", "w": 0.2 * (1 << (cost - 4)), "content": content, "saltname": saltname,
                      "case": {"kind": "bcrypt", "engine": engine, "ident": ident, "cost": cost, "password": pw, "salt": salt}})

    if ctx.quick:
        for engine in BCRYPT_ENGINES:
            for ident in BCRYPT_IDENTS:
                for n in BCRYPT_LENS:
                    add(engine, ident, 4, n, "mixed", *fixed[1])
                    add(engine, ident, 5, n, "mixed", *fixed[1])
                    add(engine, ident, 4, n, "ascii", *fixed[0])
            for k in range(64):
                add(engine, BCRYPT_IDENTS[k % 4], 4, BCRYPT_LENS[k % 16], "filler", f"lane{k}", bcrypt_lane_salt(k))
    else:
        for engine in BCRYPT_ENGINES:
            for ident in BCRYPT_IDENTS:
                for n in BCRYPT_LENS:
                    for cost in (4, 5, 6):
                        for content in ("mixed", "ascii", "filler"):
                            for sname, salt in fixed:
                                add(engine, ident, cost, n, content, sname, salt)
                    for k in range(64):
                        add(engine, ident, 4, n, "mixed", f"lane{k}", bcrypt_lane_salt(k))
    return tasks


def build_tasks(ctx):
    seed = ctx.seed
    quick = ctx.quick
    T = []
    # ---- DES
    for lo in range(0, 64, 4):
        T.append({"part": "des.unit", "keybits": list(range(lo, lo + 4)), "w": 0.6})
    for cfg in SBOX_CONFIGS:
        for rnd in range(16):
            T.append({"part": "des.sbox", "cfg": cfg, "round": rnd, "w": 0.4})
    for lo in range(0, 4096, 256):
        T.append({"part": "des.salt12", "lo": lo, "hi": lo + 256, "w": 0.6})
    T.append({"part": "des.salt24", "w": 1.5})
    for lo in range(1, 27, 5):
        T.append({"part": "des.rounds", "lo": lo, "hi": min(27, lo + 5), "w": 0.5})
    for klen, nbits in ((8, 64), (7, 56)):
        for lo in range(0, nbits, 8):
            T.append({"part": "des.block", "klen": klen, "keybits": list(range(lo, lo + 8)), "lanes": lo == 0, "w": 0.8})
    T.append({"part": "des.keys", "w": 0.5})
    for lo in range(0, 16, 2):
        T.append({"part": "des.keylanes", "positions": [lo, lo + 1], "w": 0.2})
    for lo in range(0, 128, 32):
        T.append({"part": "des.dense", "lo": lo, "hi": lo + 32, "w": 0.2})
    # ---- bcrypt
    T += bcrypt_tasks(ctx)
    # ---- MD4
    top = 301 if quick else 1101
    for lo in range(0, top, 25):
        T.append({"part": "md4.oneshot", "lo": lo, "hi": min(top, lo + 25), "w": 0.1 + lo / 2000})
    for lo in range(0, 131, 5):
        T.append({"part": "md4.split2", "lo": lo, "hi": min(131, lo + 5), "w": 0.3 + lo / 200})
    T.append({"part": "md4.long", "w": 0.3})
    if not quick:
        # a few MiB really streamed through update() in 1 MiB pieces (the 2^32-bit boundary itself would take the
        # reference ~35 cpu-min: it is covered by the white-box block-counter probe above, see DESIGN C11)
        T.append({"part": "md4.long", "mib": 6, "w": 30})
    if quick:
        for lo in range(0, 131, 10):
            T.append({"part": "md4.split3", "mode": "boundaries", "lo": lo, "hi": min(131, lo + 10), "w": 0.4})
    else:
        for lo in range(0, 131, 2):
            T.append({"part": "md4.split3", "mode": "all", "lo": lo, "hi": min(131, lo + 2), "w": 0.5 + lo / 20})
    # ---- scrypt
    secrets = [("filler", filler(seed, 11, b"scrypt-pw"), filler(seed, 16, b"scrypt-salt"))]
    edge = [("empty", b"", b""), ("long", filler(seed, 70, b"scrypt-longpw"), filler(seed, 65, b"scrypt-longsalt"))]
    for n in (2, 4, 8, 16, 32, 64):
        for r in range(1, 9):
            T.append({"part": "scrypt.value", "via": "engine", "n": n, "r": r, "ps": [1, 2, 3, 4], "keylens": SCRYPT_KEYLENS,
                      "secrets": secrets, "w": n * r * 10 * 9 * 0.00017})
    for n in (2, 4, 8, 16):
        for r in (1, 2):
            T.append({"part": "scrypt.value", "via": "frontend", "n": n, "r": r, "ps": [1, 2], "keylens": SCRYPT_KEYLENS,
                      "secrets": secrets + edge, "w": n * r * 3 * 27 * 0.00017})
    # secret / salt lengths on both sides of the HMAC-SHA256 block (scrypt's outer PBKDF2 keys its HMAC with the secret:
    # a key LONGER than one block is hashed first, one of exactly one block is not), through the engine and the frontend
    block = [(f"len{L}", filler(seed, L, b"scrypt-blk"), filler(seed, S, b"scrypt-blksalt")) for L in (55, 56, 63, 64, 65, 127, 128, 129) for S in (16, 64)]
    for via in ("engine", "frontend"):
        for n, r in ((2, 1), (8, 2)):
            T.append({"part": "scrypt.value", "via": via, "n": n, "r": r, "ps": [1, 2], "keylens": (32, 40),
                      "secrets": block, "w": n * r * 2 * 2 * 16 * 0.00017})
    big_keylens = (33,) if quick else SCRYPT_KEYLENS
    for n in (128, 256, 512, 1024, 2048, 4096):
        for r in (1, 2):
            for p in (1, 2):
                T.append({"part": "scrypt.value", "via": "engine", "n": n, "r": r, "ps": [p], "keylens": big_keylens,
                          "secrets": secrets, "w": n * r * p * len(big_keylens) * 0.00017})
    T.append({"part": "scrypt.validate", "w": 0.1})
    # ---- HMAC / PBKDF
    for d in digests():
        T.append({"part": "hmac", "digest": d, "w": 0.1 if d[0] != "md4" else 0.5})
        T.append({"part": "pbkdf", "digest": d, "w": 0.6 if d[0] != "md4" else 3.0})
    # ---- SASLprep
    step = 0x4000
    for lo in range(0, 0x110000, step):
        T.append({"part": "saslprep.single", "lo": lo, "hi": lo + step, "w": 0.5})
        # every code point once more between two R/AL characters (RFC 3454 section 6: the LCat table D.2 and the
        # leading/trailing rule only come into play there), in a Hebrew and in an Arabic frame
        for wrap in (("\u05d0", "\u05d0"), ("\u0627", "\u0628")):
            T.append({"part": "saslprep.single", "lo": lo, "hi": lo + step, "wrap": wrap, "w": 0.6})
    nrep = len(SASL_REPS)
    T.append({"part": "saslprep.strings", "prefix": [], "lengths": [0, 1, 2], "w": 0.1})
    if quick:
        for a in range(nrep):
            T.append({"part": "saslprep.strings", "prefix": [a], "lengths": [3], "w": 0.1})
    else:
        for a in range(nrep):
            T.append({"part": "saslprep.strings", "prefix": [a], "lengths": [3], "w": 0.1})
            for b in range(nrep):
                T.append({"part": "saslprep.strings", "prefix": [a, b], "lengths": [4], "w": 0.1})
    only = os.environ.get("VERIF_C11_PARTS")
    if only:  # debugging aid (mutant triage): restrict to some components; the run is then marked as capped
        keep = set(only.split(","))
        T = [t for t in T if t["part"].split(".")[0] in keep]
        ctx.cap(f"VERIF_C11_PARTS={only}: only these components were enumerated")
    for t in T:
        t["seed"] = seed
    # heaviest first (stable): keeps the 16 workers busy to the end
    order = sorted(range(len(T)), key=lambda i: (-T[i]["w"], i))
    return [T[i] for i in order]


SAMPLE_CASES = (
    {"kind": "des_int", "part": "unit", "key": 1 << 63, "block": 1, "salt": 0, "rounds": 1},
    {"kind": "des_int", "part": "salt24", "key": 0xE0C2E6E6EEDEE4C8, "block": 0, "salt": 0xFFFFFF, "rounds": 25},
    {"kind": "md4_split", "data": bytes(range(70)), "cuts": [1, 64]},
    {"kind": "scrypt_validate", "n": 16, "r": 1, "p": 1},
    {"kind": "hmac", "digest": "sha256", "key": b"k" * 65, "msg": b"m" * 63, "mode": "multi"},
    {"kind": "saslprep", "text": "\u06271\u0628"},
)


def run(ctx):
    tasks = build_tasks(ctx)
    dg = digests()
    ctx.log(f"{len(tasks)} shards; estimated {sum(t['w'] for t in tasks):.0f} cpu-s; digests: {', '.join(d[0] for d in dg)}")
    from passlib.crypto.digest import lookup_hash

    import passlib.crypto._md4 as pm

    if lookup_hash("md4").const is not pm.md4:
        ctx.assume("hashlib offers md4 on this host: lookup_hash('md4') is not the builtin class (the builtin is still checked directly)")
    acc = core.pmap(work, tasks)
    # ---- S-box coverage must be complete (3 configurations x 16 rounds x 8 boxes x 64 entries)
    want = 512 * sum(1 for t in tasks if t["part"] == "des.sbox")
    got = acc.counters.get("des_sbox_round_box_value_triples_covered", 0)
    if got != want:
        raise HarnessError(f"DES S-box coverage {got}/{want}")
    # ---- per-part accounting
    comps = sorted({k.split(":")[1] for k in acc.counters if k.startswith("part:")})
    for comp in comps:
        ctx.parts[comp] = {
            "evaluations": acc.counters.pop(f"part:{comp}:evaluations", 0),
            "violations": acc.counters.pop(f"part:{comp}:violations", 0),
            "classes": sum(1 for c in acc.classes if c.split("|")[0] == comp or (comp == "pbkdf" and c.startswith("pbkdf"))),
        }
    for s in SAMPLE_CASES:
        if replay(dict(s)):
            ctx.log(f"note: sample case {core.short(s)} shows a violation")
        acc.sample(s)
    ctx.merge(acc)
    ctx.cov["des_sbox_entries_x_rounds_covered"] = got
    tabcov = {k.split(":", 1)[1]: len(v) for k, v in acc.hist.items() if k.startswith("des_impl_table_entries_read:")}
    if tabcov:
        # reachable entries (measured once with 20000 dense keys): PC1ROT 256, PC2ROTA 208, PC2ROTB 208, IE3264 128, CF6464 256
        ctx.cov["des_impl_permutation_table_entries_read"] = tabcov
        ctx.log(f"passlib DES permutation-table entries read: {tabcov}")
    ctx.cov["saslprep_code_points_checked"] = acc.counters.get("saslprep_code_points_checked", 0)
    ctx.cov["digests"] = [d[0] for d in dg]
    ctx.cov["explanation"] = (
        "distinct_nontrivial counts stored class strings; the 1,114,112 single code points of the SASLprep sweep are "
        "counted in saslprep_code_points_checked and represented by one class per 1024-code-point block"
    )
    if ctx.quick:
        ctx.assume("quick tier: MD4 lengths 0..300, 3-splits only at block/padding boundaries, bcrypt cost 4..5 with one "
                   "salt lane walk, scrypt N>=128 with one key length, SASLprep strings up to length 3")
    ctx.assume("bcrypt ident '2' is compared through its definition (password cycled to 72 bytes under $2a$); the wheel and libxcrypt do not implement $2$")
    ctx.assume("SASLprep: U+200B is in both C.1.2 and B.1 -- either mapping is accepted; NFKC is the interpreter's (RFC pins Unicode 3.2)")
