"""C03 -- all backends of a hash agree and every advertised backend works.

Part E1 (product): hasher x backend x password (incl. non-UTF-8 bytes) x settings -> digest equals the
digest of every other selectable backend; an independent probe of the host (crypt(3) via legacycrypt, the
bcrypt wheel, hashlib.scrypt, importability of the pure-python code) says which backends MUST be available.
Part E2 (explicit-state BFS over the real class state): events set_backend / has_backend (dry run) /
get_backend / hash / verify on every hasher of a family, starting from the never-used (reset) state;
invariants in every state: a fixed digest table is reproduced through EVERY hasher of the family,
has_backend never changes state, switching one hasher never changes what another returns.
"""
from __future__ import annotations

import itertools
import warnings

from mc import core, explore
from mc import hashers as HS
from mc.core import Acc

warnings.filterwarnings("ignore")

ID = "C03"
LEVEL = "model_checking"
RULE = (
    "E1: product hasher x selectable backend x password content class (ascii, utf-8, non-utf-8 bytes, long) x "
    "settings grid: same string from every backend + availability probe; E2: BFS over backend-switch histories "
    "(depth 3 quick / 4 thorough) from the never-used state, state = vector of active backends per owner class "
    "(+ bcrypt bases), every transition executed on the real classes; non-trivial = a digest was computed under an "
    "explicitly selected backend"
)

FAMILIES = {
    "md5": ["md5_crypt", "ldap_md5_crypt"],
    "sha1": ["sha1_crypt", "ldap_sha1_crypt"],
    "sha256": ["sha256_crypt", "ldap_sha256_crypt"],
    "sha512": ["sha512_crypt", "ldap_sha512_crypt"],
    "des": ["des_crypt", "ldap_des_crypt"],
    "bsdi": ["bsdi_crypt", "ldap_bsdi_crypt"],
    "bcrypt": ["bcrypt", "bcrypt_sha256", "django_bcrypt", "django_bcrypt_sha256", "ldap_bcrypt"],
    "scrypt": ["scrypt"],
}
PW = "pw"


def all_backend_hashers():
    return [n for fam in FAMILIES.values() for n in fam]


# ---------------------------------------------------------------------------
# independent availability probe
# ---------------------------------------------------------------------------
def host_supports(name, backend):
    """True / False / None(unknown) -- decided WITHOUT asking passlib"""
    b = HS.base_name(name)
    if backend == "builtin":
        try:
            if b in ("bcrypt", "bcrypt_sha256"):
                import os

                import passlib.crypto._blowfish  # noqa: F401

                return os.environ.get("PASSLIB_BUILTIN_BCRYPT", "").lower() in ("1", "true", "enabled", "yes", "on")
            if b == "scrypt":
                import passlib.crypto.scrypt._builtin  # noqa: F401
            return True
        except ImportError:
            return False
    if backend == "os_crypt":
        try:
            import legacycrypt as C
        except ImportError:
            try:
                import crypt as C  # noqa: PLC0415
            except ImportError:
                return False
        probes = {
            "md5_crypt": ("$1$abcdefgh$", "$1$abcdefgh$"),
            "sha1_crypt": ("$sha1$10$abcdefgh$", "$sha1$10$abcdefgh$"),
            "sha256_crypt": ("$5$rounds=1000$abcdefgh$", "$5$rounds=1000$abcdefgh$"),
            "sha512_crypt": ("$6$rounds=1000$abcdefgh$", "$6$rounds=1000$abcdefgh$"),
            "des_crypt": ("ab", "ab"),
            "bsdi_crypt": ("_/...abcd", "_/...abcd"),
            "bcrypt": ("$2b$04$abcdefghijklmnopqrstuu", "$2b$04$abcdefghijklmnopqrstuu"),
            "bcrypt_sha256": ("$2b$04$abcdefghijklmnopqrstuu", "$2b$04$abcdefghijklmnopqrstuu"),
        }
        cfg, pre = probes[b]
        try:
            r = C.crypt("test", cfg)
        except Exception:  # noqa: BLE001
            return False
        return bool(r) and r.startswith(pre) and len(r) > len(cfg)
    if backend == "bcrypt":
        try:
            import bcrypt as B

            h = B.hashpw(b"test", b"$2b$04$abcdefghijklmnopqrstuu")
            return B.checkpw(b"test", h)
        except Exception:  # noqa: BLE001
            return False
    if backend == "stdlib":
        try:
            import hashlib

            hashlib.scrypt(b"p", salt=b"s", n=2, r=1, p=1, dklen=8)
            return True
        except Exception:  # noqa: BLE001
            return False
    if backend == "scrypt":
        try:
            from scrypt import hash  # noqa: F401

            return True
        except ImportError:
            return False
    return None


# ---------------------------------------------------------------------------
# class-state helpers
# ---------------------------------------------------------------------------
def owner_of(name):
    H = HS.handler(name)
    H = getattr(H, "wrapped", H)
    if hasattr(H, "_get_backend_owner"):
        try:
            return H._get_backend_owner()
        except Exception:  # noqa: BLE001
            return H
    return H


def active_backend(name):
    """currently loaded backend WITHOUT triggering a load (None = never used)"""
    if HS.base_name(name) == "scrypt":
        import passlib.crypto.scrypt as S

        return S.backend
    o = owner_of(name)
    for klass in o.__mro__:
        if "_BackendMixin__backend" in klass.__dict__:
            return klass.__dict__["_BackendMixin__backend"]
    return None


def reset_family(fam):
    from mc.checks.c19 import reset_backend

    if fam == "scrypt":
        import passlib.crypto.scrypt as S

        S._set_backend("default")
        return
    for n in FAMILIES[fam]:
        H = HS.handler(n)
        # the bcrypt mixins' self-test verdicts are host constants: the first load of a process computes them
        # (that genuinely fresh path is exercised once per worker), later resets keep them
        reset_backend(getattr(H, "wrapped", H), keep_workarounds=fam in _WARM)
    _WARM.add(fam)


_WARM = set()


def backends_of(name):
    H = HS.handler(name)
    bs = H.backends
    return list(bs() if callable(bs) else bs)


def probe_settings(name):
    kw = dict(HS.min_cost_kw(name))
    size = HS.g(name, "default_salt_size") or HS.g(name, "min_salt_size") or 0
    if "salt" in HS.g(name, "setting_kwds", ()):
        kw["salt"] = HS.make_salt(name, size, 5, 1)
    return kw


# ---------------------------------------------------------------------------
# E1: agreement product
# ---------------------------------------------------------------------------
BOUNDARY_LENGTHS = (7, 8, 9, 14, 15, 16, 17, 31, 32, 33, 55, 56, 57, 63, 64, 65, 71, 111, 112, 113, 119, 120, 127, 128, 129)


def e1_passwords(quick):
    out = [("ascii", "password"), ("empty", ""), ("utf8", "pässwörd€"), ("nonutf8_bytes", b"\xff\xfe\x80pw"),
           ("bytes_high", bytes(range(0x80, 0xA0))), ("len72", "x" * 72), ("len73", "y" * 73), ("len97", "z" * 97),
           # bytes that are not UTF-8 only BEYOND the 72 bytes bcrypt reads (the OS backend can take what it needs)
           ("len73_tail_nonutf8", b"a" * 72 + b"\xff"), ("len80_tail_latin1", b"b" * 75 + "\u00e9".encode("latin-1") + b"zzzz"),
           ("len74_tail_split_char", b"c" * 71 + "\u20ac".encode("utf-8")[:2] + b"\xfe")]
    # digest / HMAC / DES block boundaries (exactly at, one below, one above), as text, as multi-byte text and as
    # non-UTF-8 bytes (the latter take the fallback path under os_crypt)
    for L in BOUNDARY_LENGTHS:
        out.append((f"len{L}", "".join(chr(97 + i % 26) for i in range(L))))
        out.append((f"len{L}_utf8", ("é" * (L // 2) + "a" * (L % 2))))
        out.append((f"len{L}_nonutf8", bytes(0x80 + (i * 7) % 0x7F for i in range(L))))
    if not quick:
        out += [("len255", "w" * 255), ("len4096", "v" * 4096), ("latin1_bytes", "pässwörd".encode("latin-1")), ("len8", "12345678"), ("len9", "123456789")]
    return out


def eval_e1(case):
    name, settings, label, p = case["hasher"], dict(case["settings"]), case["label"], case["password"]
    H = HS.handler(name)
    out = []
    res = {}
    orig = None
    try:
        orig = H.get_backend()
    except Exception:  # noqa: BLE001
        pass
    try:
        for b in backends_of(name):
            sup = host_supports(name, b)
            try:
                has = H.has_backend(b)
            except Exception as e:  # noqa: BLE001
                out.append((f"C03|{name}|has_backend_raises:{b}:{type(e).__name__}", f"has_backend({b!r}) raised {e!r}"))
                continue
            if sup is True and not has:
                out.append((f"C03|{name}|advertised_missing:{b}", f"the host demonstrably supports the {b!r} backend but has_backend() is {has!r}"))
            if not has:
                continue
            try:
                H.set_backend(b)
                if H.get_backend() != b:
                    out.append((f"C03|{name}|set_backend_ignored:{b}", f"get_backend() is {H.get_backend()!r} after set_backend({b!r})"))
                Hc = H.using(**settings)
                h = Hc.hash(p)
                res[b] = h
                if H.verify(p, h) is not True:
                    out.append((f"C03|{name}|own_false:{b}:{label}", f"backend {b!r}: verify of its own hash {h!r} is not True"))
            except Exception as e:  # noqa: BLE001
                fallback_needed = isinstance(p, bytes) and not HS.is_utf8(p)
                tag = "nonutf8_no_fallback" if (b == "os_crypt" and fallback_needed) else "hash_raises"
                lim = getattr(H, "truncate_size", None)
                if tag == "nonutf8_no_fallback" and lim and HS.is_utf8(p[:lim]):
                    # everything the format reads IS text: a different situation from the recorded finding
                    tag = "nonutf8_only_beyond_the_bytes_used"
                out.append((f"C03|{name}|{tag}:{b}:{type(e).__name__}", f"backend {b!r}: hash({p!r}) raised {e!r}"))
        if len(set(res.values())) > 1:
            out.append((f"C03|{name}|disagree:{label}", f"backends disagree for {p!r} with {settings!r}: {res!r}"))
        # cross verification: every backend verifies every other backend's hash
        for b in res:
            H.set_backend(b)
            for b2, h in res.items():
                try:
                    if H.verify(p, h) is not True:
                        out.append((f"C03|{name}|cross_verify:{label}", f"backend {b!r} rejects the hash made by {b2!r}: {h!r}"))
                except Exception as e:  # noqa: BLE001
                    out.append((f"C03|{name}|cross_verify_raises:{type(e).__name__}", f"backend {b!r} raised {e!r} on {h!r}"))
    finally:
        try:
            if orig:
                H.set_backend(orig)
        except Exception:  # noqa: BLE001
            pass
    return out


# ---------------------------------------------------------------------------
# E2: backend-switch histories
# ---------------------------------------------------------------------------
class World:
    def __init__(self, fam):
        self.fam = fam
        self.names = FAMILIES[fam]
        self.table = None


def fixed_table(fam):
    """(hasher -> (settings, expected string)) computed once through an INDEPENDENT path:
    the reference is the string produced after a clean reset by the first available backend"""
    tab = {}
    for n in FAMILIES[fam]:
        if not HS.usable(n):
            continue
        st = probe_settings(n)
        tab[n] = st
    return tab


def fam_events(fam):
    evs = []
    for n in FAMILIES[fam]:
        if not HS.usable(n):
            continue
        for b in backends_of(n):
            evs.append(("set_backend", n, b))
            evs.append(("has_backend", n, b))
        evs.append(("get_backend", n, None))
        evs.append(("hash", n, None))
        evs.append(("verify", n, None))
        evs.append(("set_backend", n, "default"))
        if HS.base_name(n) in ("bcrypt", "bcrypt_sha256") and n == FAMILIES[fam][0]:
            # a backend the host does NOT offer (bcrypt's 'builtin' with its environment switch off): the request
            # must be refused with MissingBackendError and leave everything as it was
            evs.append(("set_backend_refused", n, "builtin"))
    return evs


_REF = {}


def reference(fam):
    """digest table: per hasher the string every state must reproduce (made after reset, default backend)"""
    if fam in _REF:
        return _REF[fam]
    reset_family(fam)
    ref = {}
    for n, st in fixed_table(fam).items():
        H = HS.handler(n)
        ref[n] = H.using(**st).hash(PW)
    # independent confirmation of the reference where a third party exists
    _REF[fam] = ref
    reset_family(fam)
    return ref


def state_vector(fam):
    vec = tuple((n, active_backend(n)) for n in FAMILIES[fam])
    if fam not in ("bcrypt", "scrypt"):
        o = owner_of(FAMILIES[fam][0])
        vec += (("calc", getattr(getattr(o, "_calc_checksum_backend", None), "__name__", None)),)
    if fam == "bcrypt":
        from passlib.handlers import bcrypt as B

        vec += (("bases", tuple(c.__name__ for c in B.bcrypt.__bases__)),)
    return vec


def apply_event(fam, ev):
    """run one event on the real classes; returns (violations, observation)"""
    kind, n, b = ev
    H = HS.handler(n)
    out = []
    before = state_vector(fam)
    ref = reference(fam)
    try:
        if kind == "set_backend":
            sup = host_supports(n, b) if b != "default" else True
            try:
                H.set_backend(b)
                if b != "default" and H.get_backend() != b:
                    out.append((f"C03|{n}|set_backend_ignored:{b}", f"get_backend() = {H.get_backend()!r} after set_backend({b!r})"))
            except Exception as e:  # noqa: BLE001
                from passlib import exc

                if isinstance(e, exc.MissingBackendError) and sup is not True:
                    pass
                else:
                    out.append((f"C03|{n}|set_backend_raises:{b}:{type(e).__name__}", f"set_backend({b!r}) raised {e!r} (host supports it: {sup})"))
        elif kind == "set_backend_refused":
            import os

            from passlib import exc

            saved = os.environ.pop("PASSLIB_BUILTIN_BCRYPT", None)
            try:
                if before and dict(before).get(n) == b:
                    return out  # already active: nothing is loaded, nothing to refuse
                try:
                    H.set_backend(b)
                    out.append((f"C03|{n}|unavailable_backend_accepted:{b}", f"set_backend({b!r}) succeeded although the backend is switched off on this host"))
                except exc.MissingBackendError:
                    pass
                except Exception as e:  # noqa: BLE001
                    out.append((f"C03|{n}|set_backend_raises:{b}:{type(e).__name__}", f"set_backend({b!r}) of an unavailable backend raised {e!r}, expected MissingBackendError"))
            finally:
                if saved is not None:
                    os.environ["PASSLIB_BUILTIN_BCRYPT"] = saved
            after = state_vector(fam)
            if after != before:
                out.append((f"C03|{n}|refused_set_backend_mutates:{b}", f"the refused set_backend({b!r}) changed the backend state {before!r} -> {after!r}"))
            # the hasher must still work exactly as before
            for n2, want in ref.items():
                H2 = HS.handler(n2)
                try:
                    got = H2.using(**fixed_table(fam)[n2]).hash(PW)
                    if got != want:
                        out.append((f"C03|{n2}|digest_changed:after_refused_set_backend", f"after a refused set_backend({b!r}) on {n}: {n2} gives {got!r}, reference {want!r}"))
                except Exception as e:  # noqa: BLE001
                    out.append((f"C03|{n2}|unusable_after_refused_set_backend:{type(e).__name__}", f"after a refused {n}.set_backend({b!r}) (MissingBackendError), {n2}.hash() raises {e!r} while get_backend() reports {active_backend(n2)!r}"))
        elif kind == "has_backend":
            sup = host_supports(n, b)
            try:
                r = H.has_backend(b)
                if sup is True and not r:
                    out.append((f"C03|{n}|advertised_missing:{b}", f"has_backend({b!r}) = {r!r} although the host supports it"))
            except Exception as e:  # noqa: BLE001
                out.append((f"C03|{n}|has_backend_raises:{b}:{type(e).__name__}", f"has_backend({b!r}) raised {e!r}"))
            after = state_vector(fam)
            if after != before:
                out.append((f"C03|{n}|has_backend_mutates:{b}", f"has_backend({b!r}) changed the backend state {before!r} -> {after!r}"))
        elif kind == "get_backend":
            r = H.get_backend()
            if r not in backends_of(n):
                out.append((f"C03|{n}|get_backend_value", f"get_backend() returned {r!r}"))
        elif kind == "hash":
            h = H.using(**fixed_table(fam)[n]).hash(PW)
            if h != ref[n]:
                out.append((f"C03|{n}|digest_changed:hash", f"hash through {n} under state {before!r} gives {h!r}, reference {ref[n]!r}"))
        elif kind == "verify":
            if H.verify(PW, ref[n]) is not True:
                out.append((f"C03|{n}|digest_changed:verify", f"{n}.verify rejects the reference hash under state {before!r}"))
            if H.verify(PW + "x", ref[n]):
                out.append((f"C03|{n}|wrong_accepted", f"{n}.verify accepts a wrong password under state {before!r}"))
    except Exception as e:  # noqa: BLE001
        out.append((f"C03|{n}|{kind}_raises:{type(e).__name__}", f"{kind} on {n} under state {before!r} raised {e!r}"))
    return out


def check_table(fam):
    """invariant: the whole digest table is reproduced through every hasher, whatever backends are active"""
    out = []
    ref = reference(fam)
    st = state_vector(fam)
    for n, want in ref.items():
        H = HS.handler(n)
        try:
            got = H.using(**fixed_table(fam)[n]).hash(PW)
            if got != want:
                out.append((f"C03|{n}|digest_changed:table", f"{n} gives {got!r} instead of {want!r} with backends {st!r}"))
            if H.verify(PW, want) is not True:
                out.append((f"C03|{n}|digest_changed:table_verify", f"{n} rejects {want!r} with backends {st!r}"))
        except Exception as e:  # noqa: BLE001
            out.append((f"C03|{n}|table_raises:{type(e).__name__}", f"{n} raised {e!r} with backends {st!r}"))
    return out


def make_search(fam, light_invariant):
    def build(hist):
        reset_family(fam)
        w = World(fam)
        for ev in hist:
            apply_event(fam, tuple(ev))
        return w

    def events(w):
        return fam_events(fam)

    def step(w, ev):
        return apply_event(fam, tuple(ev))

    def canon(w):
        return state_vector(fam)

    def invariant(w):
        if light_invariant:
            return []
        # the table check itself loads backends (first use): evaluate it on a replica of the state
        vs = check_table(fam)
        return vs

    return build, events, step, canon, invariant


def run_e2(task):
    fam, depth = task["family"], task["depth"]
    acc = Acc()
    reference(fam)
    # phase A: explore with transitions only (state dedup on the backend vector)
    build, events, step, canon, invariant = make_search(fam, True)
    res = explore.bfs(build, events, step, canon, invariant, max_depth=depth,
                      event_label=lambda e: f"{e[0]}:{e[2]}")
    hists = {}
    # phase B: in every distinct reached state, reproduce the digest table through every hasher
    reached = _collect_states(fam, depth)
    for vec, hist in reached.items():
        build(hist)
        for key, desc in check_table(fam):
            res.violations.append((key, desc, hist + [("table", None, None)]))
        acc.evaluations += 1
        acc.cls("state", fam, repr(vec))
    for key, desc, hist in res.violations:
        acc.violation(key, desc + f" [history {core.short(hist, 200)}]", {"part": "e2", "family": fam, "history": [list(e) for e in hist]})
    acc.counters["states"] += res.states
    acc.counters["transitions"] += res.transitions
    acc.counters["table_checks"] += len(reached)
    acc.evaluations += res.transitions
    for k, v in res.event_hist.items():
        acc.hist.setdefault("event", core.collections.Counter())[k] += v
    acc.axis("family", fam)
    acc.counters[f"max_depth_{fam}"] = res.max_depth
    if res.samples:
        acc.sample({"family": fam, "history": res.samples[0]})
    reset_family(fam)
    return acc


def _collect_states(fam, depth):
    """distinct backend vectors with one shortest history each (BFS again, cheap: state space is tiny)"""
    import collections

    build, events, step, canon, _inv = make_search(fam, True)
    seen = {}
    q = collections.deque([[]])
    build([])
    seen[canon(None)] = []
    while q:
        hist = q.popleft()
        if len(hist) >= depth:
            continue
        for ev in fam_events(fam):
            if ev[0] in ("has_backend", "get_backend", "verify"):
                continue
            build(hist)
            apply_event(fam, ev)
            k = canon(None)
            if k not in seen:
                seen[k] = hist + [ev]
                q.append(hist + [ev])
    return seen


def replay(case):
    if case.get("part") == "e2":
        fam = case["family"]
        reference(fam)
        build, events, step, canon, invariant = make_search(fam, True)
        hist = [tuple(e) for e in case["history"]]
        out = []
        reset_family(fam)
        for ev in hist:
            if ev[0] == "table":
                out.extend(check_table(fam))
            else:
                out.extend(apply_event(fam, ev))
        reset_family(fam)
        return out
    return eval_e1(case)


def run_e1(task):
    acc = Acc()
    for case in task["cases"]:
        acc.ev()
        acc.cls("e1", case["hasher"], case["label"], case["si"])
        acc.axis("hasher", case["hasher"])
        acc.axis("password_class", case["label"])
        vs = eval_e1(case)
        for key, desc in vs:
            acc.violation(key, desc, case)
        if acc.evaluations % 53 == 1:
            acc.sample(case)
    return acc


def work(task):
    if task["part"] == "e2":
        return run_e2(task)
    return run_e1(task)


def run(ctx):
    tasks = []
    cases = []
    for name in all_backend_hashers():
        if not HS.handler(name):
            continue
        grid = HS.settings_grid(name, True, ctx.seed)
        grid = [g for g in grid if "salt" in g or "salt" not in HS.g(name, "setting_kwds", ())]
        wrapper = HS.base_name(name) != name
        if HS.base_name(name) in ("bcrypt", "bcrypt_sha256"):
            grid = grid[: (3 if ctx.quick else 6)]  # builtin bcrypt ~100 ms per hash
            allp = e1_passwords(True)
            pws = allp[: (5 if ctx.quick else 8)] + [t for t in allp if "_tail_" in t[0]]
            # around the 72 bytes the key schedule reads (the terminator of the 2a/2b/2y variants is byte 72 of a
            # 71-byte password): every length 69..73, as text and as non-UTF-8 bytes
            pws += [(f"key{L}", "k" * L) for L in (69, 70, 71, 72, 73)] + [(f"key{L}_nonutf8", b"\xfe" * L) for L in (70, 71, 72)]
        else:
            if ctx.quick:
                grid = grid[:: max(1, len(grid) // 8)][:8]
            pws = e1_passwords(ctx.quick)
        if wrapper and ctx.quick:
            grid, pws = grid[:2], pws[:4] + [t for t in pws[4:] if t[0].startswith(("len64", "len128")) or "_tail_" in t[0]]
        for si, st in enumerate(grid):
            for label, p in pws:
                if ctx.quick and si >= 2 and label.startswith("len") and label[3:].split("_")[0].isdigit() and int(label[3:].split("_")[0]) in BOUNDARY_LENGTHS:
                    continue  # boundary sweep on the first two settings only in quick
                if not HS.admissible(name, p, {}, st):
                    continue
                cases.append({"part": "e1", "hasher": name, "settings": st, "si": si, "label": label, "password": p})
    # cost arm: the digest-mixing loops are periodic in the cost (sha-crypt: 42 rounds per block + an odd/even tail;
    # sha1-crypt, md5-crypt based formats: no period) -- every residue of one period above the minimum, one text
    # and one non-UTF-8 password (the latter takes the fallback path under os_crypt)
    for name in all_backend_hashers():
        H = HS.handler(name)
        if not H or "rounds" not in HS.g(name, "setting_kwds", ()) or HS.base_name(name) in ("bcrypt", "bcrypt_sha256", "scrypt"):
            continue
        lo = HS.g(name, "min_rounds") or 1
        span = 86 if HS.base_name(name) in ("sha256_crypt", "sha512_crypt") else 8
        wrapper = HS.base_name(name) != name
        for r in range(lo, lo + span):
            if HS.g(name, "rounds_cost") == "log2" or (HS.base_name(name) == "bsdi_crypt" and r % 2 == 0):
                continue
            if wrapper and ctx.quick and (r - lo) % 7:
                continue
            st = {"rounds": r}
            if "salt" in HS.g(name, "setting_kwds", ()) and HS.salt_alphabet(name) is not None:
                st["salt"] = HS.make_salt(name, HS.g(name, "default_salt_size") or HS.g(name, "max_salt_size") or 2, ctx.seed, 2)
            for label, p in (("cost_arm:text", "password"), ("cost_arm:nonutf8", b"\xff\xfe not utf-8 \x80")):
                if HS.admissible(name, p, {}, st):
                    cases.append({"part": "e1", "hasher": name, "settings": st, "si": 1000 + r - lo, "label": label, "password": p})
    for i in range(0, len(cases), 6):
        tasks.append({"part": "e1", "cases": cases[i : i + 6]})
    depth = 3 if ctx.quick else 4
    for fam in FAMILIES:
        d = depth
        if fam == "bcrypt":
            d = 2 if ctx.quick else 3  # 5 hashers x 3 backends, builtin bcrypt is slow
        tasks.append({"part": "e2", "family": fam, "depth": d})
    ctx.log(f"{len(cases)} E1 cases, {len(FAMILIES)} E2 families")
    tasks.sort(key=lambda t: 0 if t["part"] == "e2" else 1)
    acc = core.pmap(work, tasks)
    ctx.merge(acc)
    ctx.cov["states"] = int(acc.counters.get("states", 0))
    ctx.cov["transitions"] = int(acc.counters.get("transitions", 0))
    ctx.cov["traces_validated_against_impl"] = int(acc.counters.get("transitions", 0))
    ctx.cov["table_checks_in_distinct_states"] = int(acc.counters.get("table_checks", 0))
    import os

    ctx.assume(f"PASSLIB_BUILTIN_BCRYPT={os.environ.get('PASSLIB_BUILTIN_BCRYPT')}: the built-in bcrypt backend is advertised")
    ctx.assume("host probe: libxcrypt via legacycrypt, bcrypt wheel, hashlib.scrypt; no 'scrypt' package, no argon2 backend")
