"""C05 -- size limits: no silent truncation when forbidden, no oversized passwords, NUL refused.

E1 product.  Parts: trunc (truncating hashers x backend x truncate_error mode x multi-byte alignments around
the limit x text/bytes), maxsize (every hasher + CryptContext x 4095/4096/4097), sensitivity (non-truncating
hashers depend on first/middle/last byte up to 4096), nul (NUL at every position for crypt()-compatible formats).
"""
from __future__ import annotations

import warnings

from mc import core
from mc import hashers as HS
from mc.core import Acc

warnings.filterwarnings("ignore")

ID = "C05"
LEVEL = "exploration"
RULE = (
    "product part x hasher x backend x truncate_error mode x password; passwords around a truncation limit are "
    "built from 1/2/3/4-byte characters in every alignment (byte length limit-1..limit+4), as text and bytes; "
    "non-trivial = the hasher was really driven (hash or verify executed or refused); distinct class = "
    "part|hasher|backend|mode|password-shape"
)

TRUNCATING = ("des_crypt", "crypt16", "bcrypt", "django_bcrypt", "ldap_des_crypt", "ldap_bcrypt", "django_des_crypt",
              "lmhash", "cisco_pix", "cisco_asa")
CHARS = {1: "a", 2: "é", 3: "€", 4: "\U0001f600"}


def backends_of(name):
    H = HS.handler(name)
    bs = getattr(H, "backends", None)
    if not bs:
        return [None]
    return [b for b in bs if H.has_backend(b)]


class use_backend:
    def __init__(self, name, backend):
        self.H = HS.handler(name)
        self.b = backend

    def __enter__(self):
        if self.b is not None:
            self.orig = self.H.get_backend()
            self.H.set_backend(self.b)
        return self.H

    def __exit__(self, *a):
        if self.b is not None:
            self.H.set_backend(self.orig)


def cheap(name):
    kw = HS.min_cost_kw(name)
    return kw


def trunc_passwords(limit):
    """[(shape, text)] with utf-8 byte length limit-1 .. limit+4, every alignment of w-byte chars"""
    out = []
    for w, ch in CHARS.items():
        for T in range(limit - 1, limit + 5):
            for i in range(0, w if w > 1 else 1):
                if (T - i) % w or T - i < 0:
                    continue
                j = (T - i) // w
                out.append((f"w{w}:T{T - limit:+d}:a{i}", "a" * i + ch * j))
                if w > 1 and j and i:
                    out.append((f"w{w}:T{T - limit:+d}:tail{i}", ch * j + "b" * i))
    return out


def _exc_name(e):
    return type(e).__name__


def eval_trunc(case):
    """one truncating hasher, one backend, one mode, one password"""
    from passlib import exc
    from passlib.context import CryptContext

    name, backend, mode, p = case["hasher"], case.get("backend"), case["mode"], case["password"]
    form = case.get("form", "text")
    enc = case.get("encoding")
    out = []
    H0 = HS.handler(name)
    limit = H0.truncate_size
    ctxkw = {"encoding": enc} if enc else {}
    if name == "lmhash":
        e = enc or "cp437"
        try:
            pb = p.upper().encode(e)
        except UnicodeError:
            return []
    else:
        pb = p.encode("utf-8")
    secret = p if form == "text" else (p.encode(enc or "cp437") if name == "lmhash" else pb)
    if name == "lmhash" and form == "bytes":
        pb = secret.upper()
    T = len(pb)
    always_on = name in ("cisco_pix", "cisco_asa")
    width = "ascii" if p.isascii() else "multibyte"
    key = f"C05|{name}|trunc_{mode}:{width}:{form}" + (f":{enc}" if enc else "")
    extra = case.get("extra") or {}
    if extra:
        key += ":" + ",".join(f"{k}={v}" for k, v in sorted(extra.items()))
    with use_backend(name, backend) as H:
        kw = dict(cheap(name), **extra)
        try:
            if mode == "on_using":
                Hc = H.using(truncate_error=True, **kw)
                do_hash = lambda s: Hc.hash(s, **ctxkw)  # noqa: E731
                do_verify = lambda s, h: Hc.verify(s, h, **ctxkw)  # noqa: E731
            elif mode == "on_context":
                opts = {f"{name}__{k}": v for k, v in kw.items()}
                cc = CryptContext(schemes=[name], truncate_error=True, **opts)
                do_hash = lambda s: cc.hash(s, **ctxkw)  # noqa: E731
                do_verify = lambda s, h: cc.verify(s, h, **ctxkw)  # noqa: E731
            elif mode in ("off_chain", "on_chain", "off_chain_string", "off_chain3", "off_object_in_context"):
                # the policy switched back and forth along a chain of using() calls: the LAST one decides
                if mode == "off_chain":
                    Hc = H.using(truncate_error=True, **kw).using(truncate_error=False)
                elif mode == "off_chain_string":
                    Hc = H.using(truncate_error="true", **kw).using(truncate_error="false")
                elif mode == "off_chain3":
                    Hc = H.using(truncate_error=False, **kw).using(truncate_error=True).using(truncate_error=False)
                elif mode == "on_chain":
                    Hc = H.using(truncate_error=False, **kw).using(truncate_error=True)
                else:
                    # a strict hasher object listed in a context whose policy for the scheme says 'off'
                    cc = CryptContext(schemes=[H.using(truncate_error=True, **kw)], **{f"{name}__truncate_error": False})
                    Hc = None
                if Hc is not None:
                    do_hash = lambda s: Hc.hash(s, **ctxkw)  # noqa: E731
                    do_verify = lambda s, h: Hc.verify(s, h, **ctxkw)  # noqa: E731
                else:
                    do_hash = lambda s: cc.hash(s, **ctxkw)  # noqa: E731
                    do_verify = lambda s, h: cc.verify(s, h, **ctxkw)  # noqa: E731
            elif mode in ("on_object_update", "on_object_copy"):
                # the policy sits on the hasher OBJECT handed to the context; reconfiguring the context for something
                # unrelated must not swap the object for the stock hasher of the same name
                cc = CryptContext(schemes=[H.using(truncate_error=True, **kw)])
                if mode.endswith("_update"):
                    cc.update(deprecated=[])
                else:
                    cc = cc.copy(deprecated=[])
                do_hash = lambda s: cc.hash(s, **ctxkw)  # noqa: E731
                do_verify = lambda s, h: cc.verify(s, h, **ctxkw)  # noqa: E731
            elif mode in ("on_context_update", "off_context_update", "on_context_copy", "off_context_load"):
                # the context-wide policy switched at run time: the LAST setting decides
                opts = {f"{name}__{k}": v for k, v in kw.items()}
                want_on = mode.startswith("on_")
                cc = CryptContext(schemes=[name], truncate_error=not want_on, **opts)
                if mode.endswith("_update"):
                    cc.update(truncate_error=want_on)
                elif mode.endswith("_copy"):
                    cc = cc.copy(truncate_error=want_on)
                else:
                    cc.load({"truncate_error": "true" if want_on else "false"}, update=True)
                do_hash = lambda s: cc.hash(s, **ctxkw)  # noqa: E731
                do_verify = lambda s, h: cc.verify(s, h, **ctxkw)  # noqa: E731
            elif mode in ("on_category_all", "off_category_all", "on_category_all_ini", "on_category_scheme", "off_category_scheme"):
                # the policy given for ONE user category only (context-wide '<cat>__all__truncate_error' or per scheme
                # '<cat>__<scheme>__truncate_error'), against the opposite policy for everybody else; the category is used
                import warnings as _w

                opts = {f"{name}__{k}": v for k, v in kw.items()}
                want_on = mode.startswith("on_")
                ck = f"staff__all__truncate_error" if "_all" in mode else f"staff__{name}__truncate_error"
                with _w.catch_warnings():
                    _w.simplefilter("ignore")
                    if mode.endswith("_ini"):
                        lines = "".join(f"{k} = {v}\n" for k, v in opts.items())
                        cc = CryptContext.from_string(f"[passlib]\nschemes = {name}\n{lines}truncate_error = {str(not want_on).lower()}\n{ck} = {str(want_on).lower()}\n")
                    else:
                        cc = CryptContext(schemes=[name], truncate_error=not want_on, **{ck: want_on}, **opts)
                do_hash = lambda s: cc.hash(s, category="staff", **ctxkw)  # noqa: E731
                do_verify = lambda s, h: cc.verify(s, h, category="staff", **ctxkw)  # noqa: E731
            else:
                Hc = H.using(**kw) if kw else H
                do_hash = lambda s: Hc.hash(s, **ctxkw)  # noqa: E731
                do_verify = lambda s, h: Hc.verify(s, h, **ctxkw)  # noqa: E731
        except Exception as e:  # noqa: BLE001
            return [(key + ":setup_raises:" + _exc_name(e), f"configuring {name} mode {mode} raised {e!r}")]
        on = always_on or not mode.startswith("off")
        try:
            h = do_hash(secret)
            raised = None
        except exc.PasswordSizeError as e:
            h, raised = None, e
        except Exception as e:  # noqa: BLE001
            return [(key + ":hash_raises:" + _exc_name(e), f"hash({secret!r}) raised {e!r} (byte length {T}, limit {limit})")]
        if raised is not None:
            if not on:
                return [(key + ":refused_when_off", f"hash({secret!r}) raised {raised!r} although truncate_error is off")]
            if T <= limit:
                return [(key + ":refused_within_limit", f"hash({secret!r}) raised {raised!r} although its {T} bytes fit the limit {limit}")]
            # refused: fine.  verify of an over-long password must not succeed against anything it could be cut to
            return out
        if on and T > limit:
            # succeeded: allowed only if the whole password was used -> its truncation must not verify
            cut = pb[:limit]
            try:
                ok = do_verify(cut if name != "lmhash" else cut, h)
            except (ValueError, TypeError):
                ok = False
            if ok:
                out.append((key + ":silently_truncated",
                            f"truncate_error is on, hash({secret!r}) ({T} bytes > limit {limit}) succeeded and the first {limit} bytes {cut!r} verify against it"))
            return out
        # ---- hash made; first `limit` bytes decide, identically in hash and verify
        if always_on and T > limit:
            return out
        try:
            if do_verify(secret, h) is not True:
                out.append((key + ":own_false", f"verify({secret!r}) of its own hash is not True"))
            if T >= limit:
                probes = [("prefix", pb[:limit], True), ("prefix+junk", pb[:limit] + b"ZZ", True)]
                if always_on:
                    probes = [("prefix", pb[:limit], True)] if T == limit else []
            else:
                probes = []
            for pos in sorted({0, max(0, min(T, limit) - 2), max(0, min(T, limit) - 1)}):
                if pos < min(T, limit):
                    q = pb[:pos] + bytes([pb[pos] ^ 0x01]) + pb[pos + 1 :]
                    if b"\x00" not in q and not HS.equiv(name, pb, q, ctxkw, extra):
                        probes.append((f"flip@{'first' if pos == 0 else 'near_limit'}", q, False))
            if T > limit and not always_on:
                q = pb[:limit] + bytes([pb[limit] ^ 0x01]) + pb[limit + 1 :]
                probes.append(("flip_beyond", q, True))
            for label, q, want in probes:
                if backend == "os_crypt" and not HS.is_utf8(q):
                    continue  # crypt() takes text only; handled by C03's fallback clause
                if name == "lmhash":
                    # bytes are taken as already encoded; compare on the encoded level
                    pass
                try:
                    got = do_verify(q, h)
                except (ValueError, TypeError) as e:
                    if want:
                        out.append((key + f":{label}:raises:{_exc_name(e)}", f"verify({q!r}, {h!r}) raised {e!r}"))
                    continue
                if bool(got) != want:
                    out.append((key + f":{label}:{'rejected' if want else 'accepted'}",
                                f"verify({q!r}, {h!r}) = {got!r}, expected {want} (hash of {secret!r}, {T} bytes, limit {limit})"))
        except Exception as e:  # noqa: BLE001
            out.append((key + ":verify_raises:" + _exc_name(e), f"verify raised {e!r}"))
    return out


def eval_maxsize(case):
    from passlib import exc
    from passlib.context import CryptContext

    name, n, via = case["hasher"], case["n"], case["via"]
    out = []
    H = HS.handler(name)
    kw = cheap(name)
    ctxs = HS.ctx_grid(name)[0]
    p = ("pw" * (n // 2 + 1))[:n]
    key = f"C05|{name}|maxsize:{via}:{n}"
    shape = case.get("shape")
    if shape:
        # over the maximum under EVERY reading of 'size' (more than 4096 bytes, and not 4096 or fewer characters):
        # undecodable bytes have no character count but their own; the multi-byte ones exceed it in characters too
        p = {"bytes_ff": b"\xff" * n, "bytes_80_tail": b"a" * 4000 + b"\x80" * (n - 4000), "bytes_utf8_chars": "é".encode() * n,
             "text_multibyte": "é" * n, "bytes_ascii": b"a" * n, "bytes_truncated_utf8": b"\xe2\x82" * n}[shape]
        key = f"C05|any_hasher|maxsize:{via}:{shape}"  # one key per shape and entry point: the size check is shared by all hashers
    try:
        if via == "hasher":
            Hc = H.using(**kw) if kw else H
            hf = lambda s: Hc.hash(s, **ctxs)  # noqa: E731
            vf = lambda s, h: Hc.verify(s, h, **ctxs)  # noqa: E731
        else:
            opts = {f"{name}__{k}": v for k, v in kw.items()}
            cc = CryptContext(schemes=[name], **opts)
            hf = lambda s: cc.hash(s, **ctxs)  # noqa: E731
            if via == "context_vau":
                vf = lambda s, h: cc.verify_and_update(s, h, **ctxs)[0]  # noqa: E731
            else:
                vf = lambda s, h: cc.verify(s, h, **ctxs)  # noqa: E731
        small = hf("pw")
    except Exception as e:  # noqa: BLE001
        return [(key + ":setup_raises:" + _exc_name(e), f"raised {e!r}")]
    admissible = HS.admissible(name, p, ctxs) and n <= 4096
    capped = name in ("cisco_pix", "cisco_asa")
    ops = [("hash", lambda: hf(p)), ("verify", lambda: vf(p, small))]
    if via != "hasher":
        # the account does not exist (hash None): the same refusal as for an account that does -- an oversized
        # password must not tell the two apart
        ops.append(("verify_none", lambda: vf(p, None)))
    for op, f in ops:
        try:
            r = f()
            err = None
        except exc.PasswordSizeError as e:
            r, err = None, e
        except Exception as e:  # noqa: BLE001
            out.append((key + f":{op}_raises:{_exc_name(e)}", f"{op} with a {n}-char password raised {e!r}"))
            continue
        if n > 4096:
            if err is None:
                out.append((key + f":{op}_accepted", f"{name}: {op} accepted a {n}-unit password {core.short(p, 24)} (library maximum is 4096): {core.short(r, 60)}"))
        else:
            if err is not None and not capped:
                out.append((key + f":{op}_refused", f"{op} refused a {n}-character password with {err!r}"))
            if err is None and op == "hash" and via == "hasher" and name not in HS.DISABLED:
                try:
                    if vf(p, r) is not True:
                        out.append((key + ":roundtrip", f"hash of a {n}-char password does not verify"))
                except Exception as e:  # noqa: BLE001
                    out.append((key + f":roundtrip_raises:{_exc_name(e)}", f"raised {e!r}"))
    return out


def eval_sensitivity(case):
    """non-truncating hasher: flipping first / middle / last byte changes the verdict"""
    name, n = case["hasher"], case["n"]
    backend = case.get("backend")
    if backend is not None:
        # the same demand under a selectable backend other than the default one (the built-in code of the crypt family)
        with use_backend(name, backend):
            return [(k.replace("|sensitivity:", f"|sensitivity:{backend}:"), d) for k, d in eval_sensitivity(dict(case, backend=None))]
    H = HS.handler(name)
    kw = cheap(name)
    ctxs = HS.ctx_grid(name)[0]
    seed = case.get("seed", 0)
    p = "".join(chr(97 + (seed + i * 7) % 26) for i in range(n))
    if not HS.admissible(name, p, ctxs):
        return []
    out = []
    key = f"C05|{name}|sensitivity:{n}"
    try:
        Hc = H.using(**kw) if kw else H
        h = Hc.hash(p, **ctxs)
        if Hc.verify(p, h, **ctxs) is not True:
            out.append((key + ":own_false", "hash does not verify its password"))
        for label, pos in (("first", 0), ("middle", n // 2), ("last", n - 1)):
            q = p[:pos] + ("X" if p[pos] != "X" else "Y") + p[pos + 1 :]
            if HS.equiv(name, p, q, ctxs, {}):
                continue
            if Hc.verify(q, h, **ctxs):
                out.append((key + f":{label}_ignored", f"{name}: changing the {label} character of a {n}-character password still verifies"))
        # ... and on the LENGTH: no proper extension and no proper prefix of the password verifies (a hasher without a
        # limit must not stop reading at a block boundary of its algorithm)
        for label, q in (("extended_by_1", p + "x"), ("extended_by_block", p + p[:8] + "q"), ("doubled", p + p), ("shortened_by_1", p[:-1])):
            if q == p or len(q) > 4096 or HS.equiv(name, p, q, ctxs, {}) or not HS.admissible(name, q, ctxs):
                continue
            for form in ("text", "bytes"):
                qq = q if form == "text" else q.encode("utf-8")
                if form == "bytes" and name in HS.TEXT_ONLY:
                    continue
                if Hc.verify(qq, h, **ctxs):
                    out.append((key + f":{label}_accepted", f"{name}: the {n}-character password {label.replace('_', ' ')} ({form}) still verifies against its hash {h!r}"))
                    break
    except Exception as e:  # noqa: BLE001
        out.append((key + f":raises:{_exc_name(e)}", f"raised {e!r}"))
    return out


def nul_hashers():
    out = []
    for name in HS.usable_names():
        H = HS.handler(name)
        bs = getattr(H, "backends", None) or ()
        if "os_crypt" in bs and HS.base_name(name) not in ("bcrypt_sha256",) and name not in ("bcrypt_sha256", "django_bcrypt_sha256"):
            out.append(name)
    return out


def eval_nul(case):
    from passlib import exc

    name, backend, n, pos = case["hasher"], case.get("backend"), case["n"], case["pos"]
    form = case.get("form", "text")
    p = "".join(chr(97 + (i * 5) % 26) for i in range(n))
    p = p[:pos] + "\x00" + p[pos:]
    secret = p if form == "text" else p.encode()
    out = []
    key = f"C05|{name}|{backend}|nul:{form}"
    extra = case.get("extra") or {}
    if extra:
        key += ":" + ",".join(f"{k}={v}" for k, v in sorted(extra.items()))
    with use_backend(name, backend) as H:
        kw = dict(cheap(name), **extra)
        Hc = H.using(**kw) if kw else H
        ref = Hc.hash(p[:pos] or "x")
        for op, f in (("hash", lambda: Hc.hash(secret)), ("verify", lambda: Hc.verify(secret, ref))):
            try:
                r = f()
            except ValueError:
                continue  # refused (PasswordValueError / NullPasswordError are ValueErrors)
            except Exception as e:  # noqa: BLE001
                out.append((key + f":{op}_raises:{_exc_name(e)}", f"{op}({secret!r}) raised {e!r}, expected a ValueError"))
                continue
            if op == "hash":
                detail = ""
                try:
                    if pos and Hc.verify(p[:pos], r):
                        detail = " -- and the prefix before the NUL verifies against it"
                except Exception:  # noqa: BLE001
                    pass
                out.append((key + ":hash_accepted", f"hash({secret!r}) returned {r!r} instead of refusing the NUL{detail}"))
            else:
                out.append((key + ":verify_answered", f"verify({secret!r}, hash of the prefix) returned {r!r} instead of refusing the NUL"))
    return out


EVALS = {"trunc": eval_trunc, "maxsize": eval_maxsize, "sensitivity": eval_sensitivity, "nul": eval_nul}


def replay(case):
    return EVALS[case["part"]](case)


def work(task):
    acc = Acc()
    for case in task["cases"]:
        acc.ev()
        part = case["part"]
        acc.cls(part, case["hasher"], case.get("backend"), case.get("mode"), case.get("shape") or case.get("n"),
                case.get("form"), case.get("encoding"), case.get("pos"), case.get("via"), sorted((case.get("extra") or {}).items()))
        if case.get("extra"):
            acc.axis("ident", case["extra"].get("ident"))
        acc.axis("part", part)
        acc.axis("hasher", case["hasher"])
        if case.get("backend"):
            acc.axis("backend", case["backend"])
        if case.get("mode"):
            acc.axis("mode", case["mode"])
        vs = EVALS[part](case)
        acc.outcome((part, "viol" if vs else "ok"))
        for key, desc in vs:
            acc.violation(key, desc, case)
        if acc.evaluations % 97 == 1:
            acc.sample(case)
    return acc


def run(ctx):
    cases = []
    # ---- part trunc
    for name in TRUNCATING:
        if not HS.usable(name):
            continue
        H = HS.handler(name)
        limit = H.truncate_size
        modes = ["off", "on_using", "on_context"] if "truncate_error" in H.setting_kwds else ["off"]
        for backend in backends_of(name):
            if backend == "builtin" and HS.base_name(name) == "bcrypt" and ctx.quick:
                pws = [t for t in trunc_passwords(limit) if t[0].split(":")[1] in ("T+0", "T+1", "T+2")][::3]
            else:
                pws = trunc_passwords(limit)
            for mode in modes:
                for shape, p in pws:
                    encs = [None]
                    if name == "lmhash":
                        encs = [None, "latin-1", "utf-8"]
                    for enc in encs:
                        for form in ("text", "bytes"):
                            if name == "lmhash" and form == "bytes" and enc == "utf-8":
                                continue
                            cases.append({"part": "trunc", "hasher": name, "backend": backend, "mode": mode,
                                          "shape": shape, "password": p, "form": form, "encoding": enc})
        # every other value of the 'ident' option (bcrypt: '2', '2a', '2y', '2b' -- '$2$' is emulated by cycling
        # the password to 72 bytes on backends without native support), boundary passwords only
        idents = HS.ident_values(name)
        if idents:
            short = [t for t in trunc_passwords(limit) if t[0].split(":")[1] in ("T-1", "T+0", "T+1", "T+2")]
            for backend in backends_of(name):
                if backend == "builtin" and ctx.quick:
                    continue
                for ident in idents:
                    for mode in modes:
                        for shape, p in (short[::2] if ctx.quick else short):
                            for form in ("text", "bytes"):
                                cases.append({"part": "trunc", "hasher": name, "backend": backend, "mode": mode, "shape": shape,
                                              "password": p, "form": form, "encoding": None, "extra": {"ident": ident}})
        # the context-wide policy switched at run time (update / copy / load(update=True)), boundary passwords only
        if "truncate_error" in H.setting_kwds:
            short = [t for t in trunc_passwords(limit) if t[0].split(":")[1] in ("T+0", "T+1", "T+2")]
            for backend in backends_of(name):
                if backend == "builtin" and HS.base_name(name) == "bcrypt":
                    continue
                for mode in ("on_context_update", "off_context_update", "on_context_copy", "off_context_load", "on_object_update", "on_object_copy",
                             "off_chain", "on_chain", "off_chain_string", "off_chain3", "off_object_in_context",
                             "on_category_all", "off_category_all", "on_category_all_ini", "on_category_scheme", "off_category_scheme"):
                    for shape, p in (short[::3] if ctx.quick else short):
                        cases.append({"part": "trunc", "hasher": name, "backend": backend, "mode": mode, "shape": shape,
                                      "password": p, "form": "text", "encoding": None})
        if name == "lmhash":
            # expansion under upper-casing: 'ß' -> 'SS'
            for k in range(12, 16):
                for mode in modes:
                    cases.append({"part": "trunc", "hasher": name, "backend": None, "mode": mode,
                                  "shape": f"sharp_s:{k}", "password": "a" * (k - 1) + "ß", "form": "text", "encoding": None})
    # ---- part maxsize
    sizes = (4095, 4096, 4097)
    for name in HS.usable_names():
        for n in sizes:
            slow = name in ("bigcrypt", "sun_md5_crypt", "atlassian_pbkdf2_sha1")
            vias = ("hasher", "context", "context_vau")
            if slow and ctx.quick:
                vias = ("hasher",) if n != 4097 else vias
            for via in vias:
                cases.append({"part": "maxsize", "hasher": name, "n": n, "via": via})
        # contents other than ASCII text above the maximum (n counts the units of the shape)
        for shape, ns in (("bytes_ff", (4097, 100000)), ("bytes_80_tail", (4097,)), ("bytes_utf8_chars", (4097,)), ("text_multibyte", (4097,)),
                          ("bytes_ascii", (4097,)), ("bytes_truncated_utf8", (4097,))):
            for n in ns:
                for via in ("hasher", "context", "context_vau"):
                    cases.append({"part": "maxsize", "hasher": name, "n": n, "via": via, "shape": shape})
    # ---- part sensitivity
    lens = (1, 2, 8, 9, 16, 17, 24, 64, 73, 128, 255, 1000, 4096) if ctx.quick else (1, 2, 8, 9, 16, 17, 33, 56, 64, 72, 73, 128, 129, 255, 256, 1000, 4095, 4096)
    for name in HS.usable_names():
        H = HS.handler(name)
        if getattr(H, "truncate_size", None) or name in HS.DISABLED:
            continue
        for n in lens:
            if name in ("bigcrypt", "bsdi_crypt", "ldap_bsdi_crypt", "sun_md5_crypt") and n > 300 and ctx.quick:
                continue
            cases.append({"part": "sensitivity", "hasher": name, "n": n, "seed": ctx.seed})
            if getattr(H, "backends", None) and HS.base_name(name) not in ("bcrypt", "bcrypt_sha256", "scrypt") and n <= 300:
                for b in backends_of(name)[1:]:
                    cases.append({"part": "sensitivity", "hasher": name, "n": n, "seed": ctx.seed, "backend": b})
    # ---- part nul
    for name in nul_hashers():
        for backend in backends_of(name):
            if backend == "builtin" and HS.base_name(name) == "bcrypt":
                ns = (0, 3)
            else:
                ns = (0, 1, 3, 8, 16) if ctx.quick else tuple(range(0, 17)) + (40, 72, 100)
            for n in ns:
                poss = range(n + 1) if n <= 16 else (0, n // 2, n)
                for pos in poss:
                    for form in ("text", "bytes"):
                        cases.append({"part": "nul", "hasher": name, "backend": backend, "n": n, "pos": pos, "form": form})
    ctx.log(f"{len(cases)} cases")
    # interleave for load balance; keep deterministic order inside shards
    shards = [cases[i::256] for i in range(256)]
    acc = core.pmap(work, [{"cases": s} for s in shards if s])
    ctx.merge(acc)
    ctx.assume("truncation positions probed: first byte, last two bytes inside the limit, first byte beyond it")
