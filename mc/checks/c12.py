"""C12 -- binary-to-text encodings are exact inverses and match their alphabets.

Bounded-exhaustive product (engine E1): every 1-/2-byte group (thorough: every
3-byte group), strings of every length 0..200, all 6/12-bit (thorough 24-bit)
integers, bit lanes of the 30/64-bit codecs, every final character x tail for
padding repair, every foreign byte at every position, transposed codecs over
the offset tables the hashes use, b64s/ab64/b32 helpers vs. stdlib.
Oracle: mc.refs.b64 (integer arithmetic) and stdlib base64 under alphabet
translation.
"""
from __future__ import annotations

import base64
import hashlib
import itertools

from mc import core
from mc.core import Acc
from mc.refs import b64 as R

ID = "C12"
LEVEL = "exploration"
RULE = (
    "full cartesian product engine x part x input; parts: all byte groups of size 1,2 (thorough 3), "
    "strings of every length 0..200 (2 contents), all 6/12(/24)-bit ints, bit lanes for 30/64-bit ints, "
    "every last char x tail 2,3, every foreign byte x position, transposition tables, helper functions; "
    "a case is non-trivial when the encoder/decoder under test was really called on it; distinct class = "
    "engine|part|input-size|tail (|value for the exhaustive small groups)"
)


def engines():
    from passlib.utils import binary as B

    out = {
        "h64": (B.h64, R.H64, False, True),
        "h64big": (B.h64big, R.H64, True, True),
        "bcrypt64": (B.bcrypt64, R.BCRYPT, True, True),
        "std_big": (B.Base64Engine(R.STD, big=True), R.STD, True, True),
        "ab64_little": (B.Base64Engine(R.AB64, big=False), R.AB64, False, True),
    }
    from libpass._utils import binary as LB

    out["libpass_h64"] = (LB.h64_engine, R.H64, False, False)
    # the libpass port of the engine class is used little-endian only by the library itself, but both bit orders
    # are part of the class
    _s = lambda a: a if isinstance(a, str) else a.decode("latin-1")  # noqa: E731
    out["libpass_h64big"] = (LB.Base64Engine(_s(R.H64), big=True), R.H64, True, False)
    out["libpass_bcrypt64"] = (LB.Base64Engine(_s(R.BCRYPT), big=True), R.BCRYPT, True, False)
    out["libpass_std_little"] = (LB.Base64Engine(_s(R.STD), big=False), R.STD, False, False)
    return out


def filler(seed, n, salt=b""):
    out = b""
    i = 0
    while len(out) < n:
        out += hashlib.sha256(b"%d:%d:" % (seed, i) + salt).digest()
        i += 1
    return out[:n]


# ---------------------------------------------------------------------------
# single-case evaluators (also used by replay)
# ---------------------------------------------------------------------------
def eval_bytes(ename, data):
    eng, alpha, big, can_decode = engines()[ename]
    out = []
    tail = len(data) % 3
    cls = f"tail{tail}"
    want = R.encode_bytes(data, alpha, big)
    try:
        got = eng.encode_bytes(data)
    except Exception as e:  # noqa: BLE001
        return [(f"C12|{ename}|encode_bytes:{cls}:raises:{type(e).__name__}", f"encode_bytes({data!r}) raised {e!r}")]
    if not isinstance(got, bytes) or any(chr(c) not in alpha for c in got):
        out.append((f"C12|{ename}|encode_bytes:{cls}:alphabet", f"encode_bytes({data!r}) = {got!r} not over alphabet"))
    if got != want:
        out.append((f"C12|{ename}|encode_bytes:{cls}:value", f"encode_bytes({data!r}) = {got!r}, reference {want!r}"))
    if big:
        tr = bytes.maketrans(R.STD.encode(), alpha.encode())
        std = base64.b64encode(data).rstrip(b"=").translate(tr)
        if got != std:
            out.append((f"C12|{ename}|encode_bytes:{cls}:stdlib", f"encode_bytes({data!r}) = {got!r}, stdlib {std!r}"))
    if can_decode:
        try:
            back = eng.decode_bytes(want)
        except Exception as e:  # noqa: BLE001
            out.append((f"C12|{ename}|decode_bytes:{cls}:raises:{type(e).__name__}", f"decode_bytes({want!r}) raised {e!r}"))
        else:
            if back != data:
                out.append((f"C12|{ename}|decode_bytes:{cls}:inverse", f"decode_bytes({want!r}) = {back!r}, expected {data!r}"))
    return out


def eval_lastchar_foreign(ename, prefix, ch):
    """the padding-bit repair must not 'repair' a final character that is not in the alphabet: value error, both forms"""
    eng, alpha, big, _ = engines()[ename]
    out = []
    for form, text in (("bytes", prefix + bytes([ch])), ("str", (prefix + bytes([ch])).decode("latin-1"))):
        tail = len(text) % 4
        for fn in ("check_repair_unused", "repair_unused"):
            try:
                got = getattr(eng, fn)(text)
            except ValueError:
                continue
            except Exception as e:  # noqa: BLE001
                out.append((f"C12|{ename}|repair_unused:foreign_last:tail{tail}:{form}:raises:{type(e).__name__}", f"{fn}({text!r}) raised {e!r}; a final character outside the alphabet must be refused with ValueError"))
                break
            else:
                out.append((f"C12|{ename}|repair_unused:foreign_last:tail{tail}:{form}:accepted", f"{fn}({text!r}) returned {got!r}; the final character is not in the alphabet"))
                break
    return out


def eval_lastchar(ename, prefix, last):
    """decode tolerates exactly the unused bits of the final character"""
    eng, alpha, big, _ = engines()[ename]
    text = prefix + alpha[last].encode()
    tail = len(text) % 4
    out = []
    clean = R.clean_last(text, alpha, big)
    want = R.decode_bytes(text, alpha, big)
    try:
        got = eng.decode_bytes(text)
    except Exception as e:  # noqa: BLE001
        return [(f"C12|{ename}|decode_bytes:lastchar{tail}:raises:{type(e).__name__}", f"decode_bytes({text!r}) raised {e!r}")]
    if got != want:
        out.append((f"C12|{ename}|decode_bytes:lastchar{tail}:value", f"decode_bytes({text!r}) = {got!r}, reference {want!r}"))
    try:
        rep = eng.check_repair_unused(text)
        rep_s = eng.check_repair_unused(text.decode("ascii"))
        ru = eng.repair_unused(text)
    except Exception as e:  # noqa: BLE001
        return out + [(f"C12|{ename}|repair_unused:tail{tail}:raises:{type(e).__name__}", f"check_repair_unused({text!r}) raised {e!r}")]
    if rep != (clean != text, clean) or ru != clean:
        out.append((f"C12|{ename}|repair_unused:tail{tail}:bytes", f"check_repair_unused({text!r}) = {rep!r}, expected {(clean != text, clean)!r}"))
    if rep_s != (clean != text, clean.decode()):
        out.append((f"C12|{ename}|repair_unused:tail{tail}:str", f"check_repair_unused({text.decode()!r}) = {rep_s!r}"))
    # re-encoding the decoded bytes gives the clean form (decode ignores *only* unused bits)
    if eng.encode_bytes(got) != clean:
        out.append((f"C12|{ename}|decode_bytes:lastchar{tail}:canon", f"encode(decode({text!r})) = {eng.encode_bytes(got)!r}, expected {clean!r}"))
    return out


def eval_bad_text(ename, text):
    """wrong length / foreign characters must raise ValueError"""
    eng, alpha, big, _ = engines()[ename]
    try:
        R.decode_bytes(text, alpha, big)
        return []  # reference accepts: not a 'bad' text
    except ValueError as e:
        why = str(e)
    try:
        got = eng.decode_bytes(text)
    except ValueError:
        return []
    except Exception as e:  # noqa: BLE001
        return [(f"C12|{ename}|decode_bytes:bad_{why}:raises:{type(e).__name__}", f"decode_bytes({text!r}) raised {e!r}, expected ValueError")]
    return [(f"C12|{ename}|decode_bytes:bad_{why}:accepted", f"decode_bytes({text!r}) returned {got!r}, expected ValueError")]


INT_BITS = (6, 12, 24, 30, 64)


def eval_int(ename, bits, value):
    eng, alpha, big, can = engines()[ename]
    if not can:
        return []
    out = []
    encf = getattr(eng, f"encode_int{bits}")
    decf = getattr(eng, f"decode_int{bits}")
    if 0 <= value < (1 << bits):
        want = R.encode_int(value, bits, alpha, big)
        try:
            got = encf(value)
        except Exception as e:  # noqa: BLE001
            return [(f"C12|{ename}|encode_int{bits}:raises:{type(e).__name__}", f"encode_int{bits}({value}) raised {e!r}")]
        if got != want:
            out.append((f"C12|{ename}|encode_int{bits}:value", f"encode_int{bits}({value}) = {got!r}, reference {want!r}"))
        try:
            back = decf(want)
        except Exception as e:  # noqa: BLE001
            out.append((f"C12|{ename}|decode_int{bits}:raises:{type(e).__name__}", f"decode_int{bits}({want!r}) raised {e!r}"))
        else:
            if back != value:
                out.append((f"C12|{ename}|decode_int{bits}:inverse", f"decode_int{bits}({want!r}) = {back!r}, expected {value}"))
    else:
        try:
            got = encf(value)
        except ValueError:
            pass
        except Exception as e:  # noqa: BLE001
            out.append((f"C12|{ename}|encode_int{bits}:range:raises:{type(e).__name__}", f"encode_int{bits}({value}) raised {e!r}, expected ValueError"))
        else:
            out.append((f"C12|{ename}|encode_int{bits}:range:accepted", f"encode_int{bits}({value}) returned {got!r}, expected ValueError"))
    return out


def eval_int_text(ename, bits, text):
    """decode_intN on wrong-length / foreign-character text -> ValueError; else equals reference"""
    eng, alpha, big, can = engines()[ename]
    if not can:
        return []
    k = (bits + 5) // 6
    ok = len(text) == k and all(chr(c) in alpha for c in text)
    decf = getattr(eng, f"decode_int{bits}")
    try:
        got = decf(text)
    except ValueError:
        if ok:
            return [(f"C12|{ename}|decode_int{bits}:text:rejected", f"decode_int{bits}({text!r}) raised ValueError on valid text")]
        return []
    except Exception as e:  # noqa: BLE001
        return [(f"C12|{ename}|decode_int{bits}:text:raises:{type(e).__name__}", f"decode_int{bits}({text!r}) raised {e!r}")]
    if not ok:
        return [(f"C12|{ename}|decode_int{bits}:text:accepted", f"decode_int{bits}({text!r}) returned {got!r}, expected ValueError")]
    # valid text: value = digits; padding bits (if any) ignored
    vals = [alpha.index(chr(c)) for c in text]
    if big:
        v = 0
        for x in vals:
            v = (v << 6) | x
        v >>= 6 * k - bits
    else:
        v = sum(x << (6 * i) for i, x in enumerate(vals)) & ((1 << bits) - 1)
    if got != v:
        return [(f"C12|{ename}|decode_int{bits}:text:value", f"decode_int{bits}({text!r}) = {got}, reference {v}")]
    return []


def offset_tables():
    tabs = {}
    from passlib.handlers import md5_crypt, sha2_crypt

    tabs["md5_crypt"] = tuple(md5_crypt.md5_crypt._transpose_map if hasattr(md5_crypt.md5_crypt, "_transpose_map") else md5_crypt._transpose_map)
    tabs["sha256_crypt"] = tuple(sha2_crypt._256_transpose_map)
    tabs["sha512_crypt"] = tuple(sha2_crypt._512_transpose_map)
    try:
        from libpass.hashers import sha_crypt as LS

        for name in dir(LS):
            v = getattr(LS, name)
            if "transpose" in name.lower() and isinstance(v, (tuple, list)) and v and isinstance(v[0], int):
                tabs[f"libpass.{name}"] = tuple(v)
    except Exception:  # noqa: BLE001
        pass
    tabs["empty"] = ()
    for n in (1, 2, 3, 4, 5, 7, 16, 20):
        tabs[f"rev{n}"] = tuple(reversed(range(n)))
        tabs[f"rot{n}"] = tuple((i * 3 + 1) % n for i in range(n)) if n % 3 else tuple(range(n))
    return tabs


def eval_transposed(ename, tname, data):
    eng, alpha, big, can = engines()[ename]
    offs = offset_tables()[tname]
    out = []
    want = R.encode_bytes(bytes(data[o] for o in offs), alpha, big)
    try:
        got = eng.encode_transposed_bytes(data, offs)
    except Exception as e:  # noqa: BLE001
        return [(f"C12|{ename}|encode_transposed:{tname}:raises:{type(e).__name__}", f"raised {e!r}")]
    if got != want:
        out.append((f"C12|{ename}|encode_transposed:{tname}:value", f"encode_transposed_bytes({data!r}) = {got!r}, reference {want!r}"))
    if can and sorted(offs) == list(range(len(offs))) and len(data) == len(offs):
        try:
            back = eng.decode_transposed_bytes(want, offs)
        except Exception as e:  # noqa: BLE001
            out.append((f"C12|{ename}|decode_transposed:{tname}:raises:{type(e).__name__}", f"raised {e!r}"))
        else:
            if back != data:
                out.append((f"C12|{ename}|decode_transposed:{tname}:inverse", f"decode_transposed_bytes({want!r}) = {back!r}, expected {data!r}"))
        # wrong-length input (the text of one byte more / one byte fewer than the table describes): a value error,
        # never a silently shortened result or an internal error
        for lbl, other in (("longer", data + b"\x00"), ("shorter", data[:-1])):
            if not other:
                continue
            src = R.encode_bytes(other, alpha, big)
            try:
                r = eng.decode_transposed_bytes(src, offs)
            except ValueError:
                continue
            except Exception as e:  # noqa: BLE001
                out.append((f"C12|{ename}|decode_transposed:wrong_length:{lbl}:raises:{type(e).__name__}", f"decode_transposed_bytes({src!r}, table {tname}) raised {e!r}, expected ValueError"))
            else:
                out.append((f"C12|{ename}|decode_transposed:wrong_length:{lbl}:accepted", f"decode_transposed_bytes({src!r}, table {tname} of {len(offs)} offsets) returned {r!r} for the text of {len(other)} bytes"))
    return out


def eval_transposed_history(ename, order):
    """the offset table is an ARGUMENT: the same list object edited in place between calls, throw-away list objects (a later
    one may live at the address of an earlier one) and the table types the hashes use (tuple / list) all select by the
    table's CURRENT contents.  One history = every table in the given order through one scratch list, each preceded by a
    throw-away copy; compared call by call with the reference"""
    eng, alpha, big, can = engines()[ename]
    tabs = offset_tables()
    names = sorted(tabs) if order == "sorted" else sorted(tabs, reverse=True) if order == "reversed" else sorted(tabs, key=lambda k: (len(tabs[k]), k))
    scratch = []
    out = []
    for step, tname in enumerate(names):
        offs = tabs[tname]
        n = (max(offs) + 1) if offs else 3
        data = bytes((7 * i + 3 + step) & 0xFF for i in range(n))
        want = R.encode_bytes(bytes(data[o] for o in offs), alpha, big)
        for how in ("throwaway", "scratch", "scratch_reversed"):
            try:
                if how == "throwaway":
                    got, w = eng.encode_transposed_bytes(data, list(offs)), want
                elif how == "scratch":
                    scratch[:] = offs
                    got, w = eng.encode_transposed_bytes(data, scratch), want
                else:
                    scratch.reverse()
                    got, w = eng.encode_transposed_bytes(data, scratch), R.encode_bytes(bytes(data[o] for o in reversed(offs)), alpha, big)
            except Exception as e:  # noqa: BLE001
                out.append((f"C12|{ename}|encode_transposed:history:{how}:raises:{type(e).__name__}", f"step {step} (table {tname}, {how}) raised {e!r}"))
                return out
            if got != w:
                out.append((f"C12|{ename}|encode_transposed:history:{how}", f"step {step} of the history '{order}': encode_transposed_bytes({data!r}, {tname} as {how} list) = {got!r}, reference {w!r}"))
                return out
    return out


HELPERS = ("b64s", "ab64", "b32", "libpass_b64s", "libpass_ab64")


def _helper(name):
    from passlib.utils import binary as B

    if name == "b64s":
        return B.b64s_encode, B.b64s_decode, R.STD
    if name == "ab64":
        return B.ab64_encode, B.ab64_decode, R.AB64
    if name == "b32":
        return B.b32encode, B.b32decode, "ABCDEFGHIJKLMNOPQRSTUVWXYZ234567"
    from libpass._utils import deprecated as D

    if name == "libpass_b64s":
        return D.b64s_encode, D.b64s_decode, R.STD
    return D.ab64_encode, D.ab64_decode, R.AB64


def eval_helper(name, data):
    encf, decf, alpha = _helper(name)
    out = []
    try:
        got = encf(data)
    except Exception as e:  # noqa: BLE001
        return [(f"C12|{name}|encode:raises:{type(e).__name__}", f"encode({data!r}) raised {e!r}")]
    if name == "b32":
        want = base64.b32encode(data).rstrip(b"=").decode("ascii")
        typo_u = want.replace("B", "8").replace("O", "0")
        typo_l = want.lower().replace("b", "8").replace("o", "0")
        forms = [want, want.lower(), want.encode(), want.lower().encode(), base64.b32encode(data).decode(),
                 base64.b32encode(data), typo_u, typo_l, typo_u.encode(), typo_l.encode()]
    else:
        want = base64.b64encode(data).rstrip(b"=")
        if "ab64" in name:
            want = want.replace(b"+", b".")
        forms = [want, want.decode("ascii")]
        if "ab64" in name:
            forms.append(want.replace(b".", b"+"))
        # dirty padding bits in the last char are tolerated
        k = len(want)
        unused = 6 * k - 8 * len(data)
        if unused:
            i = alpha.index(chr(want[-1]))
            for d in range(1, 1 << unused):
                forms.append(want[:-1] + alpha[i | d].encode())
    if got != want:
        out.append((f"C12|{name}|encode:value", f"encode({data!r}) = {got!r}, stdlib {want!r}"))
    for c in (got.encode() if isinstance(got, str) else got):
        if chr(c) not in alpha:
            out.append((f"C12|{name}|encode:alphabet", f"encode({data!r}) = {got!r} not over alphabet"))
            break
    for f in forms:
        try:
            back = decf(f)
        except Exception as e:  # noqa: BLE001
            out.append((f"C12|{name}|decode:raises:{type(e).__name__}", f"decode({f!r}) raised {e!r}"))
            continue
        if back != data:
            out.append((f"C12|{name}|decode:inverse", f"decode({f!r}) = {back!r}, expected {data!r}"))
    return out


def eval_helper_bad(name, text):
    """text the reference rejects: length 1 mod 4 (b64) / non-alphabet chars -> must raise ValueError
    (TypeError is also accepted for foreign characters in the b64 helpers: the pinned suite requires it)"""
    encf, decf, alpha = _helper(name)
    raw = text if isinstance(text, bytes) else text.encode("latin-1", "replace")
    if name == "b32":
        allowed = alpha + alpha.lower() + "80="
        foreign = any(chr(c) not in allowed for c in raw)
        badlen = False
    else:
        allowed = alpha + ("+" if "ab64" in name else "")
        foreign = any(chr(c) not in allowed for c in raw) or (isinstance(text, str) and any(ord(c) > 127 for c in text))
        badlen = len(raw) % 4 == 1
    if not (foreign or badlen):
        return []
    why = "length" if badlen and not foreign else "foreign"
    ok = (ValueError,) if why == "length" else (ValueError, TypeError)
    try:
        got = decf(text)
    except ok:
        return []
    except Exception as e:  # noqa: BLE001
        return [(f"C12|{name}|decode:bad_{why}:raises:{type(e).__name__}", f"decode({text!r}) raised {e!r}, expected ValueError")]
    return [(f"C12|{name}|decode:bad_{why}:accepted", f"decode({text!r}) returned {got!r}, expected an error")]


EVALS = {
    "bytes": lambda c: eval_bytes(c["engine"], c["data"]),
    "lastchar": lambda c: eval_lastchar(c["engine"], c["prefix"], c["last"]),
    "lastchar_foreign": lambda c: eval_lastchar_foreign(c["engine"], c["prefix"], c["ch"]),
    "bad_text": lambda c: eval_bad_text(c["engine"], c["text"]),
    "int": lambda c: eval_int(c["engine"], c["bits"], c["value"]),
    "int_text": lambda c: eval_int_text(c["engine"], c["bits"], c["text"]),
    "transposed": lambda c: eval_transposed(c["engine"], c["table"], c["data"]),
    "transposed_history": lambda c: eval_transposed_history(c["engine"], c["order"]),
    "helper": lambda c: eval_helper(c["helper"], c["data"]),
    "helper_bad": lambda c: eval_helper_bad(c["helper"], c["text"]),
}


def replay(case):
    if case.get("mode") == "O" and __debug__:
        return core.call_in_child("mc.checks.c12", "replay", case, optimized=True)
    found = EVALS[case["kind"]](case)
    if not __debug__:
        found = [(k + ":python-O", d) for k, d in found]
    return found


# ---------------------------------------------------------------------------
# shard workers
# ---------------------------------------------------------------------------
def _do(acc, case, cls):
    acc.ev()
    if not __debug__:
        case = dict(case, mode="O")
        cls = cls + ("python-O",)
    acc.cls(*cls)
    for key, desc in replay(case):
        acc.violation(key, desc, case)


def work(task):
    acc = Acc()
    part = task["part"]
    ename = task.get("engine")
    seed = task["seed"]
    if part == "groups":
        eng, alpha, big, can = engines()[ename]
        n = task["n"]
        enc_ref = R.encode_bytes
        for v in range(task["lo"], task["hi"]):
            data = v.to_bytes(n, "big")
            acc.evaluations += 1
            want = enc_ref(data, alpha, big)
            bad = False
            try:
                if eng.encode_bytes(data) != want or (can and eng.decode_bytes(want) != data):
                    bad = True
            except Exception:  # noqa: BLE001
                bad = True
            if bad or (v & 0xFFF) == 0:
                for key, desc in eval_bytes(ename, data):
                    acc.violation(key, desc, {"kind": "bytes", "engine": ename, "data": data})
        acc.counters[f"groups{n}"] += task["hi"] - task["lo"]
        # class: engine|size|value is distinct for every v; count without storing 16M strings
        acc.counters["distinct_group_cases"] += task["hi"] - task["lo"]
        acc.cls(ename, "groups", n, task["lo"])
        acc.axis("engine", ename)
        acc.axis("group_size", n)
        if task["lo"] == 0:
            acc.sample({"kind": "bytes", "engine": ename, "data": (1).to_bytes(n, "big")})
    elif part == "strings":
        for L in range(task["lo"], task["hi"]):
            for ci, data in enumerate((filler(seed, L, b"s"), bytes((seed + 7 * i + L) & 0xFF for i in range(L)), b"\xff" * L)):
                _do(acc, {"kind": "bytes", "engine": ename, "data": data}, (ename, "string", L, ci))
            acc.axis("string_len_mod3", L % 3)
    elif part == "lastchar":
        eng, alpha, big, can = engines()[ename]
        for tail in (2, 3):
            for plen in (0, 4, 8):
                pre = R.encode_bytes(filler(seed, 3 * plen // 4 + 3, b"p"), alpha, big)[: plen + tail - 1]
                for last in range(64):
                    _do(acc, {"kind": "lastchar", "engine": ename, "prefix": pre, "last": last}, (ename, "lastchar", tail, plen, last))
                    acc.axis("tail", tail)
                if can:
                    amap = set(alpha if isinstance(alpha, bytes) else alpha.encode("latin-1"))
                    for ch in range(256):
                        if ch not in amap:
                            _do(acc, {"kind": "lastchar_foreign", "engine": ename, "prefix": pre, "ch": ch}, (ename, "lastchar_foreign", tail, plen, ch))
    elif part == "bad_text":
        eng, alpha, big, can = engines()[ename]
        good = R.encode_bytes(filler(seed, 6, b"g"), alpha, big)  # 8 chars
        # every foreign byte at every position of 2-,3-,4-,8-char texts; len%4==1 texts
        for L in (2, 3, 4, 8):
            base = good[:L]
            for pos in range(L):
                for b in range(256):
                    if chr(b) in alpha:
                        continue
                    t = base[:pos] + bytes([b]) + base[pos + 1 :]
                    _do(acc, {"kind": "bad_text", "engine": ename, "text": t}, (ename, "foreign", L, pos, b))
        for L in (1, 5, 9, 13, 201):
            t = (good * 30)[:L]
            _do(acc, {"kind": "bad_text", "engine": ename, "text": t}, (ename, "len1mod4", L))
    elif part == "ints":
        bits = task["bits"]
        vals = task["values"]
        for v in vals:
            _do(acc, {"kind": "int", "engine": ename, "bits": bits, "value": v}, (ename, "int", bits, v))
        acc.axis("int_bits", bits)
    elif part == "ints_range":
        bits = task["bits"]
        eng, alpha, big, can = engines()[ename]
        encf = getattr(eng, f"encode_int{bits}")
        decf = getattr(eng, f"decode_int{bits}")
        for v in range(task["lo"], task["hi"]):
            acc.evaluations += 1
            want = R.encode_int(v, bits, alpha, big)
            bad = False
            try:
                bad = encf(v) != want or decf(want) != v
            except Exception:  # noqa: BLE001
                bad = True
            if bad:
                for key, desc in eval_int(ename, bits, v):
                    acc.violation(key, desc, {"kind": "int", "engine": ename, "bits": bits, "value": v})
        acc.counters["distinct_group_cases"] += task["hi"] - task["lo"]
        acc.cls(ename, "ints_range", bits, task["lo"])
        acc.axis("int_bits", bits)
    elif part == "int_text":
        eng, alpha, big, can = engines()[ename]
        for bits in INT_BITS:
            k = (bits + 5) // 6
            good = R.encode_int((1 << bits) - 1 - (seed % 5), bits, alpha, big)
            # wrong lengths
            for L in range(0, k + 3):
                t = (good * 3)[:L] if L else b""
                _do(acc, {"kind": "int_text", "engine": ename, "bits": bits, "text": t}, (ename, "int_text_len", bits, L))
            # foreign byte at every position
            for pos in range(k):
                for b in range(256):
                    if chr(b) in alpha:
                        continue
                    t = good[:pos] + bytes([b]) + good[pos + 1 :]
                    _do(acc, {"kind": "int_text", "engine": ename, "bits": bits, "text": t}, (ename, "int_text_foreign", bits, pos, b))
            # every character at every position (covers padding bits of 64-bit / 30-bit forms)
            for pos in range(k):
                for i in range(64):
                    t = good[:pos] + alpha[i].encode() + good[pos + 1 :]
                    _do(acc, {"kind": "int_text", "engine": ename, "bits": bits, "text": t}, (ename, "int_text_char", bits, pos, i))
    elif part == "transposed":
        tabs = offset_tables()
        for tname, offs in tabs.items():
            n = (max(offs) + 1) if offs else 3  # the empty table selects nothing from any source
            for ci, data in enumerate((bytes(range(1, n + 1)), filler(seed, n, b"t"), bytes(255 - i for i in range(n)))):
                _do(acc, {"kind": "transposed", "engine": ename, "table": tname, "data": data}, (ename, "transposed", tname, ci))
            acc.axis("table", tname)
        for order in ("sorted", "reversed", "by_length"):
            _do(acc, {"kind": "transposed_history", "engine": ename, "order": order}, (ename, "transposed_history", order))
    elif part == "helper":
        h = task["helper"]
        if task.get("n"):
            n = task["n"]
            for v in range(task["lo"], task["hi"]):
                data = v.to_bytes(n, "big")
                _do(acc, {"kind": "helper", "helper": h, "data": data}, (h, "group", n, v))
        else:
            for L in range(0, 201):
                for ci, data in enumerate((filler(seed, L, b"h"), bytes((seed + 11 * i + L) & 0xFF for i in range(L)))):
                    _do(acc, {"kind": "helper", "helper": h, "data": data}, (h, "string", L, ci))
        acc.axis("helper", h)
    elif part == "helper_bad":
        h = task["helper"]
        encf, decf, alpha = _helper(h)
        good = encf(filler(seed, 10 if h == "b32" else 6, b"hb"))
        good = good if isinstance(good, bytes) else good.encode()
        lens = (2, 3, 4, 8) if h != "b32" else (2, 4, 8, 16)
        for L in lens:
            base = good[:L]
            for pos in range(L):
                for b in range(256):
                    t = base[:pos] + bytes([b]) + base[pos + 1 :]
                    _do(acc, {"kind": "helper_bad", "helper": h, "text": t}, (h, "foreign", L, pos, b))
                    if b < 128:
                        _do(acc, {"kind": "helper_bad", "helper": h, "text": t.decode("ascii")}, (h, "foreign_str", L, pos, b))
            # insertion of a foreign byte (junk must not be silently skipped)
            for pos in range(L + 1):
                for b in (0x20, 0x21, 0x0A, 0x2D, 0x5F, 0x3D, 0x80, 0xFF, 0x00):
                    for rep in (1, 4):
                        t = base[:pos] + bytes([b]) * rep + base[pos:]
                        _do(acc, {"kind": "helper_bad", "helper": h, "text": t}, (h, "insert", L, pos, b, rep))
        if h != "b32":
            for L in (1, 5, 9, 13, 201):
                t = (good * 40)[:L]
                _do(acc, {"kind": "helper_bad", "helper": h, "text": t}, (h, "len1mod4", L))
                _do(acc, {"kind": "helper_bad", "helper": h, "text": t.decode()}, (h, "len1mod4s", L))
        _do(acc, {"kind": "helper_bad", "helper": h, "text": "ab\xff"}, (h, "nonascii_str"))
        # non-ASCII TEXT: characters whose upper() / lower() / casefold() is ASCII alphabet text (long s, dotless i, Kelvin
        # sign, the ff-ligatures), full-width letters and digits, accented letters -- at every position of valid text, and
        # the ligatures standing for their two / three letters so that the case-mapped length is a valid one
        looks = ("\u017f", "\u0131", "\u212a", "\u0130", "\uff21", "\uff41", "\uff12", "\u00e9", "\u0391", "\u00df")
        for t0 in ("SIKSIKSI", "siksiksi", "AAAA", "2222"):
            for pos in range(len(t0)):
                for c in looks:
                    _do(acc, {"kind": "helper_bad", "helper": h, "text": t0[:pos] + c + t0[pos + 1:]}, (h, "lookalike", t0, pos, ord(c)))
        for lig, n in (("\ufb00", 2), ("\ufb01", 2), ("\ufb02", 2), ("\ufb03", 3), ("\ufb04", 3), ("\ufb05", 2), ("\ufb06", 2)):
            for total in (4, 8):
                for pos in range(total - n + 1):
                    _do(acc, {"kind": "helper_bad", "helper": h, "text": "A" * pos + lig + "A" * (total - n - pos)}, (h, "ligature", ord(lig), total, pos))
    else:
        raise core.HarnessError(f"unknown part {part}")
    if acc.evaluations and not acc.samples:
        pass
    return acc


def lane_values(bits):
    vals = {0, (1 << bits) - 1, -1, 1 << bits, (1 << bits) + 1}
    for i in range(bits):
        vals.add(1 << i)
        vals.add(((1 << bits) - 1) ^ (1 << i))
    for i in range(0, bits, 6):
        for d in range(64):
            v = d << i
            if v < (1 << bits):
                vals.add(v)
    for i, j in itertools.combinations(range(bits), 2):
        vals.add((1 << i) | (1 << j))
    return sorted(vals)


def run(ctx):
    seed = ctx.seed
    tasks = []
    names = list(engines())
    gsizes = (1, 2) if ctx.quick else (1, 2, 3)
    for e in names:
        for n in gsizes:
            total = 256**n
            step = max(256, total // 64) if n < 3 else total // 256
            for lo in range(0, total, step):
                tasks.append({"part": "groups", "engine": e, "n": n, "lo": lo, "hi": min(total, lo + step), "seed": seed})
        if ctx.quick:
            # structured 3-byte groups: every byte from a 32-value pattern set
            pass
        for lo in range(0, 201, 25):
            tasks.append({"part": "strings", "engine": e, "lo": lo, "hi": min(201, lo + 25), "seed": seed})
        tasks.append({"part": "transposed", "engine": e, "seed": seed})
        if engines()[e][3]:
            tasks.append({"part": "lastchar", "engine": e, "seed": seed})
            tasks.append({"part": "bad_text", "engine": e, "seed": seed})
            tasks.append({"part": "int_text", "engine": e, "seed": seed})
            for bits in INT_BITS:
                if bits <= 12:
                    vals = list(range(-2, (1 << bits) + 3))
                    tasks.append({"part": "ints", "engine": e, "bits": bits, "values": vals, "seed": seed})
                elif bits == 24 and not ctx.quick:
                    step = (1 << 24) // 64
                    for lo in range(0, 1 << 24, step):
                        tasks.append({"part": "ints_range", "engine": e, "bits": 24, "lo": lo, "hi": lo + step, "seed": seed})
                    tasks.append({"part": "ints", "engine": e, "bits": 24, "values": [-1, 1 << 24, (1 << 24) + 1], "seed": seed})
                else:
                    tasks.append({"part": "ints", "engine": e, "bits": bits, "values": lane_values(bits), "seed": seed})
    for h in HELPERS:
        for n in gsizes if not ctx.quick else (1, 2):
            if n == 3:
                continue
            total = 256**n
            step = max(256, total // 16)
            for lo in range(0, total, step):
                tasks.append({"part": "helper", "helper": h, "n": n, "lo": lo, "hi": min(total, lo + step), "seed": seed})
        tasks.append({"part": "helper", "helper": h, "seed": seed})
        tasks.append({"part": "helper_bad", "helper": h, "seed": seed})
    if ctx.quick:
        # quick 3-byte coverage: all groups whose bytes come from a 40-value bit-pattern set (64000 per engine)
        pat = sorted({0, 255, 0x55, 0xAA, 0x0F, 0xF0, 0x3F, 0xC0, 0x03, 0xFC, 0x33, 0xCC} | {1 << i for i in range(8)}
                     | {255 ^ (1 << i) for i in range(8)} | {(seed * 37 + 11 * i) & 0xFF for i in range(12)})
        for e in names:
            tasks.append({"part": "pattern3", "engine": e, "pat": pat, "seed": seed})
    ctx.log(f"{len(tasks)} shards")
    # the repair / refusal / integer-lane parts once more in a `python -O` child (asserts stripped)
    otasks = [t for t in tasks if t["part"] in ("lastchar", "bad_text", "int_text", "helper_bad", "strings")
              or (t["part"] == "ints" and t.get("bits", 99) <= 12)]
    import concurrent.futures

    with concurrent.futures.ThreadPoolExecutor(1) as ex:
        fut = ex.submit(core.call_in_child, "mc.checks.c12", "child_run", {"tasks": otasks}, True)
        acc = core.pmap(work_dispatch, tasks)
        acc_o = fut.result()
    ctx.merge(acc_o, part="python-O")
    # distinct classes for the bulk-enumerated groups are counted, not stored
    bulk = acc.counters.get("distinct_group_cases", 0)
    ctx.merge(acc)
    ctx.cov["bulk_enumerated_distinct_cases"] = bulk
    ctx.cov["explanation"] = (
        "distinct_nontrivial counts stored class strings; bulk_enumerated_distinct_cases additionally counts the "
        "exhaustively enumerated byte groups / 24-bit integers, each a distinct input by construction"
    )
    if ctx.quick:
        ctx.assume("quick tier: 3-byte groups restricted to a 40-value bit-pattern alphabet per byte; thorough enumerates all 2^24")


def child_run(payload):
    """entry point inside a `python -O` child"""
    return core.pmap(work_dispatch, payload["tasks"])


def work_dispatch(task):
    if task["part"] == "pattern3":
        acc = Acc()
        e = task["engine"]
        pat = task["pat"]
        for a in pat:
            for b in pat:
                for c in pat:
                    data = bytes((a, b, c))
                    acc.evaluations += 1
                    for key, desc in eval_bytes(e, data):
                        acc.violation(key, desc, {"kind": "bytes", "engine": e, "data": data})
            acc.cls(e, "pattern3", a)
        acc.counters["distinct_group_cases"] += len(pat) ** 3
        return acc
    return work(task)
