"""C01 -- a hash verifies exactly the password it was made from.

E1 product: hashers x settings x context keywords x passwords (length x content x str/bytes)
x near misses.  Oracle: the equivalence / admissibility model of mc.hashers (DESIGN A.1).
"""
from __future__ import annotations

import warnings

from mc import core
from mc import hashers as HS
from mc.core import Acc

warnings.filterwarnings("ignore")

ID = "C01"
LEVEL = "exploration"
RULE = (
    "full product hasher x using()-settings grid x context-keyword grid x password(length class x content class) "
    "x near-miss edits; hash -> type/ASCII check -> identify -> verify(text) -> verify(bytes) -> verify(every near miss); "
    "a case is non-trivial when hash() really produced a digest and was verified; distinct class = "
    "hasher|settings#|ctx#|length|content"
)

LIBPASS = ("lp_sha256", "lp_sha512", "lp_pbkdf2_sha256", "lp_pbkdf2_sha512", "lp_bcrypt", "lp_bcrypt_sha256")


def shape(settings):
    parts = []
    for k in ("ident", "variant", "version", "algs", "bare_salt", "marker"):
        if k in settings:
            parts.append(f"{k}={settings[k]}")
    if "salt" in settings and hasattr(settings["salt"], "__len__"):
        parts.append(f"saltlen={len(settings['salt'])}")
    return ",".join(parts)


def content_class(p):
    if isinstance(p, bytes):
        return "bytes"
    return "ascii" if p.isascii() else "multibyte"


def nm_class(label):
    c = label.split("@")[0]
    if c.startswith("ws") and "_" in c:
        return "ws_insert"  # reduced near-miss set: one representative (line feed at the start); full set: all 24
    return c


def len_class(n, limit=None):
    if limit:
        if n < limit:
            return f"<{limit}"
        if n == limit:
            return f"={limit}"
        return f">{limit}"
    for b in (0, 1, 8, 16, 56, 64, 72, 96, 128, 256, 1024, 4096):
        if n <= b:
            return f"<={b}"
    return ">4096"


# ---------------------------------------------------------------------------
# passlib hashers
# ---------------------------------------------------------------------------
def eval_case(case):
    """case: {hasher, settings, ctx, label, password, nm: 'full'|'reduced'|'none'} -> [(key, desc)]"""
    name = case["hasher"]
    if name in LIBPASS:
        return eval_libpass(case)
    settings = dict(case.get("settings") or {})
    ctx = dict(case.get("ctx") or {})
    p = case["password"]
    out = []
    H = HS.handler(name)
    inadmissible = bool(settings.pop("inadmissible", False))
    try:
        Hc = H.using(**settings) if settings else H
    except (ValueError, TypeError) as e:
        if inadmissible:
            return []  # a setting outside the format: refusing it is right (what is NOT right: a hash nobody can verify)
        return [(f"C01|{name}|using_raises:{type(e).__name__}:{shape(settings)}", f"{name}.using({settings!r}) raised {e!r}")]
    except Exception as e:  # noqa: BLE001
        return [(f"C01|{name}|using_raises:{type(e).__name__}:{shape(settings)}", f"{name}.using({settings!r}) raised {e!r}")]
    L = len(HS.to_bytes(p)) if not (name == "lmhash") else len(p)
    lc = len_class(L, getattr(H, "truncate_size", None))
    cls = shape(settings)
    if getattr(H, "truncate_size", None):
        cls = f"{lc}:{content_class(p)}:{cls}"
    if not HS.admissible(name, p, ctx, settings):
        return []
    if inadmissible:
        cls = "inadmissible_setting:" + cls
    try:
        h = Hc.hash(p, **ctx)
    except (ValueError, TypeError, NotImplementedError) as e:
        if inadmissible:
            return []
        return [(f"C01|{name}|hash_raises:{type(e).__name__}:{cls}", f"{name}.using({settings!r}).hash({p!r}, **{ctx!r}) raised {e!r}")]
    except Exception as e:  # noqa: BLE001
        return [(f"C01|{name}|hash_raises:{type(e).__name__}:{cls}", f"{name}.using({settings!r}).hash({p!r}, **{ctx!r}) raised {e!r}")]
    if not isinstance(h, str):
        return [(f"C01|{name}|hash_type:{cls}", f"hash() returned {type(h).__name__}")]
    text_exempt = name in HS.PLAINTEXT
    if not text_exempt and not h.isascii():
        out.append((f"C01|{name}|hash_nonascii:{cls}", f"hash() returned non-ASCII text {h!r}"))
    disabled = name in HS.DISABLED
    try:
        if not H.identify(h):
            out.append((f"C01|{name}|identify_false:{cls}", f"{name}.identify({h!r}) is False for its own hash"))
    except Exception as e:  # noqa: BLE001
        out.append((f"C01|{name}|identify_raises:{type(e).__name__}:{cls}", f"identify({h!r}) raised {e!r}"))
    # verify own password: as given, and in the other representation (text <-> encoded bytes)
    forms = [("same", p)]
    enc = ctx.get("encoding") or "utf-8"
    if isinstance(p, str):
        try:
            if name == "lmhash":
                # bytes are taken as already OEM-encoded *and upper-cased by the caller*: skip
                pass
            else:
                forms.append(("bytes", p.encode(enc if name in HS.PLAINTEXT or name == "htdigest" else "utf-8")))
        except UnicodeError:
            pass
    else:
        try:
            forms.append(("text", p.decode("utf-8")))
        except UnicodeDecodeError:
            pass
    for fl, f in forms:
        try:
            ok = Hc.verify(f, h, **ctx)
        except Exception as e:  # noqa: BLE001
            out.append((f"C01|{name}|verify_raises:{type(e).__name__}:{fl}:{cls}", f"verify({f!r}, {h!r}) raised {e!r}"))
            continue
        if disabled:
            if ok:
                out.append((f"C01|{name}|disabled_verifies:{cls}", f"disabled hasher verified {f!r} against {h!r}"))
        elif ok is not True:
            out.append((f"C01|{name}|verify_own_false:{fl}:{cls}", f"verify({f!r}, {h!r}, **{ctx!r}) returned {ok!r} for the password the hash was made from"))
    # verify through the un-customised global hasher too (settings live in the hash string)
    if settings and not disabled:
        try:
            ok = H.verify(p, h, **ctx)
            if ok is not True:
                out.append((f"C01|{name}|verify_global_false:{cls}", f"{name}.verify({p!r}, {h!r}) returned {ok!r} (hash made by a customised hasher)"))
        except Exception as e:  # noqa: BLE001
            out.append((f"C01|{name}|verify_global_raises:{type(e).__name__}:{cls}", f"raised {e!r}"))
    mode = case.get("nm", "full")
    if mode == "none":
        return out
    limit = getattr(H, "truncate_size", None)
    nms = HS.near_misses(p, (limit,) if limit else ())
    if mode == "reduced":
        keep = {}
        for label, q in nms:
            keep.setdefault(nm_class(label), (label, q))
            if label.startswith(("del@", "flip0@", "flip7@", "case@")):
                keep[nm_class(label) + "_last"] = (label, q)
        nms = list(keep.values())
    if not disabled:
        nms.append(("hash_text", h if isinstance(p, str) else h.encode("ascii", "replace")))
    for label, q in nms:
        if len(q) > 4096:
            continue
        if HS.equiv(name, p, q, ctx, settings):
            continue
        try:
            ok = Hc.verify(q, h, **ctx)
        except (ValueError, TypeError):
            continue  # near miss that is itself inadmissible (documented value/type errors)
        except Exception as e:  # noqa: BLE001
            out.append((f"C01|{name}|nearmiss_raises:{type(e).__name__}:{nm_class(label)}:{cls}", f"verify({q!r}, {h!r}) raised {e!r}"))
            continue
        if ok:
            out.append((f"C01|{name}|nearmiss_verifies:{nm_class(label)}:{cls}",
                        f"verify({q!r}, {h!r}, **{ctx!r}) is True but the hash was made from {p!r} ({label})"))
    return out


# ---------------------------------------------------------------------------
# libpass hashers
# ---------------------------------------------------------------------------
def libpass_hasher(name, rounds):
    from libpass.hashers import bcrypt as LB
    from libpass.hashers import pbkdf2 as LP
    from libpass.hashers import sha_crypt as LS

    if name == "lp_sha256":
        return LS.SHA256Hasher(rounds=rounds or 1000)
    if name == "lp_sha512":
        return LS.SHA512Hasher(rounds=rounds or 1000)
    if name == "lp_pbkdf2_sha256":
        return LP.PBKDF2SHA256Handler(rounds=rounds or 1)
    if name == "lp_pbkdf2_sha512":
        return LP.PBKDF2SHA512Handler(rounds=rounds or 1)
    if name == "lp_bcrypt":
        return LB.BcryptHasher(rounds=rounds or 4)
    if name == "lp_bcrypt_sha256":
        return LB.BcryptSHA256Hasher(rounds=rounds or 4)
    raise KeyError(name)


def eval_libpass(case):
    name = case["hasher"]
    settings = case.get("settings") or {}
    p = case["password"]
    out = []
    pb = HS.to_bytes(p)
    if name == "lp_bcrypt" and len(pb) > 72:
        return []  # the bcrypt library itself refuses > 72 bytes (stated in C20)
    if b"\x00" in pb:
        return []
    hz = libpass_hasher(name, settings.get("rounds"))
    kw = {}
    if settings.get("salt") is not None:
        kw["salt"] = settings["salt"]
    cls = "salt" if kw else "gensalt"
    try:
        h = hz.hash(p, **kw)
    except (ValueError, TypeError) as e:
        if settings.get("inadmissible"):
            return []  # a setting outside the format: refusing it is right (what is NOT right: a hash nobody can verify)
        return [(f"C01|{name}|hash_raises:{type(e).__name__}:{cls}", f"hash({p!r}, **{kw!r}) raised {e!r}")]
    except Exception as e:  # noqa: BLE001
        return [(f"C01|{name}|hash_raises:{type(e).__name__}:{cls}", f"hash({p!r}, **{kw!r}) raised {e!r}")]
    if settings.get("inadmissible"):
        cls = "inadmissible_" + cls
    if not isinstance(h, str) or not h.isascii():
        return [(f"C01|{name}|hash_type:{cls}", f"hash() returned {h!r}")]
    try:
        if not hz.identify(h):
            out.append((f"C01|{name}|identify_false:{cls}", f"identify({h!r}) is False for its own hash"))
        forms = [p]
        if isinstance(p, str):
            forms.append(p.encode("utf-8"))
        else:
            try:
                forms.append(p.decode("utf-8"))
            except UnicodeDecodeError:
                pass
        for f in forms:
            if hz.verify(h, f) is not True:
                out.append((f"C01|{name}|verify_own_false:{cls}", f"verify({h!r}, {f!r}) is not True for the password the hash was made from"))
        mode = case.get("nm", "reduced")
        if mode != "none":
            nms = HS.near_misses(p)
            if mode == "reduced":
                keep = {}
                for label, q in nms:
                    keep.setdefault(nm_class(label), (label, q))
                nms = list(keep.values())
            for label, q in nms:
                qb = HS.to_bytes(q)
                if name == "lp_bcrypt" and (len(qb) > 72 or qb[:72] == pb[:72]):
                    continue
                if hz.verify(h, q):
                    out.append((f"C01|{name}|nearmiss_verifies:{nm_class(label)}:{cls}", f"verify({h!r}, {q!r}) is True but hash was made from {p!r}"))
    except Exception as e:  # noqa: BLE001
        out.append((f"C01|{name}|raises:{type(e).__name__}:{cls}", f"identify/verify on own hash {h!r} raised {e!r}"))
    return out


def replay(case):
    return eval_case(case)


# ---------------------------------------------------------------------------
# enumeration
# ---------------------------------------------------------------------------
def passwords_for(name, quick, seed):
    out = []
    Ls = HS.lengths(quick)
    if name in HS.SLOW and HS.SLOW[name] >= 3:
        Ls = [0, 1, 8, 9, 64, 65, 255]
    elif name in HS.SLOW:
        Ls = [L for L in Ls if L in (0, 1, 8, 9, 55, 56, 71, 72, 73, 96, 255, 4096)]
    if name in ("cisco_pix", "cisco_asa"):
        Ls = sorted(set(list(range(0, 34)) if not quick else [0, 1, 2, 11, 12, 13, 14, 15, 16, 17, 27, 28, 29, 31, 32, 33]))
    if name in ("bigcrypt", "crypt16", "bsdi_crypt", "ldap_bsdi_crypt") and quick:
        Ls = [L for L in Ls if L <= 97]  # pure-python DES per 8-byte block: long inputs only in thorough
    if name == "lmhash":
        Ls = sorted(set([0, 1, 6, 7, 8, 13, 14, 15, 16, 40] + ([] if quick else list(range(0, 20)))))
    for L in Ls:
        for label, val in HS.password_contents(L, seed):
            out.append((L, label, val))
    if quick and 4096 not in Ls and name not in HS.SLOW and name not in ("bigcrypt", "crypt16", "bsdi_crypt", "ldap_bsdi_crypt", "cisco_pix", "cisco_asa", "lmhash"):
        # the library-wide maximum is an admissible length: one text and one bytes password exactly there
        conts = HS.password_contents(4096, seed)
        out.append((4096, conts[0][0], conts[0][1]))
        out.append((4096, conts[2][0], conts[2][1]))
    return out


DEEP = 8
CORE_LENGTHS = (0, 1, 7, 8, 9, 15, 16, 17, 31, 32, 33, 55, 56, 63, 64, 65, 72, 73, 111, 112, 127, 128, 129, 255, 256, 4096)


def work(task):
    acc = Acc()
    name = task["hasher"]
    quick = task["quick"]
    seed = task["seed"]
    lib = name in LIBPASS
    pws = passwords_for("bcrypt" if name in ("lp_bcrypt", "lp_bcrypt_sha256") else name, quick, seed)
    if lib:
        ctxs = [{}]
    else:
        ctxs = HS.ctx_grid(name, quick)
    if task.get("few"):
        pws = [t for t in pws if t[1] in ("ascii_lower", "ascii_mixed") and t[0] in (8, 9)][:2] or pws[:2]
    core_pws = [t for t in pws if t[0] in CORE_LENGTHS]
    tail_pws = [t for t in core_pws if t[1] in ("empty", "ascii_mixed", "bytes_walk")]
    for si, settings in task["settings"]:
        for ci, ctx in enumerate(ctxs):
            if ci > 0 and si > 1 and len(ctxs) > 1:
                continue
            # thorough: every length 0..130 on the first DEEP settings; the rest of the settings grid is crossed
            # with the block-boundary lengths only (the password length and the rounds / salt-size axes meet in
            # the digest-mixing loop, whose period is at most the digest size)
            deep = quick or si < DEEP
            for pi, (L, label, val) in enumerate(pws if deep else core_pws if si < 4 * DEEP else tail_pws):
                # near-miss depth: full on the first setting(s) / first context, reduced elsewhere
                wrapper = HS.base_name(name) != name and type(HS.handler(name)).__name__ == "PrefixWrapper"
                nfull = 1 if quick else 2
                if task["nm_full"] and si < nfull and ci == 0 and not wrapper and (
                    L <= 17 or L in (55, 56, 64, 65, 72, 73, 96, 97) or not quick
                ):
                    nm = "full"
                elif si < (4 if quick else 10**9) and ci < 3:
                    nm = "reduced"
                else:
                    nm = "none"
                if name in HS.SLOW and nm == "full" and HS.SLOW[name] >= 3:
                    nm = "reduced"
                if name in HS.SLOW and HS.SLOW[name] >= 3 and quick and si > 0:
                    nm = "none"
                if not deep and si >= 4 * DEEP:
                    nm = "none"
                case = {"hasher": name, "settings": settings, "ctx": ctx, "label": label, "password": val, "nm": nm}
                acc.ev()
                vs = eval_case(case)
                acc.cls(name, si, ci, L, label)
                for key, desc in vs:
                    acc.violation(key, desc, case)
                if pi == 3 and si == 0 and ci == 0:
                    acc.sample(case)
            acc.axis("ctx_index", ci)
        acc.axis("settings_index", min(si, 40))
    acc.axis("hasher", name)
    for L, label, _ in pws:
        acc.axis("length", L)
        acc.axis("content", label)
    return acc


def libpass_settings(name, quick, seed):
    out = []
    if name in ("lp_sha256", "lp_sha512"):
        rs = [1000, 1001, 1041, 1042, 5000] if quick else [1000 + r for r in range(0, 86, 5)] + [5000]
        for r in rs:
            out.append({"rounds": r})
        for n in (1, 2, 8, 15, 16):
            out.append({"rounds": 1000, "salt": HS.make_salt("sha256_crypt", n, seed, n)})
        # salts the API takes although crypt(3) would not write them (anything but '$', up to 16 characters): what the
        # hasher makes from them, it reads back
        for odd in ("my salt", "user:realm", "tab\there", "a!b#c%d", " ", "x" * 16):
            out.append({"rounds": 1000, "salt": odd})
        # salts outside the format (too long, with the field separator): refused, or else whatever comes back verifies
        for bad in ("a" * 17, "ab$cd", "$", "a" * 64, "abcdefgh$"):
            out.append({"rounds": 1000, "salt": bad, "inadmissible": True})
    elif name.startswith("lp_pbkdf2"):
        for r in (1, 2, 3, 10):
            out.append({"rounds": r})
        for n in (1, 8, 16, 32):
            out.append({"rounds": 1, "salt": HS.filler(seed, n, b"lp")})
    else:
        out = [{"rounds": 4}, {"rounds": 5}]
    return out


def run(ctx):
    tasks = []
    for name in HS.usable_names():
        grid = HS.settings_grid(name, ctx.quick, ctx.seed)
        idx = list(enumerate(grid))
        if ctx.quick and len(idx) > 8:
            # round trip on the whole grid happens in C07/C02; here: first 6 + evenly spread others up to 12
            step = max(1, (len(idx) - 6) // 6)
            idx = idx[:6] + idx[6::step][:6]
        per = 2 if name in HS.SLOW else 4
        for i in range(0, len(idx), per):
            tasks.append({"hasher": name, "settings": idx[i : i + per], "quick": ctx.quick, "seed": ctx.seed, "nm_full": i == 0})
    # settings OUTSIDE the format (a salt with a foreign character -- the field separator among them -- or longer than the
    # format takes): refused with the documented value / type error, or else the hash that comes back verifies
    for name in HS.usable_names():
        sc = HS.salt_alphabet(name)
        if "salt" not in HS.g(name, "setting_kwds", ()) or not isinstance(sc, str) or name in HS.SLOW:
            continue
        size = HS.g(name, "default_salt_size") or HS.g(name, "max_salt_size") or 4
        good = HS.make_salt(name, size, ctx.seed, 3)
        bads = [good[:1] + ch + good[2:] for ch in "$:,! \n" if ch not in sc] + [ch + good[1:] for ch in "$" if ch not in sc] + [good[:-1] + "$"]
        mx = HS.g(name, "max_salt_size")
        if mx:
            bads.append(HS.make_salt(name, mx + 1, ctx.seed, 4))
        base = HS.min_cost_kw(name)
        sts = [dict(base, salt=b, inadmissible=True) for b in dict.fromkeys(bads)]
        tasks.append({"hasher": name, "settings": [(900 + i, st) for i, st in enumerate(sts)], "quick": ctx.quick, "seed": ctx.seed, "nm_full": False, "few": True})
    tasks.append({"hasher": "scrypt", "settings": [(900 + i, {"ident": "$7$", "rounds": 2, "salt": sb, "inadmissible": True}) for i, sb in enumerate((b"a$b", b"$ab", b"ab$", b"a\xffb"))],
                  "quick": ctx.quick, "seed": ctx.seed, "nm_full": False, "few": True})
    for name in LIBPASS:
        st = libpass_settings(name, ctx.quick, ctx.seed)
        for i in range(0, len(st), 3):
            tasks.append({"hasher": name, "settings": list(enumerate(st))[i : i + 3], "quick": ctx.quick, "seed": ctx.seed, "nm_full": i == 0})
    ctx.log(f"{len(tasks)} shards")
    # slow shards first
    tasks.sort(key=lambda t: -HS.SLOW.get(t["hasher"], 0))
    acc = core.pmap(work, tasks)
    ctx.merge(acc)
    skipped = [n for n in HS.all_names() if not HS.usable(n)]
    if skipped:
        ctx.assume(f"hashers without any backend on this host are not hashed here: {skipped}")
    if not ctx.quick:
        ctx.assume(f"thorough tier: every length 0..130 (+255, 256, 1000, 4095, 4096) x every content class on the first {DEEP} settings of each hasher; the remaining settings are crossed with the block-boundary lengths {list(CORE_LENGTHS)} (all content classes and near-miss passwords up to setting {4 * DEEP}, then one text and one non-UTF-8 bytes password per length)")
    if ctx.quick:
        ctx.assume("quick tier: settings grid thinned to <=12 entries per hasher; full near-miss set on the first two settings")
