"""C20 -- libpass hashers and classic passlib hashers understand each other.

E1 product over the six formats both APIs offer (sha256-crypt, sha512-crypt, pbkdf2-sha256, pbkdf2-sha512, bcrypt,
bcrypt-sha256).  Parts:
  interop   format x password (length / content classes of mc.hashers; bcrypt family <= 72 bytes) x non-empty salt
            (sha-crypt: every size 1..16; pbkdf2: byte salts of 1, 8, 16, 32; bcrypt: 22-character salts walking the
            alphabet with a legal last character) x rounds (sha-crypt: the costs around a 42-round block edge -- tails 0 1 2 3 40 41; thorough every tail twice -- and the implicit
            5000; pbkdf2 1..10; bcrypt cost 4, 5): the libpass-made hash verifies under passlib and under libpass, the
            passlib-made hash verifies under libpass, near-miss passwords verify nowhere, the libpass hasher identifies
            both, its update check is False for its own hash and True under another cost.
  foreign_salt  sha-crypt salts outside ./0-9A-Za-z (blank, ':', '!', TAB, '=', non-ASCII; text and bytes): refused by
            the libpass hasher, or else the hash verifies on both sides.
  fresh     hash() with the hasher's own generated salt: verifies under both, needs_update False.
  identify  6 libpass hashers x sample hashes of every usable registered passlib hasher: identify is the identity on
            formats; needs_update is True for every foreign format.
  context   libpass.context.CryptContext over every ordered list of 1..3 of the six hashers: hashes with the first,
            verifies hashes of listed formats only (libpass- and passlib-made), needs_update <=> not the first's format.
"""
from __future__ import annotations

import itertools
import warnings

from mc import core, env
from mc import hashers as HS
from mc.core import Acc

warnings.filterwarnings("ignore")

ID = "C20"
LEVEL = "exploration"
RULE = (
    "interop: star-shaped product per format (all passwords at the base salt/cost; all salt sizes and all rounds over a "
    "few passwords; pbkdf2: full product) -- thorough widens every arm; identify: 6 x registry samples; context: all "
    "156 ordered scheme lists x 6 formats x 2 hash makers; a case is non-trivial when both libraries really hashed / "
    "verified it; distinct class = part|format|password class|salt class|rounds (context: list|format|maker)"
)

FORMATS = ("sha256_crypt", "sha512_crypt", "pbkdf2_sha256", "pbkdf2_sha512", "bcrypt", "bcrypt_sha256")
KIND = {"sha256_crypt": "sha", "sha512_crypt": "sha", "pbkdf2_sha256": "pbkdf2", "pbkdf2_sha512": "pbkdf2",
        "bcrypt": "bcrypt", "bcrypt_sha256": "bcrypt"}
BASE_ROUNDS = {"sha": 1000, "pbkdf2": 2, "bcrypt": 4}
PW = "pw-C20 é"


class FillerRng(env.ScriptedRng):
    def __init__(self, seed):
        super().__init__()
        self.seed = seed

    def _answer(self, kind, size):
        i = len(self.log)
        self.log.append((kind, size))
        return ((self.seed + 1) * 0x9E3779B97F4A7C15 + i * 0xD1B54A32D192ED03) % size


def lp_hasher(fmt, rounds):
    if rounds is None:
        # the default-configured hasher: constructed without a cost
        import importlib

        mod, cls = {"sha256_crypt": ("sha_crypt", "SHA256Hasher"), "sha512_crypt": ("sha_crypt", "SHA512Hasher"),
                    "pbkdf2_sha256": ("pbkdf2", "PBKDF2SHA256Handler"), "pbkdf2_sha512": ("pbkdf2", "PBKDF2SHA512Handler"),
                    "bcrypt": ("bcrypt", "BcryptHasher"), "bcrypt_sha256": ("bcrypt", "BcryptSHA256Hasher")}[fmt]
        K = getattr(importlib.import_module("libpass.hashers." + mod), cls)
        return K()
    if fmt == "sha256_crypt":
        from libpass.hashers.sha_crypt import SHA256Hasher

        return SHA256Hasher(rounds=rounds)
    if fmt == "sha512_crypt":
        from libpass.hashers.sha_crypt import SHA512Hasher

        return SHA512Hasher(rounds=rounds)
    if fmt == "pbkdf2_sha256":
        from libpass.hashers.pbkdf2 import PBKDF2SHA256Handler

        return PBKDF2SHA256Handler(rounds=rounds)
    if fmt == "pbkdf2_sha512":
        from libpass.hashers.pbkdf2 import PBKDF2SHA512Handler

        return PBKDF2SHA512Handler(rounds=rounds)
    if fmt == "bcrypt":
        from libpass.hashers.bcrypt import BcryptHasher

        return BcryptHasher(rounds=rounds)
    if fmt == "bcrypt_sha256":
        from libpass.hashers.bcrypt import BcryptSHA256Hasher

        return BcryptSHA256Hasher(rounds=rounds)
    raise core.HarnessError(fmt)


def pl_handler(fmt, rounds=None, salt=None):
    H = HS.handler(fmt)
    kw = {}
    if rounds is not None:
        kw["rounds"] = rounds
    if salt is not None:
        kw["salt"] = salt
    if KIND[fmt] == "bcrypt":
        kw["ident"] = "2b"
    return H.using(**kw) if kw else H


def lp_salt_arg(fmt, salt, rounds):
    """the salt argument in the form the libpass hasher documents"""
    if KIND[fmt] == "bcrypt":
        return b"$2b$%02d$" % rounds + salt.encode("ascii")
    return salt


def _exc(e):
    return type(e).__name__


def _nbytes(p):
    return len(HS.to_bytes(p))


def wrong_passwords(fmt, p):
    isb = isinstance(p, bytes)
    x = b"x" if isb else "x"
    cands = [("appended", p + x)]
    if len(p):
        cands.append(("drop_last", p[:-1]))
        for label, i in (("flip_first", 0), ("flip_last", len(p) - 1)):
            c = p[i] if isb else ord(p[i])
            d = c ^ 1
            if d == 0 or (not isb and 0xD800 <= d <= 0xDFFF):
                continue
            q = p[:i] + (bytes([d]) if isb else chr(d)) + p[i + 1 :]
            cands.append((label, q))
        if len(p) > 1:
            cands.append(("empty", p[:0]))
    out = []
    for label, q in cands:
        if q == p or HS.to_bytes(q) == HS.to_bytes(p):
            continue
        if KIND[fmt] == "bcrypt" and _nbytes(q) > 72:
            continue
        if HS.equiv(fmt, p, q, {}, {"ident": "2b"} if fmt == "bcrypt" else {}):
            continue
        out.append((label, q))
    return out


# ---------------------------------------------------------------------------
# evaluators
# ---------------------------------------------------------------------------
def _verify(side, fmt, rounds, h, p):
    """('ok', bool) | ('exc', e)"""
    try:
        if side.startswith("libpass"):
            return ("ok", lp_hasher(fmt, rounds).verify(h, p))
        return ("ok", HS.handler(fmt).verify(p, h))
    except core.HarnessError:
        raise
    except Exception as e:  # noqa: BLE001
        return ("exc", e)


def eval_interop(case):
    fmt, p, salt, rounds = case["fmt"], case["password"], case["salt"], case["rounds"]
    out = []
    tag = ""
    lp = lp_hasher(fmt, rounds)
    hashes = {}
    try:
        if KIND[fmt] == "pbkdf2":
            hashes["libpass"] = lp.hash(p, salt=salt, rounds=rounds)
        else:
            hashes["libpass"] = lp.hash(p, salt=lp_salt_arg(fmt, salt, rounds))
    except Exception as e:  # noqa: BLE001
        out.append((f"C20|{fmt}|libpass_hash:raises:{_exc(e)}", f"libpass {fmt} hash({p!r}, salt={salt!r}) at cost {rounds} raised {e!r}"))
    if KIND[fmt] == "sha" and "libpass" in hashes and isinstance(salt, str):
        # the salt argument is documented as text or bytes: the same salt in its other representation, the same hash
        try:
            hb = lp.hash(p, salt=salt.encode("ascii"))
            if hb != hashes["libpass"]:
                out.append((f"C20|{fmt}|libpass_hash:bytes_salt_differs", f"libpass {fmt} hash({p!r}, salt={salt.encode('ascii')!r}) = {hb!r}, with the text salt {hashes['libpass']!r}"))
        except Exception as e:  # noqa: BLE001
            out.append((f"C20|{fmt}|libpass_hash:bytes_salt:raises:{_exc(e)}", f"libpass {fmt} hash(salt={salt.encode('ascii')!r}) raised {e!r}"))
    try:
        hashes["passlib"] = pl_handler(fmt, rounds, salt).hash(p)
    except Exception as e:  # noqa: BLE001
        raise core.HarnessError(f"passlib {fmt} refused an admissible case {case!r}: {e!r}")
    implicit = KIND[fmt] == "sha" and "rounds=" not in hashes["passlib"]
    if implicit:
        tag = ":implicit_rounds"
    wrongs = wrong_passwords(fmt, p)
    for maker, h in hashes.items():
        if not isinstance(h, str):
            out.append((f"C20|{fmt}|{maker}_hash:not_text", f"{maker} {fmt} hash is {type(h).__name__}"))
            continue
        for side in ("passlib", "libpass", "libpass@other_cost"):
            if maker == "passlib" and side == "passlib":
                continue  # C01's subject
            mt = tag if maker == "passlib" else ""
            vrounds = rounds
            if side == "libpass@other_cost":
                # a verifier configured for another cost must still honour the cost stored in the hash
                vrounds = other_costs(fmt, rounds)[0]
            r = _verify(side, fmt, vrounds, h, p)
            if r[0] == "exc":
                out.append((f"C20|{fmt}|{maker}_hash:{side}_verify:raises:{_exc(r[1])}{mt}", f"{side} verify({p!r}) of the {maker}-made {h!r} raised {r[1]!r}"))
                continue
            if r[1] is not True:
                out.append((f"C20|{fmt}|{maker}_hash:{side}_verify:own_password_rejected{mt}",
                            f"the {maker}-made {fmt} hash {h!r} of {p!r} (salt {salt!r}, cost {rounds}) does not verify under {side}: {r[1]!r}"))
            # the stored hash handed over as BYTES (both APIs take text or bytes): the same verdict
            rb = _verify(side, fmt, vrounds, h.encode("ascii"), p)
            if rb[0] == "exc" or rb[1] is not r[1]:
                what = f"raises:{_exc(rb[1])}" if rb[0] == "exc" else "verdict_differs"
                out.append((f"C20|{fmt}|{maker}_hash:{side}_verify:bytes_hash:{what}{mt}",
                            f"{side} verify({p!r}) of the {maker}-made {fmt} hash given as bytes {h.encode('ascii')!r}: {rb[1]!r}; given as text: {r[1]!r}"))
            for label, q in wrongs:
                r = _verify(side, fmt, vrounds, h, q)
                if r[0] == "exc":
                    if isinstance(r[1], (ValueError, TypeError)) and side == "passlib":
                        continue
                    out.append((f"C20|{fmt}|{maker}_hash:{side}_verify:raises:{_exc(r[1])}{mt}", f"{side} verify({q!r}) of the {maker}-made {h!r} raised {r[1]!r}"))
                elif r[1] is not False:
                    out.append((f"C20|{fmt}|{maker}_hash:{side}_verify:wrong_password_accepted{mt}",
                                f"{side} verifies the wrong password {q!r} [{label}] against the {maker}-made {h!r} of {p!r}"))
        # identify / needs_update of the libpass hasher
        mt = tag if maker == "passlib" else ""
        try:
            # "exactly its own format": the same string with a line terminator / blank around it is not a hash
            for dl, dec in (("lf", h + "\n"), ("crlf", h + "\r\n"), ("blank", h + " "), ("lead_blank", " " + h)):
                for form, arg in (("text", dec), ("bytes", dec.encode("ascii"))):
                    # (identify() is a shape test: a blank inside the last field is the digest's business, which
                    #  verify() settles; a line terminator is not part of any field)
                    if dl in ("lf", "crlf") and lp.identify(arg) is not False:
                        out.append((f"C20|{fmt}|identify:decorated_accepted:{dl}", f"libpass {fmt} hasher identifies {arg!r} (a {maker}-made hash with {dl} added)"))
                    try:
                        if lp.verify(arg, p) is not False:
                            out.append((f"C20|{fmt}|verify:decorated_accepted:{dl}", f"libpass {fmt} hasher verifies {p!r} against {arg!r} (a {maker}-made hash with {dl} added)"))
                    except (ValueError, TypeError):
                        pass
            if lp.identify(h) is not True:
                out.append((f"C20|{fmt}|identify:own_format_rejected:{maker}_made{mt}", f"libpass {fmt} hasher does not identify the {maker}-made {h!r}"))
            if maker == "libpass":
                if lp.needs_update(h) is not False:
                    out.append((f"C20|{fmt}|needs_update:own_fresh_hash:true", f"libpass {fmt} hasher at cost {rounds} asks to update its own hash {h!r}"))
            for other in other_costs(fmt, rounds, implicit and maker == "passlib"):
                if lp_hasher(fmt, other).needs_update(h) is not True:
                    out.append((f"C20|{fmt}|needs_update:other_cost:false{mt}",
                                f"libpass {fmt} hasher at cost {other} does not ask to update the {maker}-made cost-{rounds} hash {h!r}"))
        except core.HarnessError:
            raise
        except Exception as e:  # noqa: BLE001
            out.append((f"C20|{fmt}|identify_or_needs_update:raises:{_exc(e)}", f"on the {maker}-made {h!r}: {e!r}"))
    return out


def other_costs(fmt, rounds, implicit=False):
    k = KIND[fmt]
    if k == "sha":
        return [r for r in (rounds + 1, 1000 if rounds != 1000 else 1042, 5000, 535000) if r != rounds]
    if k == "pbkdf2":
        return [rounds + 1, 600000]
    return [rounds + 1, 12] if rounds != 12 else [4]


def eval_fresh(case):
    fmt, p, rounds = case["fmt"], case["password"], case["rounds"]
    out = []
    lp = lp_hasher(fmt, rounds)
    try:
        with env.scripted_rng(FillerRng(case.get("seed", 0))):
            h = lp.hash(p)
    except Exception as e:  # noqa: BLE001
        return [(f"C20|{fmt}|libpass_hash:fresh:raises:{_exc(e)}", f"libpass {fmt} hash({p!r}) raised {e!r}")]
    for side in ("passlib", "libpass"):
        r = _verify(side, fmt, rounds, h, p)
        if r[0] == "exc":
            out.append((f"C20|{fmt}|libpass_hash:{side}_verify:raises:{_exc(r[1])}:fresh", f"{side} verify({p!r}) of the fresh libpass {h!r} raised {r[1]!r}"))
        elif r[1] is not True:
            out.append((f"C20|{fmt}|libpass_hash:{side}_verify:own_password_rejected:fresh", f"the fresh libpass {fmt} hash {h!r} of {p!r} does not verify under {side}"))
    try:
        if lp.identify(h) is not True:
            out.append((f"C20|{fmt}|identify:own_format_rejected:fresh", f"libpass {fmt} hasher does not identify its fresh {h!r}"))
        if lp.needs_update(h) is not False:
            out.append((f"C20|{fmt}|needs_update:own_fresh_hash:true", f"libpass {fmt} hasher at cost {rounds} asks to update its fresh {h!r}"))
        if rounds is None:
            # a second default-configured hasher object, and the text given as bytes
            lp2 = lp_hasher(fmt, None)
            if lp2.needs_update(h) is not False or lp2.needs_update(h.encode("ascii")) is not False or lp2.verify(h, p) is not True:
                out.append((f"C20|{fmt}|needs_update:own_fresh_hash:true:second_default_object",
                            f"another default-configured libpass {fmt} hasher asks to update / rejects the fresh {h!r}"))
    except Exception as e:  # noqa: BLE001
        out.append((f"C20|{fmt}|identify_or_needs_update:raises:{_exc(e)}", f"on the fresh {h!r}: {e!r}"))
    return out


def not_judged(fmt, scheme, settings):
    """legacy variants of a shared format that the libpass API does not claim to cover"""
    if fmt == scheme == "bcrypt_sha256" and settings.get("version") == 1:
        return True
    if fmt == scheme == "bcrypt" and str(settings.get("ident", "")).strip("$") in ("2", "2x"):
        return True
    return False


def eval_identify(case):
    fmt, scheme, h = case["fmt"], case["scheme"], case["hash"]
    settings = case.get("settings") or {}
    if not_judged(fmt, scheme, settings):
        return []
    lp = lp_hasher(fmt, BASE_ROUNDS[KIND[fmt]])
    own = scheme == fmt
    out = []
    try:
        got = lp.identify(h)
    except Exception as e:  # noqa: BLE001
        return [(f"C20|{fmt}|identify:raises:{_exc(e)}", f"libpass {fmt}.identify({h!r}) [a {scheme} hash] raised {e!r}")]
    if own and got is not True:
        out.append((f"C20|{fmt}|identify:own_format_rejected:passlib_made", f"libpass {fmt} hasher does not identify the passlib {scheme} hash {h!r}"))
    if not own and got is not False:
        out.append((f"C20|{fmt}|identify:claims_foreign_format", f"libpass {fmt} hasher identifies the {scheme} hash {h!r} as its own"))
    if not own:
        try:
            nu = lp.needs_update(h)
            if nu is not True:
                out.append((f"C20|{fmt}|needs_update:other_format:false", f"libpass {fmt}.needs_update({h!r}) [a {scheme} hash] = {nu!r}"))
        except Exception as e:  # noqa: BLE001
            out.append((f"C20|{fmt}|needs_update:other_format:raises:{_exc(e)}", f"libpass {fmt}.needs_update({h!r}) [a {scheme} hash] raised {e!r}"))
        try:
            v = lp.verify(h, case["password"])
            if v is not False:
                out.append((f"C20|{fmt}|verify:foreign_format_accepted", f"libpass {fmt}.verify({h!r}) [a {scheme} hash] = {v!r}"))
        except Exception:  # noqa: BLE001
            pass
    return out


def sample_hashes(fmt, maker, p, seed):
    salt = {"sha": HS.make_salt("sha256_crypt", 16, seed, 3), "pbkdf2": HS.filler(seed, 16, b"c20ctx"),
            "bcrypt": HS.make_salt("bcrypt", 22, seed, 5)}[KIND[fmt]]
    r = BASE_ROUNDS[KIND[fmt]]
    if maker == "passlib":
        return pl_handler(fmt, r, salt).hash(p)
    lp = lp_hasher(fmt, r)
    if KIND[fmt] == "pbkdf2":
        return lp.hash(p, salt=salt, rounds=r)
    return lp.hash(p, salt=lp_salt_arg(fmt, salt, r))


def eval_context(case):
    """the context is judged as a composition: cells where the component hasher itself misbehaves (reported by the
    interop part under the format's own key) are skipped here"""
    from libpass.context import CryptContext

    labels, seed = case["schemes"], case.get("seed", 0)
    name = ">".join(labels)
    comp = "context"
    out = []
    hashers = {f: lp_hasher(f, BASE_ROUNDS[KIND[f]]) for f in FORMATS}
    # 'fmt@k' = a second hasher of the same format with another cost (a cost migration lists both)
    listed_hashers = []
    for lab in labels:
        f, _, k = lab.partition("@")
        listed_hashers.append(hashers[f] if not k else lp_hasher(f, BASE_ROUNDS[KIND[f]] + int(k)))
    schemes = [lab.partition("@")[0] for lab in labels]
    try:
        C = CryptContext(listed_hashers)
    except Exception as e:  # noqa: BLE001
        return [(f"C20|{comp}|construct:raises:{_exc(e)}", f"CryptContext({name}) raised {e!r}")]
    first = schemes[0]
    p = PW
    q = PW + "x"
    derive = case.get("derive")
    if derive:
        # the application hands a COPY of the context on (deep-copied settings object, pickled to a worker process),
        # before or after the original was used: the copy is a libpass context like any other
        import copy
        import pickle

        comp = f"context:{derive}"
        try:
            if derive.endswith("_used"):
                C.needs_update(sample_hashes(schemes[-1], "libpass", p, seed))
                C.verify(p, sample_hashes(first, "passlib", p, seed))
            C = copy.deepcopy(C) if derive.startswith("deepcopy") else copy.copy(C) if derive.startswith("copy") else pickle.loads(pickle.dumps(C))
        except Exception as e:  # noqa: BLE001
            return [(f"C20|{comp}|derive:raises:{_exc(e)}", f"{derive} of CryptContext({name}) raised {e!r}")]

    def component_ok(fmt, h):
        try:
            return (hashers[fmt].verify(h, p) is True and hashers[fmt].verify(h, q) is False and hashers[fmt].identify(h) is True
                    and all(hashers[g].identify(h) is False and hashers[g].verify(h, p) is False for g in FORMATS if g != fmt))
        except Exception:  # noqa: BLE001
            return False

    try:
        with env.scripted_rng(FillerRng(seed)):
            h = C.hash(p)
        with env.scripted_rng(FillerRng(seed)):
            h_direct = hashers[first].hash(p)
        if not isinstance(h, str) or HS.handler(first).identify(h) is not True:
            out.append((f"C20|{comp}|hash:not_first_scheme", f"CryptContext({name}).hash() = {h!r} is not a {first} hash"))
        elif component_ok(first, h_direct) and HS.handler(first).verify(p, h_direct) is True:
            if HS.handler(first).verify(p, h) is not True:
                out.append((f"C20|{comp}|hash:passlib_rejects", f"CryptContext({name}).hash() = {h!r} does not verify under passlib {first}"))
            if C.verify(p, h) is not True:
                out.append((f"C20|{comp}|verify:own_hash_rejected", f"CryptContext({name}) does not verify its own hash {h!r}"))
            if C.verify(q, h) is not False:
                out.append((f"C20|{comp}|verify:wrong_password_accepted", f"CryptContext({name}) verifies {q!r} against its own hash of {p!r}"))
            if C.needs_update(h) is not False:
                out.append((f"C20|{comp}|needs_update:own_hash:true", f"CryptContext({name}).needs_update(own hash {h!r}) is not False"))
    except core.HarnessError:
        raise
    except Exception as e:  # noqa: BLE001
        out.append((f"C20|{comp}|own_hash:raises:{_exc(e)}", f"CryptContext({name}): {e!r}"))
    for fmt in FORMATS:
        for maker in ("libpass", "passlib"):
            hf = sample_hashes(fmt, maker, p, seed)
            if not component_ok(fmt, hf):
                continue
            listed = fmt in schemes
            pos = "first" if fmt == first else ("listed" if listed else "unlisted")
            try:
                v = C.verify(p, hf)
                if v is not listed:
                    out.append((f"C20|{comp}|verify:{pos}_format:{'rejected' if listed else 'accepted'}",
                                f"CryptContext({name}).verify(correct password, {maker}-made {fmt} hash {hf!r}) = {v!r}, expected {listed}"))
                w = C.verify(q, hf)
                if w is not False:
                    out.append((f"C20|{comp}|verify:{pos}_format:wrong_password_accepted",
                                f"CryptContext({name}).verify(wrong password, {maker}-made {fmt} hash {hf!r}) = {w!r}"))
                nu = C.needs_update(hf)
                want = fmt != first
                if nu is not want:
                    out.append((f"C20|{comp}|needs_update:{pos}_format:{'false' if want else 'true'}",
                                f"CryptContext({name}).needs_update({maker}-made {fmt} hash {hf!r}) = {nu!r}, expected {want}"))
            except core.HarnessError:
                raise
            except Exception as e:  # noqa: BLE001
                out.append((f"C20|{comp}|{pos}_format:raises:{_exc(e)}", f"CryptContext({name}) on the {maker}-made {fmt} hash {hf!r}: {e!r}"))
    return out


FAR_COSTS = {"sha": (1000, 9999, 99_999_999, 100_000_000, 535_000_000, 999_999_999), "pbkdf2": (1, 9, 99_999_999, 100_000_000, 4294967295),
             "bcrypt": (4, 9, 10, 31)}


def eval_farcost(case):
    """costs up to the far end of the format's range, judged on well-formed STRINGS (no digest is computed): the
    libpass hasher identifies the string, its update check is False exactly for its own cost, the libpass context
    agrees, and passlib identifies the same string"""
    from libpass.context import CryptContext

    fmt, cost = case["fmt"], case["cost"]
    k = KIND[fmt]
    base = sample_hashes(fmt, "passlib", PW, case.get("seed", 0))
    if k == "sha":
        parts = base.split("$")
        s = "$".join(parts[:2] + [f"rounds={cost}"] + parts[-2:])
    elif k == "pbkdf2":
        parts = base.split("$")
        parts[2] = str(cost)
        s = "$".join(parts)
    elif fmt == "bcrypt":
        s = base[:4] + f"{cost:02d}" + base[6:]
    else:
        parts = base.split("$")
        parts[2] = ",".join(f"r={cost}" if x.startswith("r=") else x for x in parts[2].split(","))
        s = "$".join(parts)
    out = []
    key = f"C20|{fmt}|farcost:"
    for form, arg in (("str", s), ("bytes", s.encode("ascii"))):
        try:
            if HS.handler(fmt).identify(arg) is not True:
                return []  # (not a string passlib recognises: nothing to compare)
            lp = lp_hasher(fmt, cost)
            if lp.identify(arg) is not True:
                out.append((key + f"identify:own_format_rejected:{form}", f"libpass {fmt} hasher does not identify the well-formed string {arg!r} (cost {cost})"))
            if lp.needs_update(arg) is not False:
                out.append((key + f"needs_update:own_cost:true:{form}", f"libpass {fmt}(cost {cost}).needs_update({arg!r}) is not False"))
            other = lp_hasher(fmt, BASE_ROUNDS[k] if cost != BASE_ROUNDS[k] else BASE_ROUNDS[k] + 1)
            if other.needs_update(arg) is not True:
                out.append((key + f"needs_update:other_cost:false:{form}", f"libpass {fmt}(another cost).needs_update({arg!r}) is not True"))
            if form == "str" and CryptContext([lp]).needs_update(arg) is not False:
                out.append((key + "context:needs_update:first_format:true", f"libpass CryptContext([{fmt}]).needs_update({arg!r}) is not False"))
        except Exception as e:  # noqa: BLE001
            out.append((key + f"raises:{_exc(e)}:{form}", f"{fmt} cost {cost} ({arg!r}): raised {e!r}"))
    return out


def eval_salt_cost(case):
    """bcrypt family: the salt argument of the libpass hashers is a complete bcrypt salt, which carries a cost of its own.
    Whatever cost the hasher object was built with, the string that comes back states the cost the digest was computed
    with: it verifies under both APIs, and the update check is True exactly when that cost is not the hasher's"""
    import re

    fmt, p, salt, R, SC = case["fmt"], case["password"], case["salt"], case["rounds"], case["salt_cost"]
    out = []
    lp = lp_hasher(fmt, R)
    try:
        h = lp.hash(p, salt=lp_salt_arg(fmt, salt, SC))
    except (ValueError, TypeError):
        return out  # refusing a salt of another cost is a clean answer
    except Exception as e:  # noqa: BLE001
        return [(f"C20|{fmt}|salt_cost:hash_raises:{_exc(e)}", f"libpass {fmt}(rounds={R}).hash(salt of cost {SC}) raised {e!r}")]
    m = re.search(r"(?:\$2[aby]\$(\d\d)\$|[,$]r=(\d+)\$)", h)
    stated = int(m.group(1) or m.group(2)) if m else None
    for side in ("passlib", "libpass"):
        r = _verify(side, fmt, R, h, p)
        if r[0] == "exc" or r[1] is not True:
            out.append((f"C20|{fmt}|salt_cost:{side}_verify:own_password_rejected",
                        f"libpass {fmt}(rounds={R}).hash({p!r}, salt of cost {SC}) = {h!r} (states cost {stated}) does not verify under {side}: {r[1]!r}"))
        r = _verify(side, fmt, R, h, p + "x")
        if r[0] == "ok" and r[1] is not False:
            out.append((f"C20|{fmt}|salt_cost:{side}_verify:wrong_password_accepted", f"{side} verifies a wrong password against {h!r}"))
    try:
        nu = lp.needs_update(h)
        if stated is not None and bool(nu) != (stated != R):
            out.append((f"C20|{fmt}|salt_cost:needs_update:{'true' if nu else 'false'}",
                        f"libpass {fmt}(rounds={R}).needs_update({h!r}) = {nu!r}; the string states cost {stated}"))
    except Exception as e:  # noqa: BLE001
        out.append((f"C20|{fmt}|salt_cost:needs_update:raises:{_exc(e)}", f"needs_update({h!r}) raised {e!r}"))
    return out


FOREIGN_SALTS = ("sa!t", "a b", "user:realm", "tab\there", "sixteen-chars-16", "=", "é", "日本")


def eval_foreign_salt(case):
    """a salt outside the crypt alphabet ./0-9A-Za-z (which the classic hasher's parser insists on): the libpass hasher
    refuses it (ValueError), or else the hash it makes is a hash of the shared format -- it verifies on both sides"""
    fmt, p, salt, rounds = case["fmt"], case["password"], case["salt"], case["rounds"]
    lp = lp_hasher(fmt, rounds)
    out = []
    for form, sv in (("text", salt), ("bytes", salt.encode("utf-8"))):
        try:
            h = lp.hash(p, salt=sv)
        except ValueError:
            continue
        except Exception as e:  # noqa: BLE001
            out.append((f"C20|{fmt}|foreign_salt:libpass_hash:raises:{_exc(e)}", f"libpass {fmt} hash(salt={sv!r}) raised {e!r}"))
            continue
        for side in ("libpass", "passlib"):
            r = _verify(side, fmt, rounds, h, p)
            if r[0] == "exc":
                out.append((f"C20|{fmt}|foreign_salt:{side}_verify:raises:{_exc(r[1])}", f"libpass {fmt} hash({p!r}, salt={sv!r}) = {h!r}; {side} verify raised {r[1]!r}"))
            elif r[1] is not True:
                out.append((f"C20|{fmt}|foreign_salt:{side}_verify:own_password_rejected", f"libpass {fmt} hash({p!r}, salt={sv!r}) = {h!r} does not verify under {side}"))
    return out


def eval_bsha_prefix(case):
    """bcrypt-sha256 made from a salt string that carries another bcrypt prefix ($2a$ / $2y$: the same function): the
    libpass hasher refuses it (ValueError), or else what it writes is a hash of the shared format (which names 2b only)"""
    p, salt, rounds, pre = case["password"], case["salt"], case["rounds"], case["prefix"]
    lp = lp_hasher("bcrypt_sha256", rounds)
    out = []
    try:
        h = lp.hash(p, salt=b"$" + pre.encode() + b"$%02d$" % rounds + salt.encode("ascii"))
    except ValueError:
        return out
    except Exception as e:  # noqa: BLE001
        return [(f"C20|bcrypt_sha256|salt_prefix:{pre}:hash_raises:{_exc(e)}", f"libpass bcrypt_sha256 hash(salt='${pre}$...') raised {e!r}")]
    for side in ("libpass", "passlib"):
        r = _verify(side, "bcrypt_sha256", rounds, h, p)
        if r[0] == "exc":
            out.append((f"C20|bcrypt_sha256|salt_prefix:{pre}:{side}_verify:raises:{_exc(r[1])}", f"libpass bcrypt_sha256 hash({p!r}, salt='${pre}$..') = {h!r}; {side} verify raised {r[1]!r}"))
        elif r[1] is not True:
            out.append((f"C20|bcrypt_sha256|salt_prefix:{pre}:{side}_verify:own_password_rejected", f"libpass bcrypt_sha256 hash({p!r}, salt='${pre}$..') = {h!r} does not verify under {side}"))
    return out


EVALS = {"bsha_prefix": eval_bsha_prefix, "foreign_salt": eval_foreign_salt, "salt_cost": eval_salt_cost, "interop": eval_interop, "fresh": eval_fresh, "identify": eval_identify, "context": eval_context, "farcost": eval_farcost}


def replay(case):
    return EVALS[case["part"]](case)


# ---------------------------------------------------------------------------
# enumeration
# ---------------------------------------------------------------------------
def passwords(fmt, quick, seed):
    """[(class label, value)]"""
    out = []
    for L in HS.lengths(quick):
        if KIND[fmt] == "bcrypt" and L > 72:
            continue
        for label, v in HS.password_contents(L, seed):
            if b"\x00" in HS.to_bytes(v):
                continue
            out.append((f"L{L}:{label}", v))
    return out


def few_passwords(fmt, seed):
    return [("L0:empty", ""), ("L8:ascii_mixed", dict(HS.password_contents(8, seed))["ascii_mixed"]),
            ("L17:bytes_walk", dict(HS.password_contents(17, seed))["bytes_walk"]),
            ("L64:utf8_3byte", dict(HS.password_contents(64, seed))["utf8_3byte"])]


def salts_for(fmt, quick, seed):
    """[(class label, salt)]; first = base salt"""
    k = KIND[fmt]
    if k == "sha":
        return [(f"size{n}", HS.make_salt("sha256_crypt", n, seed, n)) for n in (16,) + tuple(range(1, 16))]
    if k == "pbkdf2":
        out = []
        for n in (16, 1, 8, 32):
            out.append((f"size{n}", HS.filler(seed, n, b"c20salt%d" % n)))
            out.append((f"size{n}:walk", bytes((seed * 7 + n * 13 + i * 37 + 1) & 0xFF for i in range(n))))
        out.append(("size1:ff", b"\xff"))
        # every symbol of the adapted-base64 alphabet in the salt TEXT (incl. '.' = 62 and '/' = 63, the two that
        # differ from standard base64) at every alignment
        import base64

        out.append(("size48:whole_alphabet", base64.b64decode("ABCDEFGHIJKLMNOPQRSTUVWXYZabcdefghijklmnopqrstuvwxyz0123456789+/")))
        out.append(("size3:all_dots", b"\xfb\xef\xbe"))
        out.append(("size16:dots", (b"\xfb\xef\xbe" * 6)[:16]))
        out.append(("size16:slashes", b"\xff" * 16))
        out.append(("size16:zero_bytes", b"\x00" * 16))
        return out
    n = 8 if quick else 64
    return [(f"walk{v}", HS.make_salt("bcrypt", 22, seed, v)) for v in range(n)]


def rounds_for(fmt, quick):
    k = KIND[fmt]
    if k == "sha":
        # the round loop runs blocks of 42 and then a tail of (rounds % 42) rounds as pairs + one odd round:
        # quick = the costs around a block edge (1008 = 24 * 42: tails 0 1 2 3 / 40 41 / 0 1 again), thorough = every tail twice
        rs = (0, 8, 9, 10, 11, 48, 49, 50, 51, 85) if quick else range(86)
        return [1000 + r for r in rs] + [5000]
    if k == "pbkdf2":
        return [2, 1, 3, 4, 5, 6, 7, 8, 9, 10]
    return [4, 5]


def interop_cases(quick, seed):
    cases = []
    for fmt in FORMATS:
        k = KIND[fmt]
        pws = passwords(fmt, quick, seed)
        few = few_passwords(fmt, seed)
        salts = salts_for(fmt, quick, seed)
        rounds = rounds_for(fmt, quick)
        combos = []
        if k == "pbkdf2":
            for pl, p in pws:
                for sl, s in salts[:2] if quick else salts:
                    for r in rounds[:3] if quick else rounds[:4]:
                        combos.append((pl, p, sl, s, r))
            for pl, p in few if quick else few + pws[:: max(1, len(pws) // 24)]:
                for sl, s in salts:
                    for r in rounds:
                        combos.append((pl, p, sl, s, r))
        else:
            base_r = rounds[0]
            arms_r = [base_r, 5000] if k == "sha" else [base_r]
            for pl, p in pws:
                for r in arms_r:
                    for sl, s in (salts[:1] if quick else salts[:1] + salts[8:9]):
                        combos.append((pl, p, sl, s, r))
            pw_arm = few if quick else few + pws[:: max(1, len(pws) // 12)]
            for pl, p in pw_arm:
                for sl, s in salts:
                    for r in (arms_r if quick else rounds if k == "bcrypt" else arms_r + [1001, 1042]):
                        combos.append((pl, p, sl, s, r))
                for r in rounds:
                    for sl, s in salts[:2] + ([] if quick else salts[5:6]):
                        combos.append((pl, p, sl, s, r))
        seen = set()
        for pl, p, sl, s, r in combos:
            key = (pl, sl, r)
            if key in seen:
                continue
            seen.add(key)
            cases.append({"part": "interop", "fmt": fmt, "password": p, "salt": s, "rounds": r, "pclass": pl, "sclass": sl})
    return cases


def work(task):
    acc = Acc()
    for case in task["cases"]:
        part = case["part"]
        acc.ev()
        if part == "interop":
            acc.cls(part, case["fmt"], case["pclass"], case["sclass"], case["rounds"])
            acc.axis("format", case["fmt"])
            acc.axis("password_class", case["pclass"].split(":")[1])
            acc.axis("password_len", case["pclass"].split(":")[0])
            acc.axis(f"salt:{KIND[case['fmt']]}", case["sclass"])
            acc.axis(f"rounds:{KIND[case['fmt']]}", case["rounds"])
        elif part == "fresh":
            acc.cls(part, case["fmt"], case["pclass"], case["rounds"])
        elif part == "identify":
            acc.cls(part, case["fmt"], case["scheme"], case["n"])
            acc.axis("identify_scheme", case["scheme"])
        elif part == "farcost":
            acc.cls(part, case["fmt"], case["cost"])
        elif part == "foreign_salt":
            acc.cls(part, case["fmt"], case["salt"], case["rounds"])
        elif part == "bsha_prefix":
            acc.cls(part, case["prefix"], case["rounds"], case["salt"][:2])
        elif part == "salt_cost":
            acc.cls(part, case["fmt"], case["rounds"], case["salt_cost"], case["salt"][:2])
            acc.axis("salt_cost_vs_hasher", "equal" if case["rounds"] == case["salt_cost"] else "lower" if case["salt_cost"] < case["rounds"] else "higher")
        else:
            acc.cls(part, ">".join(case["schemes"]), case.get("derive"))
            acc.axis("context_size", len(case["schemes"]))
        acc.axis("part", part)
        vs = EVALS[part](case)
        acc.outcome((part, "viol" if vs else "ok"))
        for key, desc in vs:
            acc.violation(key, desc, case)
        if acc.evaluations % 211 == 1:
            acc.sample(case)
    return acc


def run(ctx):
    seed = ctx.seed
    cases = interop_cases(ctx.quick, seed)
    n_inter = len(cases)
    # fresh
    for fmt in FORMATS:
        for pl, p in few_passwords(fmt, seed):
            for r in rounds_for(fmt, True)[:3]:
                cases.append({"part": "fresh", "fmt": fmt, "password": p, "rounds": r, "pclass": pl, "seed": seed})
        # the default-configured hasher (no cost given: production cost), one password
        pl, p = few_passwords(fmt, seed)[1]
        cases.append({"part": "fresh", "fmt": fmt, "password": p, "rounds": None, "pclass": pl, "seed": seed})
    # identify matrix: sample hashes made here (self-contained cases carry the hash)
    n_id = 0
    with env.scripted_rng(FillerRng(seed)):
        for name in HS.usable_names():
            # the statement quantifies over non-empty salts only
            grid = [kw for kw in HS.settings_grid(name, True, seed) if kw.get("salt") not in ("", b"")]
            if ctx.quick:
                idx = sorted({0, len(grid) - 1} | {i for i, kw in enumerate(grid) if i and (kw.get("ident") != grid[i - 1].get("ident") or kw.get("version") != grid[i - 1].get("version"))})
            else:
                idx = range(len(grid))
            ck = HS.ctx_grid(name)[0]
            for i in idx:
                kw = grid[i]
                try:
                    h = (HS.handler(name).using(**kw) if kw else HS.handler(name)).hash(PW, **ck)
                except Exception:  # noqa: BLE001
                    continue
                if isinstance(h, bytes):
                    h = h.decode("latin-1")
                for fmt in FORMATS:
                    cases.append({"part": "identify", "fmt": fmt, "scheme": name, "hash": h, "settings": kw, "password": PW, "n": i})
                    n_id += 1
    for fmt in ("bcrypt", "bcrypt_sha256"):
        for R in (4, 5, 6):
            for SC in (4, 5, 6):
                for v in range(2):
                    cases.append({"part": "salt_cost", "fmt": fmt, "password": PW, "salt": HS.make_salt("bcrypt", 22, seed, v), "rounds": R, "salt_cost": SC})
    n_ctx = 0
    for n in (1, 2, 3):
        for lst in itertools.permutations(FORMATS, n):
            cases.append({"part": "context", "schemes": list(lst), "seed": seed})
            n_ctx += 1
    for f in FORMATS:
        for cost in FAR_COSTS[KIND[f]]:
            cases.append({"part": "farcost", "fmt": f, "cost": cost, "seed": seed})
    for pre in ("2a", "2y", "2b"):
        for R in (4, 5):
            for v in range(2):
                cases.append({"part": "bsha_prefix", "password": PW, "salt": HS.make_salt("bcrypt", 22, seed, v), "rounds": R, "prefix": pre})
    for f in FORMATS:
        if KIND[f] == "sha":
            for salt in FOREIGN_SALTS:
                for r in (1000, 5000):
                    cases.append({"part": "foreign_salt", "fmt": f, "password": PW, "salt": salt, "rounds": r})
    # lists naming the same format twice (two costs of one format; with and without another format in between)
    for f in FORMATS:
        g = FORMATS[(FORMATS.index(f) + 1) % len(FORMATS)]
        # ... and the very same hasher OBJECT listed twice ([f, f], [f, g, f]: a list assembled from two sources)
        for lst in ([f, f + "@1"], [f + "@1", f], [f, g, f + "@1"], [g, f, f + "@1"], [f, f], [f, g, f], [g, f, f]):
            cases.append({"part": "context", "schemes": lst, "seed": seed})
            n_ctx += 1
    # copies of a context (deep copy / shallow copy / pickle round trip), taken before and after the original was used
    for n in (2, 3):
        for lst in list(itertools.permutations(FORMATS, n))[:: (7 if n == 3 else 3)]:
            for derive in ("deepcopy_used", "pickle_used", "copy_used", "deepcopy_fresh", "pickle_fresh"):
                cases.append({"part": "context", "schemes": list(lst), "seed": seed, "derive": derive})
                n_ctx += 1
    ctx.log(f"{n_inter} interop cases, {n_id} identify cells, {n_ctx} context lists, {len(cases) - n_inter - n_id - n_ctx} fresh")
    shards = [cases[i::320] for i in range(320)]
    acc = core.pmap(work, [{"cases": s} for s in shards if s])
    ctx.merge(acc)
    ctx.assume("bcrypt-sha256 version 1 strings and bcrypt idents $2$ / $2x$ are legacy variants the libpass API does not claim: not judged")
    ctx.assume("passlib-made bcrypt hashes use ident 2b; cost axis: sha-crypt rounds, pbkdf2 rounds, bcrypt log2 cost")
    ctx.assume("bcrypt.gensalt() inside the libpass bcrypt hashers draws from os.urandom in the bcrypt wheel (not owned); only the 'fresh' part uses it")
    ctx.assume("a passlib-made hash of the same format and cost is not demanded to be 'fresh' for the libpass update check; only libpass-made ones are")
