"""C13 -- one-time codes follow RFC 4226 / RFC 6238.

Bounded-exhaustive product (engine E1) over the real ``passlib.totp.TOTP``:

* part ``generate``: keys (one per length) x {sha1,sha256,sha512} x digits 6..10 x periods x
  times {k*period + {-1,0,+1} : k in {0,1,2, 2^31//p, 2^32//p, 2^40//p}} (negative times dropped)
  x time given as int / float (.0, .75) / naive datetime (with and without microseconds) /
  aware datetime (UTC, +05:30, -08:00) / ``None`` with the class clock (``TOTP.using(now=...)``)
  pinned to that instant.  Datetimes exist only up to year 9999, so the 2^40 range is driven by
  int / float / pinned-clock forms only.
* part ``sweep``: every counter 0..4095 (thorough 0..65535) x algs x digits; the run *asserts* (harness
  error otherwise) that every dynamic-truncation offset 0..15, a leading-zero token and a 31-bit value
  >= 10^9 occurred for every (alg, digits) in that sweep.
* part ``objects``: every ordered pair and triple of 8 object configurations (2 keys x 3 algorithms, + other digits /
  period on the first key) alive in one process: each generates the RFC value of its own key and settings.
* part ``tz``: the generate product again under five PROCESS time zones (TZ + tzset): naive date-times are UTC by
  documentation, aware ones carry their own zone, numbers have none.
* part ``history``: one live object x every history (depth <= 3, thorough 4) of generate() calls and key
  re-assignments through the public ``key`` setter; after each step the token is the RFC value of the reported key.
* part ``keytext``: every single-position decoration (blank, dash inserted; one letter lower-cased /
  upper-cased) of the base32 and hex renderings of every key, '=' padding, all-lower / all-upper,
  grouped forms, str and ASCII bytes -- all must denote the same key; ``base32_key`` / ``hex_key`` /
  ``pretty_key`` must equal the stdlib renderings and read back.

Oracle: mc.refs.totp_ref (RFC 4226 truncation over stdlib hmac); counter = floor(time/period);
token is a str of exactly ``digits`` ASCII digits; start_time = counter*period,
expire_time = (counter+1)*period.
"""
from __future__ import annotations

import base64
import datetime as dt
import hashlib
import warnings

from mc import core
from mc.core import Acc, HarnessError
from mc.refs import totp_ref as R

ID = "C13"
LEVEL = "exploration"
RULE = (
    "full cartesian product key(one per length) x alg x digits 6..10 x period x time(k*period+{-1,0,1}, k in "
    "{0,1,2,2^31//p,2^32//p,2^40//p}; thorough: all key lengths 1..64, and every period 1..3601 + 86400 for 3 key sizes) x time form (int, 2 floats, naive/naive+us/3 aware datetimes, pinned class clock); "
    "plus every counter 0..4095 (thorough 0..65535) x alg x digits; plus every single-position decoration of the "
    "base32/hex key text. A case is non-trivial when TOTP.generate()/TOTP() really ran on it; distinct class = "
    "part|alg|digits|period|key length|time range|offset-in-period|time form (generate), alg|digits|truncation "
    "offset|leading-zero|>=10^9 (sweep), rendering|decoration|key length|position (keytext)"
)

ALGS = R.ALGS
DIGITS = (6, 7, 8, 9, 10)
KEYLENS_Q = (1, 2, 9, 10, 16, 19, 20, 21, 32, 63, 64)
PERIODS_Q = (1, 2, 3, 29, 30, 31, 59, 60, 3600)
BASES = (("k0", 0), ("k1", 1), ("k2", 2), ("2^31", 2**31), ("2^32", 2**32), ("2^35", 2**35), ("2^37", 2**37), ("2^40", 2**40))  # 2^35 = year 3058, 2^37 = year 6325: date-times whose seconds need more than 34 bits (float microseconds run out)
FORMS = ("int", "float", "float.75", "naive", "naive_us", "aware_utc", "aware+0530", "aware-0800", "clock")
DT_MAX = 253402300799  # 9999-12-31T23:59:59Z
EPOCH = dt.datetime(1970, 1, 1)
EPOCH_UTC = dt.datetime(1970, 1, 1, tzinfo=dt.timezone.utc)
PINNED = 1_000_000_007  # what the class clock says unless a case pins it elsewhere


def filler(seed, n, salt=b""):
    out = b""
    i = 0
    while len(out) < n:
        out += hashlib.sha256(b"C13:%d:%d:" % (seed, i) + salt).digest()
        i += 1
    return out[:n]


def make_key(seed, n):
    return filler(seed, n, b"key%d" % n)


_CLOCK = [PINNED]
_BASE = None


def base_cls():
    """TOTP subclass whose clock is owned by the harness (never the wall clock)"""
    global _BASE
    if _BASE is None:
        from passlib.totp import TOTP

        warnings.simplefilter("ignore")  # short keys warn (PasslibSecurityWarning); not our subject
        _BASE = TOTP.using(now=lambda: _CLOCK[0])
    return _BASE


def time_value(t, form):
    """the python object handed to generate() for instant t under `form` (None = not representable)"""
    if form == "int":
        return t
    if form == "float":
        return float(t)
    if form == "float.75":
        return t + 0.75
    if form == "clock":
        return None
    if t > DT_MAX:
        return False
    if form == "naive":
        return EPOCH + dt.timedelta(seconds=t)
    if form == "naive_us":
        return EPOCH + dt.timedelta(seconds=t, microseconds=999999)
    if form == "aware_utc":
        return EPOCH_UTC + dt.timedelta(seconds=t)
    if form == "aware+0530":
        return (EPOCH_UTC + dt.timedelta(seconds=t)).astimezone(dt.timezone(dt.timedelta(hours=5, minutes=30)))
    if form == "aware-0800":
        return (EPOCH_UTC + dt.timedelta(seconds=t, microseconds=500000)).astimezone(dt.timezone(dt.timedelta(hours=-8)))
    raise HarnessError(f"unknown time form {form}")


def trange(t):
    for name, lim in (("2^40", 2**40 - 10**6), ("2^32", 2**32 - 10**6), ("2^31", 2**31 - 10**6)):
        if t >= lim:
            return name
    return "small"


# ---------------------------------------------------------------------------
# single-case evaluators (also used by replay)
# ---------------------------------------------------------------------------
PROCESS_ZONES = ("UTC0", "EST5EDT,M3.2.0,M11.1.0", "JST-9", "IST-5:30", "NZST-12NZDT,M9.5.0,M4.1.0/3")


def eval_generate(case, obj=None):
    tz = case.get("tz")
    if tz:
        # the same instant under another PROCESS time zone (TZ + tzset): date-times without a zone are documented
        # to be taken as UTC, whatever the local zone of the process is
        import os
        import time as _time

        old = os.environ.get("TZ")
        os.environ["TZ"] = tz
        _time.tzset()
        try:
            found = eval_generate({k: v for k, v in case.items() if k != "tz"}, obj)
        finally:
            if old is None:
                os.environ.pop("TZ", None)
            else:
                os.environ["TZ"] = old
            _time.tzset()
        return [(k.replace("C13|generate|", "C13|generate_process_tz|"), f"[process TZ={tz}] {d}") for k, d in found]
    key, alg, digits, period, t, form = (case[k] for k in ("key", "alg", "digits", "period", "t", "form"))
    if obj is None:
        obj = base_cls()(key, format="raw", alg=alg, digits=digits, period=period)
    tv = time_value(t, form)
    if tv is False:
        return []
    _CLOCK[0] = t + 0.25 if form == "clock" else PINNED
    tag = f"form={form}:{trange(t)}"
    try:
        tok = obj.generate(tv)
        token, counter, start, expire = tok.token, tok.counter, tok.start_time, tok.expire_time
        as_tuple = tuple(tok)
    except Exception as e:  # noqa: BLE001
        return [(f"C13|generate|raises:{type(e).__name__}:{tag}", f"generate({tv!r}) [t={t}] raised {e!r}")]
    finally:
        _CLOCK[0] = PINNED
    out = []
    want_counter = R.time_counter(t, period)
    if counter != want_counter or type(counter) is not int:
        out.append((f"C13|generate|counter:{tag}", f"generate({tv!r}) period={period}: counter {counter!r}, floor(t/period) = {want_counter}"))
    if not isinstance(token, str) or len(token) != digits or not (token.isascii() and token.isdigit()):
        out.append((f"C13|generate|token_format:digits={digits}", f"token {token!r} is not a string of exactly {digits} decimal digits"))
    ref_c = counter if isinstance(counter, int) and counter >= 0 else want_counter
    want = R.hotp(key, ref_c, digits, alg)
    if token != want:
        out.append((f"C13|generate|token_value:alg={alg}:digits={digits}",
                    f"key={key.hex()} counter={ref_c}: token {token!r}, RFC 4226 value {want!r} "
                    f"(31-bit value {R.hotp_value(key, ref_c, alg)[0]}, offset {R.hotp_value(key, ref_c, alg)[1]})"))
    if isinstance(counter, int):
        if start != counter * period:
            out.append((f"C13|generate|start_time:{trange(t)}", f"start_time {start!r} != counter*period = {counter * period}"))
        if expire != (counter + 1) * period:
            out.append((f"C13|generate|expire_time:{trange(t)}", f"expire_time {expire!r} != (counter+1)*period = {(counter + 1) * period}"))
    if as_tuple != (token, expire):
        out.append(("C13|generate|as_tuple", f"tuple(TotpToken) = {as_tuple!r}, expected (token, expire_time) = {(token, expire)!r}"))
    if isinstance(counter, int) and not out:
        # the reported validity interval is [start_time, expire_time): `remaining` / `valid` read against the class clock
        lo, hi = counter * period, (counter + 1) * period
        try:
            _CLOCK[0] = -12345.5
            if obj.now() == -12345.5:
                for clock, wrem in ((lo, period), (hi - 1, 1), (hi - 0.5, 0.5), (hi, 0), (hi + 1, 0), (hi + period, 0)):
                    if clock < 0:
                        continue
                    _CLOCK[0] = clock
                    rem, valid = tok.remaining, tok.valid
                    if rem != wrem or valid is not (wrem > 0):
                        where = "start" if clock == lo else "end" if clock == hi else "inside" if clock < hi else "after"
                        out.append((f"C13|generate|validity_at_{where}",
                                    f"token of the interval [{lo}, {hi}) (period {period}) read at clock {clock}: remaining = {rem!r}, valid = {valid!r}; "
                                    f"expected remaining {wrem}, valid {wrem > 0}"))
                        break
        except Exception as e:  # noqa: BLE001
            out.append((f"C13|generate|validity:raises:{type(e).__name__}", f"TotpToken.remaining / .valid raised {e!r}"))
        finally:
            _CLOCK[0] = PINNED
    return out


def eval_keytext(case):
    """decorated key text denotes `key`"""
    key, fmt, text, deco = case["key"], case["format"], case["text"], case["deco"]
    cls = base_cls()
    kw = {} if case.get("default_format") else {"format": fmt}
    try:
        got = cls(text, **kw).key
    except Exception as e:  # noqa: BLE001
        return [(f"C13|key_text|{fmt}:{deco}:raises:{type(e).__name__}", f"TOTP({text!r}, format={fmt!r}) raised {e!r}; denotes key {key.hex()}")]
    if got != key:
        return [(f"C13|key_text|{fmt}:{deco}:wrong_key", f"TOTP({text!r}, format={fmt!r}).key = {got.hex() if isinstance(got, bytes) else got!r}, expected {key.hex()}")]
    return []


def eval_render(case):
    """base32_key / hex_key / pretty_key are the stdlib renderings and read back to the same key"""
    key = case["key"]
    cls = base_cls()
    out = []
    try:
        o = cls(key, format="raw")
        if o.key != key:
            out.append(("C13|key_text|raw:wrong_key", f"TOTP(raw).key = {o.key!r}"))
        b32 = base64.b32encode(key).decode().rstrip("=")
        if o.base32_key != b32:
            out.append(("C13|key_render|base32_key", f"base32_key = {o.base32_key!r}, stdlib {b32!r}"))
        if o.hex_key != key.hex():
            out.append(("C13|key_render|hex_key", f"hex_key = {o.hex_key!r}, expected {key.hex()!r}"))
        for fmt, plain in (("base32", b32), ("hex", key.hex())):
            for sep in ("-", " ", False):
                p = o.pretty_key(format=fmt, sep=sep)
                stripped = p.replace(sep, "") if sep else p
                if stripped != plain or (sep and len(plain) > 6 and sep not in p):
                    out.append((f"C13|key_render|pretty_key:{fmt}", f"pretty_key({fmt!r}, {sep!r}) = {p!r} is not a grouping of {plain!r}"))
                back = cls(p, format=fmt).key
                if back != key:
                    out.append((f"C13|key_render|pretty_key:{fmt}:readback", f"TOTP(pretty_key({fmt!r},{sep!r}) = {p!r}).key = {back.hex()}, expected {key.hex()}"))
    except Exception as e:  # noqa: BLE001
        out.append((f"C13|key_render|raises:{type(e).__name__}", f"rendering key {key.hex()} raised {e!r}"))
    return out


HIST_EVENTS = (("gen", 0), ("gen", 59), ("gen", 1111111109), ("setkey", 0), ("setkey", 1), ("setkey", 2))


def eval_history(case):
    """one live object, a history of generate() calls and key re-assignments through the public `key` setter:
    after every step the object generates the RFC value for the key it REPORTS (nothing derived from an earlier
    key may survive the assignment)"""
    keys, alg, digits, period = case["keys"], case["alg"], case["digits"], case["period"]
    out = []
    try:
        obj = base_cls()(keys[0], format="raw", alg=alg, digits=digits, period=period)
        for i, (kind, arg) in enumerate(case["history"]):
            if kind == "setkey":
                obj.key = keys[arg]
                t = 30
            else:
                t = arg
            cur = obj.key
            tok = obj.generate(t)
            want = R.hotp(cur, R.time_counter(t, period), digits, alg)
            if tok.token != want:
                prev = [f"{k}:{a}" for k, a in case["history"][: i + 1]]
                out.append((f"C13|history|token_after_{kind}:alg={alg}",
                            f"history {prev}: object reports key {cur.hex()} but generate({t}) = {tok.token!r}; RFC value for that key is {want!r}"))
                break
            if obj.hex_key != cur.hex():
                out.append(("C13|history|hex_key_stale", f"hex_key {obj.hex_key!r} does not render the current key {cur.hex()}"))
                break
    except Exception as e:  # noqa: BLE001
        out.append((f"C13|history|raises:{type(e).__name__}", f"history {case['history']} raised {e!r}"))
    return out


def eval_objects(case):
    """several TOTP objects alive in one process (same key under different algorithms / digit counts / periods,
    different keys under the same algorithm), used in the given order: every object generates the RFC value for
    ITS key and ITS settings, whatever other objects did before"""
    keys = case["keys"]
    out = []
    try:
        objs = []
        for ki, alg, digits, period in case["configs"]:
            objs.append((base_cls()(keys[ki], format="raw", alg=alg, digits=digits, period=period), keys[ki], alg, digits, period))
        for rnd, t in enumerate((59, 1111111109)):
            for i, (o, key, alg, digits, period) in enumerate(objs):
                tok = o.generate(t)
                want = R.hotp(key, R.time_counter(t, period), digits, alg)
                if tok.token != want:
                    out.append((f"C13|objects|token_depends_on_other_objects:alg={alg}",
                                f"objects {case['configs']} used in this order: object {i} (key {key.hex()}, {alg}, {digits} digits, period {period}) "
                                f"generate({t}) = {tok.token!r}, RFC value {want!r}"))
                    return out
    except Exception as e:  # noqa: BLE001
        out.append((f"C13|objects|raises:{type(e).__name__}", f"objects {case['configs']} raised {e!r}"))
    return out


def eval_factories(case):
    """customised classes made with using(alg= / digits= / period=) in the given order, then objects of the FIRST
    factory, of the last one and of the class they were derived from: each object computes with the settings of
    its own class (the parent keeps its defaults, an earlier factory is not changed by a later one)"""
    key = case["key"]
    out = []
    try:
        base = base_cls()
        mode = case.get("mode", "siblings")
        if mode == "subclass":
            # an application subclass with its own class-level defaults, customised further with using()
            base = type("SiteTOTP", (base,), {"digits": 9, "period": 45})
        base_set = (base.alg, base.digits, base.period)
        made = []
        cur, acc_opts = base, {}
        for opts in case["using"]:
            if mode == "chained":
                # each factory derived from the previous one: it inherits what the earlier calls configured
                cur = cur.using(**opts)
                acc_opts = dict(acc_opts, **opts)
                made.append((cur, dict(acc_opts)))
            else:
                made.append((base.using(**opts), opts))
        checks = [(base, base_set, "parent class")]
        for F, opts in made:
            want = (opts.get("alg", base_set[0]), int(opts.get("digits", base_set[1])), int(opts.get("period", base_set[2])))
            checks.append((F, want, f"factory using({opts})" + (" [accumulated over the chain]" if mode == "chained" else " [on an application subclass with digits=9, period=45]" if mode == "subclass" else "")))
            if not issubclass(F, base):
                out.append(("C13|factories|not_a_subclass", f"using() sequence {case['using']} ({mode}): the factory is not a subclass of the class using() was called on"))
                return out
        for cls_, (alg, digits, period), who in checks:
            o = cls_(key, format="raw")
            for t in (59, 1111111109):
                tok = o.generate(t)
                want = R.hotp(key, R.time_counter(t, period), digits, alg)
                if tok.token != want or (o.alg, o.digits, o.period) != (alg, digits, period):
                    out.append((f"C13|factories|settings_leak:{'parent' if who == 'parent class' else 'factory'}",
                                f"after using() calls {case['using']}: an object of the {who} has (alg, digits, period) = {(o.alg, o.digits, o.period)}, expected {(alg, digits, period)}; "
                                f"generate({t}) = {tok.token!r}, RFC value for the expected settings {want!r}"))
                    return out
    except Exception as e:  # noqa: BLE001
        out.append((f"C13|factories|raises:{type(e).__name__}", f"using() sequence {case['using']} raised {e!r}"))
    return out


EVALS = {"generate": eval_generate, "keytext": eval_keytext, "render": eval_render, "history": eval_history, "objects": eval_objects,
         "factories": eval_factories}


def eval_edge_key(case):
    key, alg = case["key"], case["alg"]
    obj = base_cls()(key, format="raw", alg=alg, digits=6, period=30)
    if obj.key != key:
        return [("C13|key|raw_key_altered", f"TOTP({key!r}, format='raw').key = {obj.key!r}")]
    return []


def replay(case):
    if case.get("kind") == "edge_key":
        return eval_edge_key(case)
    bad = R.self_check()
    if bad:
        raise HarnessError(f"totp reference fails its own vectors: {bad}")
    return EVALS[case["kind"]](case)


# ---------------------------------------------------------------------------
# enumeration
# ---------------------------------------------------------------------------
def times_for(period):
    out = []
    for name, base in BASES:
        k = base if name.startswith("k") else base // period
        for d in (-1, 0, 1):
            t = k * period + d
            if t >= 0:
                out.append((name, d, t))
    return out


def decorations(fmt, plain):
    """(deco, pos, text) for every single-position decoration of the canonical rendering"""
    n = len(plain)
    for ch, name in ((" ", "insert_blank"), ("-", "insert_dash")):
        for pos in range(n + 1):
            yield name, pos, plain[:pos] + ch + plain[pos:]
    flip = str.lower if fmt == "base32" else str.upper
    which = "lower_one" if fmt == "base32" else "upper_one"
    for pos in range(n):
        # (a digit has no other case: the case is then the plain rendering; kept so that the seed never changes the case count)
        yield which, pos, plain[:pos] + flip(plain[pos]) + plain[pos + 1 :]
    yield "lower_all", 0, plain.lower()
    yield "upper_all", 0, plain.upper()
    yield "grouped4_blank", 0, " ".join(plain[i : i + 4] for i in range(0, n, 4))
    yield "grouped4_dash_lower", 0, "-".join(plain[i : i + 4] for i in range(0, n, 4)).lower()
    yield "blank_everywhere", 0, " " + " ".join(plain) + " "
    if fmt == "base32":
        pad = "=" * (-n % 8)
        yield "pad_eq", len(pad), plain + pad
        yield "pad_eq_lower", len(pad), plain.lower() + pad
        yield "pad_eq_grouped", len(pad), "-".join(plain[i : i + 4] for i in range(0, n, 4)) + pad


def work(task):
    base_cls()
    acc = Acc()
    part = task["part"]
    seed = task["seed"]
    if part == "generate":
        n, alg = task["keylen"], task["alg"]
        coarse = task.get("coarse", False)
        key = make_key(seed, n)
        for digits in DIGITS:
            for period in task["periods"]:
                obj = base_cls()(key, format="raw", alg=alg, digits=digits, period=period)
                for name, d, t in times_for(period):
                    for form in FORMS:
                        if form not in ("int", "float", "float.75", "clock") and t > DT_MAX:
                            acc.count("datetime_forms_not_representable")
                            continue
                        case = {"kind": "generate", "key": key, "alg": alg, "digits": digits, "period": period, "t": t, "form": form}
                        acc.ev()
                        if coarse:
                            acc.cls("genB", alg, digits, period if period <= 121 else f"{period // 300 * 300}+", n, name, d, form)
                            acc.count("bulk_distinct_cases")
                        else:
                            acc.cls("gen", alg, digits, period, n, name, d, form)
                        found = eval_generate(case, obj)
                        for k, desc in found:
                            acc.violation(k, desc, case)
                        acc.outcome("violation" if found else f"ok:{name}:{form}")
                        if n == 20 and digits == 8 and period == 30 and d == -1 and (name, form) in (("2^32", "aware+0530"), ("2^40", "float.75"), ("k1", "naive_us")):
                            acc.sample(case)
                    acc.axis("time_base", name)
                acc.axis("period", period)
            acc.axis("digits", digits)
        acc.axis("alg", alg)
        acc.axis("key_len", n)
        for form in FORMS:
            acc.axis("time_form", form)
    elif part == "edge_keys":
        # raw keys are BYTES: a key that begins / ends with a byte some text cleaner would strip (blanks, line ends, NUL,
        # the padding and grouping characters of key TEXT) is that key, byte for byte
        alg = task["alg"]
        for n in (10, 20):
            body = make_key(seed, n)
            for b in (0x20, 0x09, 0x0A, 0x0B, 0x0C, 0x0D, 0x00, 0x3D, 0x2D, 0xA0, 0x85):
                for where, key in (("first", bytes([b]) + body[1:]), ("last", body[:-1] + bytes([b])), ("both", bytes([b]) + body[1:-1] + bytes([b]))):
                    obj = base_cls()(key, format="raw", alg=alg, digits=6, period=30)
                    acc.ev()
                    acc.cls("edge_key", alg, n, b, where)
                    if obj.key != key:
                        acc.violation("C13|key|raw_key_altered", f"TOTP({key!r}, format='raw').key = {obj.key!r}", {"kind": "edge_key", "key": key, "alg": alg})
                    for t in (59, 1111111109):
                        case = {"kind": "generate", "key": key, "alg": alg, "digits": 6, "period": 30, "t": t, "form": "int"}
                        for k, desc in eval_generate(case, obj):
                            acc.violation(k.replace("C13|generate|", "C13|generate_edge_key|"), desc, case)
        acc.axis("part", "edge_keys")
    elif part == "sweep":
        alg, digits, period = task["alg"], task["digits"], task["period"]
        key = make_key(seed, task["keylen"])
        obj = base_cls()(key, format="raw", alg=alg, digits=digits, period=period)
        generate = obj.generate
        for c in range(task["lo"], task["hi"]):
            value, offset = R.hotp_value(key, c, alg)
            want = R.hotp(key, c, digits, alg)
            lead0 = want[0] == "0"
            big = value >= 10**9
            acc.ev()
            acc.cls("sweep", alg, digits, offset, lead0, big)
            acc.axis("trunc_offset", offset)
            acc.count(f"offset:{alg}:{digits}:{offset}")
            if lead0:
                acc.count(f"leading_zero:{alg}:{digits}")
            if big:
                acc.count(f"value_ge_1e9:{alg}:{digits}")
            bad = False
            try:
                tok = generate(c * period + (c % period))
                bad = tok.token != want or tok.counter != c or tok.expire_time != (c + 1) * period
            except Exception:  # noqa: BLE001
                bad = True
            acc.outcome("violation" if bad else f"ok:sweep:offset{offset}:{'lead0' if lead0 else 'nz'}:{'ge1e9' if big else 'lt1e9'}")
            if bad:
                case = {"kind": "generate", "key": key, "alg": alg, "digits": digits, "period": period,
                        "t": c * period + (c % period), "form": "int"}
                for k, desc in eval_generate(case):
                    acc.violation(k, desc, case)
            if c == 4095:
                acc.sample({"kind": "generate", "key": key, "alg": alg, "digits": digits, "period": period, "t": c * period, "form": "int"})
        acc.count("sweep_counters", task["hi"] - task["lo"])
    elif part == "objects":
        import itertools

        keys = [make_key(seed, 20), make_key(seed + 1, 20)]
        cfgs = [(ki, alg, d, p) for ki in (0, 1) for alg in ALGS for d, p in ((6, 30),)] + [(0, "sha1", 8, 30), (0, "sha1", 6, 60)]
        for n in (2, 3) if task["depth"] >= 3 else (2,):
            for combo in itertools.permutations(cfgs, n):
                case = {"kind": "objects", "keys": keys, "configs": [list(c) for c in combo]}
                acc.ev()
                acc.cls("objects", "/".join(f"{k}{a}{d}{p}" for k, a, d, p in combo))
                found = eval_objects(case)
                for k, desc in found:
                    acc.violation(k, desc, case)
                acc.outcome("violation" if found else "ok:objects")
    elif part == "factories":
        import itertools

        key = make_key(seed, 20)
        opts = [{"alg": "sha256"}, {"alg": "sha512"}, {"alg": "sha1"}, {"digits": 8}, {"period": 60}, {"alg": "sha256", "digits": 7}]
        for n in (1, 2, 3):
            for seq in itertools.permutations(opts, n):
                for mode in ("siblings", "chained", "subclass"):
                    if mode == "chained" and n == 1:
                        continue
                    case = {"kind": "factories", "key": key, "using": [dict(o) for o in seq], "mode": mode}
                    acc.ev()
                    acc.cls("factories", mode, "/".join(",".join(f"{k}={v}" for k, v in o.items()) for o in seq))
                    found = eval_factories(case)
                    for k, desc in found:
                        acc.violation(k, desc, case)
                    acc.outcome("violation" if found else f"ok:factories:{mode}")
    elif part == "tz":
        alg = task["alg"]
        key = make_key(seed, 20)
        for tz in PROCESS_ZONES:
            for digits, period in ((6, 30), (8, 60), (10, 3600)):
                obj = base_cls()(key, format="raw", alg=alg, digits=digits, period=period)
                for name, d, t in times_for(period):
                    for form in FORMS:
                        if form == "clock" or (form not in ("int", "float", "float.75") and t > DT_MAX):
                            continue
                        case = {"kind": "generate", "key": key, "alg": alg, "digits": digits, "period": period, "t": t, "form": form, "tz": tz}
                        acc.ev()
                        acc.cls("tz", tz, alg, digits, period, name, d, form)
                        found = eval_generate(case, obj)
                        for k, desc in found:
                            acc.violation(k, desc, case)
                        acc.outcome("violation" if found else f"ok:tz:{form}")
            acc.axis("process_tz", tz)
    elif part == "history":
        import itertools

        alg = task["alg"]
        keys = [make_key(seed, 20), make_key(seed + 1, 20), make_key(seed + 2, 33)]
        for digits, period in ((6, 30), (8, 1)):
            for depth in range(1, task["depth"] + 1):
                for hist in itertools.product(HIST_EVENTS, repeat=depth):
                    case = {"kind": "history", "keys": keys, "alg": alg, "digits": digits, "period": period, "history": [list(h) for h in hist]}
                    acc.ev()
                    acc.cls("history", alg, digits, period, "/".join(f"{k}{a}" for k, a in hist))
                    found = eval_history(case)
                    for k, desc in found:
                        acc.violation(k, desc, case)
                    acc.outcome("violation" if found else "ok:history")
        acc.axis("history_depth", task["depth"])
    elif part == "keytext":
        n = task["keylen"]
        key = make_key(seed, n)
        case = {"kind": "render", "key": key}
        acc.ev()
        acc.cls("render", n)
        for k, desc in eval_render(case):
            acc.violation(k, desc, case)
        for fmt, plain in (("base32", base64.b32encode(key).decode().rstrip("=")), ("hex", key.hex())):
            for deco, pos, text in decorations(fmt, plain):
                for as_bytes in (False, True):
                    case = {"kind": "keytext", "key": key, "format": fmt, "deco": deco,
                            "text": text.encode("ascii") if as_bytes else text}
                    acc.ev()
                    acc.cls("keytext", fmt, deco, n, pos, as_bytes)
                    acc.axis("decoration", f"{fmt}:{deco}")
                    found = eval_keytext(case)
                    for k, desc in found:
                        acc.violation(k, desc, case)
                    acc.outcome("violation" if found else f"ok:keytext:{fmt}:{deco}")
                    if n == 10 and pos == 3 and not as_bytes:
                        acc.sample(case)
            # the constructor's default format is base32
            if fmt == "base32":
                case = {"kind": "keytext", "key": key, "format": fmt, "deco": "default_format", "text": plain.lower(), "default_format": True}
                acc.ev()
                acc.cls("keytext", fmt, "default_format", n)
                for k, desc in eval_keytext(case):
                    acc.violation(k, desc, case)
        acc.axis("key_len", n)
    else:
        raise HarnessError(f"unknown part {part}")
    return acc


def run(ctx):
    bad = R.self_check()
    if bad:
        raise HarnessError(f"totp reference fails its own vectors: {bad}")
    seed = ctx.seed
    keylens = KEYLENS_Q if ctx.quick else tuple(range(1, 65))
    top = 4096 if ctx.quick else 65536
    tasks = []
    for n in keylens:
        for alg in ALGS:
            tasks.append({"part": "generate", "keylen": n, "alg": alg, "periods": PERIODS_Q, "seed": seed})
    if not ctx.quick:
        # every period 1..3600 (+ a day) for three key sizes; classes are stored per period bucket, the
        # exact number of distinct (key, alg, digits, period, time, form) cases is counted in bulk_distinct_cases
        allp = [p for p in tuple(range(1, 3601)) + (3601, 86400) if p not in PERIODS_Q]
        for n in (10, 20, 64):
            for alg in ALGS:
                for i in range(0, len(allp), 150):
                    tasks.append({"part": "generate", "keylen": n, "alg": alg, "periods": allp[i : i + 150], "coarse": True, "seed": seed})
    sweep_keys = (20,) if ctx.quick else (10, 20, 64)
    for n in sweep_keys:
        for alg in ALGS:
            for digits in DIGITS:
                for lo in range(0, top, 4096):
                    tasks.append({"part": "sweep", "keylen": n, "alg": alg, "digits": digits, "period": 30 if n == 20 else 7,
                                  "lo": lo, "hi": lo + 4096, "seed": seed})
    for alg in ALGS:
        tasks.append({"part": "edge_keys", "alg": alg, "seed": seed})
    for n in keylens:
        tasks.append({"part": "keytext", "keylen": n, "seed": seed})
    tasks.append({"part": "objects", "depth": 3, "seed": seed})
    tasks.append({"part": "factories", "seed": seed})
    for alg in ALGS:
        tasks.append({"part": "tz", "alg": alg, "seed": seed})
    for alg in ALGS:
        tasks.append({"part": "history", "alg": alg, "depth": 3 if ctx.quick else 4, "seed": seed})
    ctx.log(f"{len(tasks)} shards")
    acc = core.pmap(work, tasks)
    ctx.merge(acc)
    if not ctx.quick:
        ctx.cov["bulk_enumerated_distinct_cases"] = acc.counters.get("bulk_distinct_cases", 0)
        ctx.cov["explanation"] = (
            "distinct_nontrivial counts stored class strings (the all-periods part stores one class per period "
            "bucket); bulk_enumerated_distinct_cases counts its cases, each a distinct (key, alg, digits, period, "
            "time, form) input by construction")
    # coverage obligations of the sweep: computed from the reference, asserted here
    missing = []
    for alg in ALGS:
        for digits in DIGITS:
            for off in range(16):
                if not acc.counters.get(f"offset:{alg}:{digits}:{off}"):
                    missing.append(f"offset {off} for {alg}/{digits}")
            if not acc.counters.get(f"leading_zero:{alg}:{digits}"):
                missing.append(f"leading-zero token for {alg}/{digits}")
            if not acc.counters.get(f"value_ge_1e9:{alg}:{digits}"):
                missing.append(f"31-bit value >= 10^9 for {alg}/{digits}")
    ctx.cov["sweep_obligations"] = {
        "all_16_truncation_offsets_per_alg_digits": not any("offset" in m for m in missing),
        "leading_zero_token_seen": sum(v for k, v in acc.counters.items() if k.startswith("leading_zero:")),
        "value_ge_1e9_seen": sum(v for k, v in acc.counters.items() if k.startswith("value_ge_1e9:")),
        "ten_digit_tokens_with_leading_zero": acc.counters.get("leading_zero:sha1:10", 0),
    }
    # keep the evidence file readable: fold the per-offset counters
    for k in [k for k in acc.counters if k.startswith(("offset:", "leading_zero:", "value_ge_1e9:"))]:
        del ctx.acc.counters[k]
    if missing:
        raise HarnessError(f"sweep did not reach: {missing[:6]} (choose another VERIF_SEED filler or widen the sweep)")
    ctx.assume("datetime inputs exist only up to year 9999 (< 2^38 s): the 2^40 time range is driven through int, float and the pinned class clock only")
    ctx.assume("negative timestamps are outside the property's quantifier (times 0..2^40) and are not enumerated")
    ctx.assume("one key per length, bytes derived from VERIF_SEED (filler); HMAC is trusted to be key-uniform (C11 checks the primitives)")
