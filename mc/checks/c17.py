"""C17 -- every shipped context recognises the hashes of each of its own schemes.

E1 product.  Parts:
  ctx       every exported ready-made context (passlib.apps: __all__ + every other documented CryptContext of the
            module namespace, passlib.hosts.__all__, passlib.apache.htpasswd_context, the passlib.ext.django presets)
            x every scheme it lists on this host x hashes made by that scheme (all idents / variants / rounds / salt
            sizes of mc.hashers.settings_grid, plus the hash the context's own configured copy of the scheme makes)
            x 2 passwords x context keywords  ->  identify() names that scheme, the password verifies, wrong
            passwords (incl. the hash text itself) do not, outside the documented equivalences.
  sample    identify-only for schemes without a backend on this host (argon2 family): fixed well-formed strings.
  registry  every registry name x first access path (registry / passlib.hash attribute / `from passlib.hash import` /
            upper-case and hyphen aliases / through a CryptContext), each in a FRESH interpreter: the hasher carries
            that name, registry and passlib.hash return the same object, everything loaded on the way is stored under
            its own name.
"""
from __future__ import annotations

import functools
import json
import os
import subprocess
import sys
import warnings

from mc import core, env
from mc import hashers as HS
from mc.core import Acc

warnings.filterwarnings("ignore")

ID = "C17"
LEVEL = "exploration"
RULE = (
    "product context x listed scheme x hash source (every settings_grid entry of the scheme through the plain hasher, "
    "+ the context's configured hasher) x password x context keywords; registry part: name x first-access path in a "
    "fresh interpreter; a case is non-trivial when a hash was really produced and put through context.identify / "
    "verify (or the registry was really queried in a fresh process); distinct class = "
    "part|context|scheme|settings index|password|keywords (registry: name|path)"
)

NUL_PASSWORD = "pw\x00C17"
PASSWORDS = ("pw-C17", "Pässwörd €17", "")  # the empty password is admissible: its plaintext "hash" is the empty string
CATCH_ALL = ("plaintext", "ldap_plaintext", "roundup_plaintext", "unix_disabled", "django_disabled")
DJANGO_PRESETS = ("passlib-default", "django-default", "django-latest", "django-1.0", "django-1.4", "django-1.6")
UNDOCUMENTED = ("master_context",)

#: well-formed strings of formats that cannot be hashed here (no backend): identify-only
STATIC_SAMPLES = {
    "argon2": [
        "$argon2i$v=19$m=512,t=2,p=2$c29tZXNhbHQ$SqlVijFGiPG+935vDSGEsA",
        "$argon2id$v=19$m=65536,t=3,p=4$c29tZXNhbHQ$GpZ3sK/oH9p7VIiV56G/64Zo/8GaUw434IimaPqxwCo",
        "$argon2d$v=19$m=512,t=2,p=2$c29tZXNhbHQ$SqlVijFGiPG+935vDSGEsA",
        "$argon2i$m=512,t=2,p=2$c29tZXNhbHQ$SqlVijFGiPG+935vDSGEsA",
    ],
    "django_argon2": [
        "argon2$argon2i$v=19$m=512,t=2,p=2$c29tZXNhbHQ$SqlVijFGiPG+935vDSGEsA",
        "argon2$argon2id$v=19$m=65536,t=3,p=4$c29tZXNhbHQ$GpZ3sK/oH9p7VIiV56G/64Zo/8GaUw434IimaPqxwCo",
        # every type variant the scheme can make (using(type='D')), and the version-less (v=0x10) form
        "argon2$argon2d$v=19$m=512,t=2,p=2$c29tZXNhbHQ$SqlVijFGiPG+935vDSGEsA",
        "argon2$argon2i$m=512,t=2,p=2$c29tZXNhbHQ$SqlVijFGiPG+935vDSGEsA",
    ],
}


class FillerRng(env.ScriptedRng):
    def __init__(self, seed):
        super().__init__()
        self.seed = seed

    def _answer(self, kind, size):
        i = len(self.log)
        self.log.append((kind, size))
        return ((self.seed + 1) * 0x9E3779B97F4A7C15 + i * 0xD1B54A32D192ED03) % size


# ---------------------------------------------------------------------------
# contexts
# ---------------------------------------------------------------------------
def _configure_django():
    try:
        from django.conf import settings

        if not settings.configured:
            settings.configure()
    except Exception:  # noqa: BLE001
        pass


@functools.lru_cache(None)
def context_table():
    """ordered {canonical name: (context object | exception, [all exported names])}; aliases of one object are merged.
    (type() instead of isinstance(): touching __class__ of a LazyCryptContext would load it)"""
    from passlib.context import CryptContext

    def is_ctx(o):
        return isinstance(type(o), type) and issubclass(type(o), CryptContext)

    found = []  # (module label, attr, obj, in_all)
    import passlib.apps as A

    names = list(A.__all__) + sorted(n for n in vars(A) if n not in A.__all__)
    for n in names:
        o = vars(A).get(n)
        if is_ctx(o) and not n.startswith("_") and n not in UNDOCUMENTED:
            found.append(("apps", n, o, n in A.__all__))
    import passlib.hosts as Ho

    for n in Ho.__all__:
        o = vars(Ho).get(n)
        if is_ctx(o):
            found.append(("hosts", n, o, True))
    groups = {}
    for mod, n, o, in_all in found:
        groups.setdefault((mod, id(o)), []).append((not in_all, len(n), n, o))
    table = {}
    for (mod, _), items in groups.items():
        items.sort(key=lambda t: t[:3])
        canon = f"{mod}.{items[0][2]}"
        table[canon] = (items[0][3], [f"{mod}.{t[2]}" for t in items])
    try:
        import passlib.apache as Ap

        table["apache.htpasswd_context"] = (Ap.htpasswd_context, ["apache.htpasswd_context"])
    except Exception as e:  # noqa: BLE001
        table["apache.htpasswd_context"] = (e, ["apache.htpasswd_context"])
    _configure_django()
    for p in DJANGO_PRESETS:
        try:
            from passlib.ext.django import utils as U

            cfg = U.get_preset_config(p)
            table[f"django_preset.{p}"] = (CryptContext.from_string(cfg), [f"django_preset.{p}"])
        except Exception as e:  # noqa: BLE001
            table[f"django_preset.{p}"] = (e, [f"django_preset.{p}"])
    return table


def get_context(cname):
    o = context_table()[cname][0]
    if isinstance(type(o), type) and issubclass(type(o), Exception):
        raise o
    return o


def _exc(e):
    return type(e).__name__


# ---------------------------------------------------------------------------
# evaluators
# ---------------------------------------------------------------------------
def make_hash(case):
    """hash of case['password'] by the scheme: plain hasher + settings, or the context's configured hasher"""
    name = case["scheme"]
    kw = dict(case.get("settings") or {})
    ck = case.get("ctxkw") or {}
    with env.scripted_rng(FillerRng(case.get("seed", 0))):
        if case["via"] == "context":
            # the context's own configured copy of the scheme (idents, variants ...), at the cheapest cost
            H = get_context(case["context"]).handler(name)
            cheap = HS.min_cost_kw(name)
            if cheap:
                H = H.using(**cheap)
        elif case["via"] == "context_production":
            H = get_context(case["context"]).handler(name)
        else:
            H = HS.handler(name)
            if kw:
                H = H.using(**kw)
        return H.hash(case["password"], **ck)


def judge(cname, name, h, p, ck, settings, wrongs=True):
    """the property for one hash of scheme `name` inside context `cname`"""
    out = []
    C = get_context(cname)
    hs = h if isinstance(h, str) else h.decode("latin-1")
    try:
        got = C.identify(h)
    except Exception as e:  # noqa: BLE001
        return [(f"C17|{cname}|identify:{name}:raises:{_exc(e)}", f"{cname}.identify({h!r}) raised {e!r}")]
    if got != name:
        detail = ""
        try:
            ok = C.verify(p, h, **ck)
            detail = f"; verify(correct password) = {ok!r}"
            ok2 = C.verify(hs, h, **ck)
            detail += f", verify(the hash text itself) = {ok2!r}"
        except Exception as e:  # noqa: BLE001
            detail += f"; verify raised {_exc(e)}"
        who = "unrecognised" if got is None else f"claimed_by:{got}"
        kind = " (a catch-all scheme shadows it)" if got in CATCH_ALL else ""
        return [(f"C17|{cname}|identify:{name}:{who}",
                 f"{cname} (schemes {list(C.schemes())}) attributes the {name} hash {h!r} to {got!r}{kind}{detail}")]
    disabled = name in HS.DISABLED
    try:
        ok = C.verify(p, h, **ck)
    except Exception as e:  # noqa: BLE001
        return [(f"C17|{cname}|verify:{name}:raises:{_exc(e)}", f"{cname}.verify({p!r}, {h!r}) raised {e!r}")]
    if disabled:
        if ok is not False:
            out.append((f"C17|{cname}|verify:{name}:disabled_accepts", f"{cname}.verify({p!r}, {h!r}) = {ok!r} for a disabled-account marker"))
        return out
    if ok is not True:
        out.append((f"C17|{cname}|verify:{name}:own_password_rejected", f"{cname}.verify({p!r}, {h!r}) = {ok!r} for the password the hash was made from"))
    if wrongs:
        for label, q in (("hash_text", hs), ("appended", p + (b"x" if isinstance(p, bytes) else "x")), ("empty", "")):
            if q == p or HS.equiv(name, p, q, ck, settings or {}):
                continue
            enc = (ck or {}).get("encoding") or "utf-8"
            try:
                if (q.encode(enc) if isinstance(q, str) else q) == (p.encode(enc) if isinstance(p, str) else p):
                    continue  # the same password in its other representation (text <-> encoded bytes)
            except UnicodeError:
                pass
            if not HS.admissible(name, q, ck):
                continue
            try:
                bad = C.verify(q, h, **ck)
            except (ValueError, TypeError):
                continue  # refusing a password is not accepting it
            except Exception as e:  # noqa: BLE001
                out.append((f"C17|{cname}|verify:{name}:raises:{_exc(e)}", f"{cname}.verify({q!r}, {h!r}) raised {e!r}"))
                continue
            if bad is not False:
                out.append((f"C17|{cname}|verify:{name}:wrong_password_accepted",
                            f"{cname}.verify({q!r} [{label}], {h!r}) = {bad!r}; the hash was made from {p!r}"))
    # the same answers under every user category the context's configuration names (ext.django passes 'staff' /
    # 'superuser'; custom_app_context has 'admin'): a category tunes costs, it does not take schemes away
    try:
        cats = sorted({k.split("__")[0] for k in C.to_dict() if k.count("__") == 2})
    except Exception:  # noqa: BLE001
        cats = []
    for cat in cats:
        try:
            got_c = C.identify(h, category=cat)
            ok_c = C.verify(p, h, category=cat, **ck)
        except Exception as e:  # noqa: BLE001
            out.append((f"C17|{cname}|category:{name}:raises:{_exc(e)}", f"{cname}: identify / verify of {h!r} under category {cat!r} raised {e!r}"))
            continue
        if got_c != name or (ok_c is not True and name not in HS.DISABLED):
            out.append((f"C17|{cname}|category:{name}:differs", f"{cname} under category {cat!r}: identify({h!r}) = {got_c!r}, verify(own password) = {ok_c!r}; without a category {name!r} / True"))
    if name in ("plaintext", "ldap_plaintext", "roundup_plaintext") and isinstance(h, str) and not h.isascii():
        # the stored value as BYTES (how a file-backed store such as HtpasswdFile hands it over): a plaintext entry is
        # not ASCII in general, and every scheme listed before the catch-all one gets to look at it first
        enc = (ck or {}).get("encoding") or "utf-8"
        try:
            hb = h.encode(enc)
        except UnicodeError:
            hb = None
        if hb is not None:
            out += [(k + ":bytes_hash", d) for k, d in judge(cname, name, hb, p, ck, settings, wrongs=False)]
    return out


def eval_ctx(case):
    h = case.get("hash")
    if h is None:
        try:
            h = make_hash(case)
        except Exception:  # noqa: BLE001
            return []
    return judge(case["context"], case["scheme"], h, case["password"], case.get("ctxkw") or {}, case.get("settings"),
                 wrongs=case.get("wrongs", True))


def eval_hash(case):
    """the scheme must be able to make the hash at all (admissible password, documented settings)"""
    try:
        make_hash(case)
    except core.HarnessError:
        raise
    except Exception as e:  # noqa: BLE001
        name = case["scheme"]
        return [(f"C17|scheme:{name}|hash:raises:{_exc(e)}",
                 f"{name}.using(**{case.get('settings')!r}).hash({case['password']!r}, **{case.get('ctxkw')!r}) raised {e!r} (scheme of {case['context']} and others)")]
    return []


def eval_ctx_hash(case):
    try:
        make_hash(case)
    except core.HarnessError:
        raise
    except Exception as e:  # noqa: BLE001
        return [(f"C17|{case['context']}|hash:{case['scheme']}:raises:{_exc(e)}",
                 f"{case['context']}.handler({case['scheme']!r}).hash({case['password']!r}) raised {e!r}")]
    return []


def eval_sample(case):
    cname, name, h = case["context"], case["scheme"], case["hash"]
    C = get_context(cname)
    try:
        got = C.identify(h)
    except Exception as e:  # noqa: BLE001
        return [(f"C17|{cname}|identify:{name}:raises:{_exc(e)}", f"{cname}.identify({h!r}) raised {e!r}")]
    if got != name:
        who = "unrecognised" if got is None else f"claimed_by:{got}"
        return [(f"C17|{cname}|identify:{name}:{who}", f"{cname} attributes the well-formed {name} string {h!r} to {got!r}")]
    return []


def eval_setup(case):
    """a shipped context must load and list at least one scheme"""
    cname = case["context"]
    try:
        C = get_context(cname)
        if not C.schemes():
            return [(f"C17|{cname}|setup:no_schemes", f"{cname} lists no scheme")]
        C.handler()
    except core.HarnessError:
        raise
    except Exception as e:  # noqa: BLE001
        return [(f"C17|{cname}|setup:raises:{_exc(e)}", f"loading {cname} raised {e!r}")]
    return []


REG_SCRIPT = r"""
import sys, json, warnings
warnings.filterwarnings("ignore")
name, via = sys.argv[1], sys.argv[2]
out = {}
try:
    from passlib import registry
    import passlib.hash as PH
    out["listed"] = name in registry.list_crypt_handlers()
    out["preloaded"] = name in registry.list_crypt_handlers(loaded_only=True)
    if via == "registry":
        first = registry.get_crypt_handler(name)
    elif via == "proxy":
        first = getattr(PH, name)
    elif via == "import":
        ns = {}
        exec("from passlib.hash import %s as first" % name, ns)
        first = ns["first"]
    elif via == "alias_upper":
        first = registry.get_crypt_handler(name.upper())
    elif via == "alias_dash":
        first = registry.get_crypt_handler(name.replace("_", "-"))
    elif via == "proxy_alias_upper":
        first = getattr(PH, name.upper())
    elif via == "proxy_alias_title":
        first = getattr(PH, name.title())
    elif via == "proxy_alias_dash":
        first = getattr(PH, name.replace("_", "-"))
    elif via == "context":
        from passlib.context import CryptContext
        first = CryptContext([name]).handler(name, unconfigured=True)
    else:
        raise SystemExit("bad via")
    a = registry.get_crypt_handler(name)
    b = getattr(PH, name)
    out["first_name"] = getattr(first, "name", None)
    out["a_name"] = getattr(a, "name", None)
    out["b_name"] = getattr(b, "name", None)
    out["first_is_a"] = first is a
    out["a_is_b"] = a is b
    out["again"] = registry.get_crypt_handler(name) is a and getattr(PH, name) is b
    loaded = registry.list_crypt_handlers(loaded_only=True)
    out["loaded_after"] = name in loaded
    out["misfiled"] = [k for k in loaded if getattr(registry.get_crypt_handler(k), "name", None) != k]
    # every name the registry lists (loaded or not) must load a hasher carrying exactly that name
    out["misfiled"] += [k for k in registry.list_crypt_handlers() if k not in loaded and k != k.lower()]
    out["misfiled"] += [k for k in vars(PH) if not k.startswith("_") and getattr(vars(PH)[k], "name", k) != k]
    out["is_handler"] = bool(registry.is_crypt_handler(a))
except BaseException as e:
    out["error"] = type(e).__name__
    out["error_text"] = repr(e)[:300]
print(json.dumps(out))
"""


def location_of(name):
    from passlib import registry

    path = registry._locations.get(name, "?")
    return path.split(":")[0].rsplit(".", 1)[-1]


CONTROLS = ("md5_crypt", "hex_sha1", "ldap_salted_sha1")


def _probe(name, via):
    r = subprocess.run([sys.executable, "-W", "ignore", "-c", REG_SCRIPT, name, via], capture_output=True, text=True,
                       env=dict(os.environ), timeout=300)
    try:
        return json.loads(r.stdout.strip().splitlines()[-1])
    except Exception:  # noqa: BLE001
        raise core.HarnessError(f"registry probe {name}/{via} produced no result: {r.stdout[-300:]} {r.stderr[-500:]}")


def _fresh_failures(name, via):
    """[(failure class, description)] of one fresh-interpreter probe"""
    o = _probe(name, via)
    if "error" in o:
        return [(f"raises:{o['error']}", f"first access to {name!r} via {via} raised {o['error_text']}")]
    if not o["listed"]:
        raise core.HarnessError(f"{name} not listed in the fresh process")
    out = []
    if o["first_name"] != name or o["a_name"] != name or o["b_name"] != name:
        out.append(("name_mismatch", f"{name!r} via {via}: hasher names first={o['first_name']!r} registry={o['a_name']!r} passlib.hash={o['b_name']!r}"))
    if not o["a_is_b"] or not o["again"]:
        out.append(("registry_and_proxy_differ", f"get_crypt_handler({name!r}) and passlib.hash.{name} are different objects after first access via {via}"))
    if not o["first_is_a"]:
        out.append(("not_the_registered_object", f"the object obtained for {name!r} via {via} is not the registered hasher"))
    if o["misfiled"]:
        out.append(("side_loaded_under_wrong_name", f"after loading {name!r} via {via} the registry stores {o['misfiled']} under names that are not their own"))
    if not o["loaded_after"] or not o["is_handler"]:
        out.append(("not_loaded", f"{name!r} via {via}: loaded_after={o['loaded_after']} is_crypt_handler={o['is_handler']}"))
    return out


def _keyed(name, via, failures, control_failures):
    """generic key when unrelated control names fail the same way (one defect of the shared machinery), else per location"""
    out = []
    for fc, desc in failures:
        generic = all(fc in {c for c, _ in cf} for cf in control_failures)
        comp = "registry" if generic else f"registry:{location_of(name)}"
        out.append((f"C17|{comp}|{via}:{fc}", desc + (" (control names fail alike: shared registry machinery)" if generic else "")))
    return out


def eval_registry(case):
    name, via = case["name"], case["via"]
    fails = _fresh_failures(name, via)
    if not fails:
        return []
    controls = [_fresh_failures(c, via) for c in CONTROLS if location_of(c) != location_of(name)]
    return _keyed(name, via, fails, controls)


def _warm_failures(name):
    from passlib import registry
    import passlib.hash as PH

    out = []
    try:
        a = registry.get_crypt_handler(name)
        b = getattr(PH, name)
    except Exception as e:  # noqa: BLE001
        return [(f"raises:{_exc(e)}", f"{name!r}: {e!r}")]
    if a.name != name:
        out.append(("name_mismatch", f"get_crypt_handler({name!r}).name = {a.name!r}"))
    if a is not b:
        out.append(("registry_and_proxy_differ", f"get_crypt_handler({name!r}) is not passlib.hash.{name}"))
    forms = {"upper": name.upper(), "dash": name.replace("_", "-"), "mixed": name.title().replace("_", "-")}
    for k, v in forms.items():
        try:
            o = registry.get_crypt_handler(v)
        except Exception as e:  # noqa: BLE001
            out.append((f"alias_{k}:raises:{_exc(e)}", f"get_crypt_handler({v!r}) raised {e!r}"))
            continue
        if o is not a:
            out.append((f"alias_{k}:not_the_registered_object", f"get_crypt_handler({v!r}) is not get_crypt_handler({name!r}) (got {getattr(o, 'name', o)!r})"))
    if name not in dir(PH):
        out.append(("not_in_dir", f"{name!r} missing from dir(passlib.hash)"))
    return out


def eval_registry_warm(case):
    """same identities in a process where handlers are already loaded"""
    name = case["name"]
    fails = _warm_failures(name)
    if not fails:
        return []
    controls = [_warm_failures(c) for c in CONTROLS if location_of(c) != location_of(name)]
    return _keyed(name, "warm", fails, controls)


IMPORT_MODULES = ("passlib.apps", "passlib.hosts", "passlib.apache", "passlib.ext.django.utils", "passlib.registry")

ORDER_SCRIPT = r"""
import json, sys, warnings
warnings.filterwarnings("ignore")
order = sys.argv[1].split(",")
import importlib
for m in order:
    importlib.import_module(m)
sys.path.insert(0, sys.argv[2])
from mc.checks import c17
out = {}
for cname, (obj, names) in c17.context_table().items():
    try:
        out[cname] = list(c17.get_context(cname).schemes())
    except Exception as e:
        out[cname] = "raises:" + type(e).__name__
from passlib import registry
out["registry.get_supported_os_crypt_schemes"] = list(registry.get_supported_os_crypt_schemes())
print(json.dumps(out))
"""


@functools.lru_cache(None)
def _schemes_under_order(order):
    r = subprocess.run([sys.executable, "-c", ORDER_SCRIPT, ",".join(order), core.VERIF], capture_output=True, text=True,
                       env=dict(os.environ, PYTHONHASHSEED="0"), timeout=600)
    if r.returncode != 0:
        raise core.HarnessError(f"import-order probe {order} failed: {r.stderr[-1500:]}")
    return json.loads(r.stdout.strip().splitlines()[-1])


def eval_import_order(case):
    """the scheme list of every shipped context must not depend on the order in which passlib's modules are imported"""
    order = tuple(case["order"])
    base = _schemes_under_order(IMPORT_MODULES)
    got = _schemes_under_order(order)
    out = []
    for cname in sorted(set(base) | set(got)):
        if base.get(cname) != got.get(cname):
            out.append((f"C17|import_order|schemes_differ:{cname}",
                        f"{cname}: schemes {got.get(cname)!r} when importing {list(order)} but {base.get(cname)!r} when importing {list(IMPORT_MODULES)}"))
    return out


def eval_marker_plaintext(case):
    """a plaintext entry that happens to start with a marker character is still this context's plaintext scheme's hash"""
    cname, scheme, h = case["context"], case["scheme"], case["hash"]
    ctx = get_context(cname)
    schemes = list(ctx.schemes())
    out = []
    # a disabled-account scheme legitimately listed BEFORE the plaintext scheme may claim it (documented order rule)
    before = schemes[: schemes.index(scheme)]
    if any(b in ("unix_disabled", "django_disabled") for b in before) and not case.get("strict"):
        return out
    try:
        got = ctx.identify(h)
        if got != scheme:
            out.append((f"C17|{cname}|identify:{scheme}:marker_led_claimed_by:{got}", f"{cname}.identify({h!r}) = {got!r}, it is a {scheme} entry"))
        if not HS.handler(scheme).identify(h):
            return out
        if ctx.verify(h, h) is not True:
            out.append((f"C17|{cname}|verify:{scheme}:marker_led:right_rejected", f"{cname}.verify({h!r}, {h!r}) is not True"))
    except Exception as e:  # noqa: BLE001
        out.append((f"C17|{cname}|marker_led:raises:{type(e).__name__}", f"raised {e!r} on {h!r}"))
    return out


EVALS = {"import_order": eval_import_order, "marker_plaintext": eval_marker_plaintext, "hash": eval_hash, "ctx_hash": eval_ctx_hash, "ctx": eval_ctx, "sample": eval_sample, "setup": eval_setup, "registry": eval_registry, "registry_warm": eval_registry_warm}


# ---------------------------------------------------------------------------
# first use: the very first hashing / verification of a FRESH interpreter goes through a shipped context
# ---------------------------------------------------------------------------
FIRST_USE_SCRIPT = r"""
import sys, json, warnings
warnings.filterwarnings("ignore")
spec = json.loads(sys.argv[1])
out = {}
try:
    cname = spec["context"]
    mod, _, attr = cname.partition(".")
    if mod == "django_preset":
        try:
            from django.conf import settings
            if not settings.configured:
                settings.configure()
        except Exception:
            pass
        from passlib.ext.django import utils as U
        from passlib.context import CryptContext
        C = CryptContext.from_string(U.get_preset_config(attr))
    else:
        import importlib
        C = getattr(importlib.import_module("passlib." + mod), attr)
    pw, ck, name = spec["password"], spec["ctxkw"], spec["scheme"]
    if spec["mode"] == "verify_stored":
        h = spec["hash"]
        out["first"] = C.verify(pw, h, **ck)
    else:
        h = C.hash(pw, scheme=name, **ck)
        out["hash"] = h
        out["first"] = C.verify(pw, h, **ck)
    out["identify"] = C.identify(h)
    out["second"] = C.verify(pw, h, **ck)
    out["wrong"] = C.verify(pw + "x", h, **ck)
except BaseException as e:
    out["error"] = type(e).__name__
    out["error_text"] = repr(e)[:300]
print(json.dumps(out))
"""


def eval_first_use(case):
    cname, name, mode, p, ck = case["context"], case["scheme"], case["mode"], case["password"], case.get("ctxkw") or {}
    spec = {"context": cname, "scheme": name, "mode": mode, "password": p, "ctxkw": ck}
    if mode == "verify_stored":
        try:
            spec["hash"] = make_hash(dict(case, via="context"))
        except Exception:  # noqa: BLE001
            return []
        if not isinstance(spec["hash"], str):
            return []
    r = subprocess.run([sys.executable, "-W", "ignore", "-c", FIRST_USE_SCRIPT, json.dumps(spec)], capture_output=True, text=True,
                       env=dict(os.environ), timeout=600)
    try:
        got = json.loads(r.stdout.strip().splitlines()[-1])
    except Exception:  # noqa: BLE001
        raise core.HarnessError(f"first-use child failed rc={r.returncode}: {r.stderr[-800:]}") from None
    key = f"C17|{cname}|first_use:{name}:{mode}:"
    what = f"fresh interpreter, first call on {cname}: " + ("verify of a stored" if mode == "verify_stored" else "hash(scheme=") + f" {name} hash"
    if "error" in got:
        if mode == "hash_first" and got["error"] in ("PasswordSizeError", "PasswordValueError", "PasswordTruncateError"):
            return []
        return [(key + f"raises:{got['error']}", f"{what} raised {got['error_text']}")]
    out = []
    h = spec.get("hash") or got.get("hash")
    disabled = name in HS.DISABLED
    if got["identify"] != name:
        out.append((key + "misattributed", f"{what}: identify({h!r}) = {got['identify']!r}"))
    if disabled:
        if got["first"] or got["second"]:
            out.append((key + "disabled_accepts", f"{what}: verify = {got['first']!r}/{got['second']!r}"))
        return out
    if got["first"] is not True or got["second"] is not True:
        out.append((key + "own_password_rejected", f"{what} {h!r}: first verify({p!r}) = {got['first']!r}, repeated = {got['second']!r}"))
    if got["wrong"] is not False and not HS.equiv(name, p, p + "x", ck, {}):
        out.append((key + "wrong_password_accepted", f"{what} {h!r}: verify({p + 'x'!r}) = {got['wrong']!r}"))
    if mode == "hash_first" and not out:
        # the hash made on first use must be a correct hash of the scheme: the (warm) plain hasher verifies it
        try:
            ok = HS.handler(name).verify(p, h, **{k: v for k, v in ck.items() if k in HS.g(name, "context_kwds", ())})
        except Exception as e:  # noqa: BLE001
            ok = f"raised {e!r}"
        if ok is not True:
            out.append((key + "first_hash_wrong", f"{what}: the hash {h!r} made by the first call does not verify {p!r} with the plain {name} hasher later ({ok!r})"))
    return out


EVALS["first_use"] = eval_first_use


def replay(case):
    return EVALS[case["part"]](case)


# ---------------------------------------------------------------------------
# shard workers
# ---------------------------------------------------------------------------
def work_scheme(task):
    """one scheme, a chunk of its settings grid: make each hash once, judge it inside every context listing the scheme"""
    acc = Acc()
    name = task["scheme"]
    for si, kw in task["settings"]:
        for ci, ck in enumerate(task["ctxkws"]):
            pws = list(PASSWORDS)
            if ck.get("encoding"):
                # the same password handed over as BYTES in the encoding the keyword names (how a file reader would)
                try:
                    pws.append("pä-ßö17".encode(ck["encoding"]))
                except UnicodeEncodeError:
                    pass
            # a password with a NUL character: the schemes built on crypt() refuse it, the others take it -- whatever
            # scheme DOES make a hash for it has that hash recognised and verified through the context like any other
            pws.append(NUL_PASSWORD)
            for pi, p in enumerate(pws):
                nul = p is NUL_PASSWORD
                if not nul and not (isinstance(p, bytes) and ck.get("encoding")) and not HS.admissible(name, p, ck):
                    acc.count("inadmissible_password")
                    continue
                base = {"part": "ctx", "scheme": name, "settings": kw, "ctxkw": ck, "password": p, "via": "handler", "seed": task["seed"]}
                try:
                    h = make_hash(base)
                except Exception as e:  # noqa: BLE001
                    if nul and isinstance(e, ValueError):
                        acc.count("nul_password_refused_by_scheme")
                        continue
                    # every settings_grid entry is a documented, admissible setting: a scheme of a shipped context that
                    # cannot produce the hash cannot have it recognised either
                    acc.ev()
                    acc.count("hash_refused")
                    acc.outcome(("hash_refused", name, _exc(e)))
                    case = dict(base, part="hash", context=task["contexts"][0])
                    for key, desc in eval_hash(case):
                        acc.violation(key, desc, case)
                    continue
                for cname in task["contexts"]:
                    case = dict(base, context=cname, hash=h)
                    acc.ev()
                    acc.cls("ctx", cname, name, si, pi, ci)
                    acc.axis("context", cname)
                    acc.axis("scheme", name)
                    if kw.get("ident"):
                        acc.axis("ident", f"{name}:{kw['ident']}")
                    vs = eval_ctx(case)
                    acc.outcome(("ctx", "viol" if vs else "ok"))
                    for key, desc in vs:
                        acc.violation(key, desc, case)
                    if si == 0 and pi == 0 and ci == 0:
                        acc.sample(case)
    return acc


def work_cases(task):
    acc = Acc()
    for case in task["cases"]:
        part = case["part"]
        acc.ev()
        acc.cls(part, case.get("context"), case.get("scheme") or case.get("name"), case.get("via"), case.get("n"))
        acc.axis("part", part)
        if case.get("context"):
            acc.axis("context", case["context"])
        if case.get("via"):
            acc.axis("via", case["via"])
        if part == "ctx":
            acc.axis("scheme", case["scheme"])
            # context-made hash: produce it here so that the case carries it
            try:
                case = dict(case, hash=make_hash(case))
            except Exception as e:  # noqa: BLE001
                acc.count("hash_refused")
                acc.outcome(("context_hash_refused", case["context"], case["scheme"], _exc(e)))
                acc.violation(f"C17|{case['context']}|hash:{case['scheme']}:raises:{_exc(e)}",
                              f"{case['context']}.handler({case['scheme']!r}).hash({case['password']!r}) raised {e!r}", dict(case, part="ctx_hash"))
                continue
        vs = EVALS[part](case)
        acc.outcome((part, "viol" if vs else "ok"))
        for key, desc in vs:
            acc.violation(key, desc, case)
        if part in ("registry", "sample"):
            acc.sample(case)
    return acc


def run(ctx):
    table = context_table()
    by_scheme = {}
    setup_cases = []
    listed = {}
    for cname, (obj, names) in table.items():
        setup_cases.append({"part": "setup", "context": cname})
        try:
            schemes = list(get_context(cname).schemes())
        except Exception:  # noqa: BLE001
            continue  # reported by the setup case
        listed[cname] = schemes
        for s in schemes:
            by_scheme.setdefault(s, []).append(cname)
    ctx.cov["contexts"] = {c: {"aliases": table[c][1], "schemes": listed.get(c)} for c in table}
    tasks = []
    small = []
    skipped = []
    for name in sorted(by_scheme):
        cnames = by_scheme[name]
        if not HS.usable(name):
            skipped.append(name)
            for cname in cnames:
                for n, h in enumerate(STATIC_SAMPLES.get(name, ())):
                    small.append({"part": "sample", "context": cname, "scheme": name, "hash": h, "n": n})
            continue
        grid = list(enumerate(HS.settings_grid(name, ctx.quick, ctx.seed)))
        cks = HS.ctx_grid(name, ctx.quick)
        per = max(1, len(grid) // (12 if name not in HS.SLOW else 24) + 1)
        for i in range(0, len(grid), per):
            tasks.append({"scheme": name, "settings": grid[i : i + per], "ctxkws": cks, "contexts": cnames, "seed": ctx.seed})
        for cname in cnames:
            for pi, p in enumerate(PASSWORDS):
                if HS.admissible(name, p, cks[0]):
                    small.append({"part": "ctx", "context": cname, "scheme": name, "settings": None, "ctxkw": cks[0], "password": p,
                                  "via": "context", "seed": ctx.seed, "n": pi})
            if name in HS.PLAINTEXT and HS.admissible(name, "L" * 1100, cks[0]):
                # a catch-all scheme's "hash" is as long as the password: one of 1100 characters
                small.append({"part": "ctx", "context": cname, "scheme": name, "settings": None, "ctxkw": cks[0], "password": "L" * 1100,
                              "via": "context", "seed": ctx.seed, "n": 7})
            if name in HS.PLAINTEXT:
                # ... and the longest ones the library takes: 4096 characters (a prefix wrapper's stored value is then
                # LONGER than any password), and 3000 two-byte characters (6000 bytes when the store hands it over as bytes)
                for n_, p_ in ((8, "M" * 4096), (10, "\u00e9" * 3000)):
                    if HS.admissible(name, p_, cks[0]):
                        small.append({"part": "ctx", "context": cname, "scheme": name, "settings": None, "ctxkw": cks[0], "password": p_,
                                      "via": "context", "seed": ctx.seed, "n": n_, "wrongs": False})
            if not ctx.quick:
                # thorough: also at the production cost the context configures (one password, no wrong-password probes)
                small.append({"part": "ctx", "context": cname, "scheme": name, "settings": None, "ctxkw": cks[0], "password": PASSWORDS[0],
                              "via": "context_production", "seed": ctx.seed, "n": 9, "wrongs": False})
    if skipped:
        ctx.assume(f"schemes without a backend on this host are identify-only (fixed well-formed strings): {sorted(skipped)}")
    # first use in a fresh interpreter: context x usable scheme x {verify a stored hash first, make a hash first}
    first = []
    for cname, schemes in listed.items():
        for sch in schemes:
            if not HS.usable(sch):
                continue
            ck0 = HS.ctx_grid(sch, True)[0]
            if not HS.admissible(sch, PASSWORDS[0], ck0):
                continue
            for mode in ("verify_stored", "hash_first"):
                first.append({"part": "first_use", "context": cname, "scheme": sch, "mode": mode, "password": PASSWORDS[0],
                              "ctxkw": ck0, "seed": ctx.seed, "via": mode})
    # plaintext entries that begin with a disabled-account marker character
    for cname, schemes in listed.items():
        for sch in schemes:
            if sch == "plaintext":
                for n, h in enumerate(("*secret", "!secret", "**", "!x")):
                    small.append({"part": "marker_plaintext", "context": cname, "scheme": sch, "hash": h, "n": n})
    # import orders: every permutation of the modules that build the shipped contexts (fresh interpreter each)
    import itertools

    perms = list(itertools.permutations(IMPORT_MODULES[:4]))
    for n, perm in enumerate(perms):
        small.append({"part": "import_order", "order": list(perm) + ["passlib.registry"], "n": n})
    # registry
    reg = []
    vias = ("registry", "proxy", "import", "alias_upper", "alias_dash", "context", "proxy_alias_upper", "proxy_alias_title", "proxy_alias_dash")
    for name in HS.all_names():
        for via in vias:
            reg.append({"part": "registry", "name": name, "via": via})
        small.append({"part": "registry_warm", "name": name})
    ctx.log(f"{len(table)} contexts, {len(by_scheme)} schemes, {len(tasks)} hash shards, {len(small)} context-made/sample/warm cases, {len(reg)} fresh-process registry probes")
    acc0 = core.pmap(work_cases, [{"cases": [c]} for c in setup_cases], nproc=1)
    ctx.merge(acc0, part="setup")
    acc1 = core.pmap(work_scheme, tasks)
    ctx.merge(acc1, part="ctx")
    ctx.log("hash shards done")
    # slow context-made hashes (production costs) first, interleaved
    acc2 = core.pmap(work_cases, [{"cases": small[i::96]} for i in range(96) if small[i::96]])
    ctx.merge(acc2, part="context_made+samples+warm")
    ctx.log("context-made hashes, samples, warm registry done")
    acc3 = core.pmap(work_cases, [{"cases": reg[i::64]} for i in range(64) if reg[i::64]])
    ctx.merge(acc3, part="registry")
    ctx.log("fresh-process registry probes done")
    acc4 = core.pmap(work_cases, [{"cases": first[i::64]} for i in range(64) if first[i::64]])
    ctx.merge(acc4, part="first_use")
    ctx.log(f"{len(first)} fresh-process first-use probes done")
    ctx.assume("passlib.apps.master_context is neither exported (__all__) nor documented: not judged")
    ctx.assume("scheme lists are whatever import-time probing produced on this host (crypt() support)")
    ctx.assume("disabled-account hashers listed in a context must claim their own markers and verify nothing")
