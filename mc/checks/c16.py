"""C16 -- htpasswd/htdigest files stay a faithful user database under any edit history.

Engine E2 (mc.explore): explicit-state BFS over event histories of REAL HtpasswdFile / HtdigestFile objects,
each history replayed on a fresh object and on a small reference model (DESIGN A.4: ordered token list +
key->hash map + key->password-last-set map).  In every state the exported text (and the saved scratch file) is
parsed by an independent first-match line reader and compared with the model; every transition's return value /
exception class is compared with the model.  The exploration runs in both interpreter modes (normal and
`python -O`: apache.py guards its export bookkeeping with __debug__), the -O half in `python -O` subprocesses.

Further parts (E1 style): every illegal user / realm name (each forbidden character at each position, > 255
bytes) through every method; boundary / awkward legal names must round-trip; the shipped htpasswd_context is
loaded and exercised once per scheme.

Owned seams: the random source (mc.env.ScriptedRng: hash(u, p) is a function of p) and the file modification
time (passlib.apache's `os.path.getmtime` is replaced by a virtual clock driven only by the event history).
"""
from __future__ import annotations

import base64
import collections
import hashlib
import itertools
import json
import logging
import os
import pickle
import shutil
import subprocess
import sys
import tempfile
import time
import warnings

from mc import core, env, explore
from mc.core import Acc, HarnessError

warnings.filterwarnings("ignore")

ID = "C16"
LEVEL = "model_checking"
RULE = (
    "BFS (mc.explore.bfs) over all event histories up to depth 4 (thorough 6; 5 for the file-binding theme) of each root configuration = "
    "(file class, interpreter mode, theme alphabet, initial file, encoding, text/bytes arguments, binding/autosave, "
    "default realm), de-duplicated on (observable implementation state, model state); every transition is executed on "
    "the real object and compared with the reference model; a transition is non-trivial when the real method ran; "
    "distinct class = mode|class|theme|event|observed outcome|pre-state shape; plus the full product of illegal / "
    "boundary names x method x field x argument form x encoding, and one round trip per scheme of htpasswd_context"
)

MODE = "normal" if __debug__ else "O"
WS = b" \t\n\r\x0b\x0c"

# ---------------------------------------------------------------------------
# filler material (chosen by the seed; classes -- ascii / non-ascii -- never change)
# ---------------------------------------------------------------------------
_U1 = ("u1", "alice", "x.y")
_U2 = ("u2", "bob", "w-2")
_UU = ("ü", "Jürgen", "élève")
_R1 = ("r1", "realm one", "private")
_R2 = ("r2", "Réalm2", "zone-2")
_P1 = ("pass one", "secret 1", "hunter two!")
_P2 = ("päss2", "été 2", "grüß 2")


def names_for(seed):
    s = seed % 3
    return {"u1": _U1[s], "u2": _U2[s], "uu": _UU[s], "r1": _R1[s], "r2": _R2[s], "p1": _P1[s], "p2": _P2[s]}


# ---------------------------------------------------------------------------
# independent hash arithmetic (hashlib only)
# ---------------------------------------------------------------------------
def md5_hash(pwb):
    return b"{MD5}" + base64.b64encode(hashlib.md5(pwb).digest())


def ssha_hash(pwb, salt):
    return b"{SSHA}" + base64.b64encode(hashlib.sha1(pwb + salt).digest() + salt)


def ssha_verifies(h, pwb):
    if not h.startswith(b"{SSHA}"):
        return False
    try:
        raw = base64.b64decode(h[6:], validate=True)
    except Exception:  # noqa: BLE001
        return False
    if len(raw) < 21:
        return False
    return hashlib.sha1(pwb + raw[20:]).digest() == raw[:20]


def digest_hash(ub, rb, pwb):
    return hashlib.md5(ub + b":" + rb + b":" + pwb).hexdigest().encode("ascii")


# ---------------------------------------------------------------------------
# independent line reader
# ---------------------------------------------------------------------------
def split_lines(data):
    if not data:
        return []
    parts = data.split(b"\n")
    if parts[-1] == b"":
        parts.pop()
    return parts


def classify(line, nf):
    """-> ("skip", raw) | ("bad", raw) | ("rec", key, hash)"""
    s = line.strip(WS)
    if not s or s[:1] == b"#":
        return ("skip", line)
    f = line.rstrip(WS).split(b":")
    if len(f) != nf:
        return ("bad", line)
    key = f[0] if nf == 2 else (f[0], f[1])
    return ("rec", key, f[-1])


def is_blank(item):
    return item[0] == "skip" and not item[1].strip(WS)


def strip_trailing_blank(items):
    items = list(items)
    while items and is_blank(items[-1]):
        items.pop()
    return items


def read_db(data, nf):
    """first-match reader: -> (items, first: key->hash, counts, badlines)"""
    items = [classify(l, nf) for l in split_lines(data)]
    first = {}
    counts = collections.Counter()
    bad = []
    for it in items:
        if it[0] == "rec":
            counts[it[1]] += 1
            first.setdefault(it[1], it[2])
        elif it[0] == "bad":
            bad.append(it[1])
    return items, first, counts, bad


# ---------------------------------------------------------------------------
# configurations
# ---------------------------------------------------------------------------
def cfg_id(cfg):
    return "|".join(f"{k}={cfg[k]}" for k in sorted(cfg) if k not in ("seed", "depth"))


def nfields(cfg):
    return 2 if cfg["cls"] == "htpasswd" else 3


class Material:
    """every concrete byte string of one configuration (derived from cfg only)"""

    _cache = {}

    @classmethod
    def of(cls, cfg):
        k = (cfg["cls"], cfg["enc"], cfg["seed"] % 3)
        if k not in cls._cache:
            cls._cache[k] = cls(cfg)
        return cls._cache[k]

    def __init__(self, cfg):
        self.cls = cfg["cls"]
        self.enc = cfg["enc"]
        self.nf = nfields(cfg)
        self.n = names_for(cfg["seed"])
        self.files = {fid: self._render(fid) for fid in FILE_SPECS}

    def b(self, ident):
        return self.n[ident].encode(self.enc)

    def key(self, u, r=None):
        if self.cls == "htpasswd":
            return self.b(u)
        return (self.b(u), self.b(r))

    def fixed_hash(self):
        """the 'fixed valid hash' of set_hash events: deprecated-scheme hash of p1 (htpasswd) /
        digest of (u1, r1, p1) (htdigest)"""
        if self.cls == "htpasswd":
            return md5_hash(self.b("p1"))
        return digest_hash(self.b("u1"), self.b("r1"), self.b("p1"))

    def infer_plain(self, key, h):
        """which password of the alphabet (encoded the way the file's server would) does this hash verify?"""
        for pid in ("p1", "p2"):
            pwb = self.b(pid)
            if self.cls == "htpasswd":
                if h == md5_hash(pwb) or ssha_verifies(h, pwb):
                    return pid
            elif h == digest_hash(key[0], key[1], pwb):
                return pid
        return None

    def _render(self, fid):
        spec = FILE_SPECS[fid]
        eol = spec.get("eol", b"\n")
        out = []
        for ent in spec["lines"]:
            if ent[0] == "raw":
                out.append(ent[1])
                continue
            _, u, r, p, scheme = ent
            pwb = self.b(p)
            if self.cls == "htpasswd":
                h = md5_hash(pwb) if scheme == "dep" else ssha_hash(pwb, b"SaLt")
                key = self.b(u)
                out.append(key + b":" + h)
            else:
                h = digest_hash(self.b(u), self.b(r), pwb)
                key = (self.b(u), self.b(r))
                out.append(key[0] + b":" + key[1] + b":" + h)
        data = eol.join(out)
        if out and spec.get("final_eol", True):
            data += eol
        return data


def _rec(u, r, p, scheme):
    return ("rec", u, r, p, scheme)


def _raw(b):
    return ("raw", b)


FILE_SPECS = {
    "empty": {"lines": []},
    "plain": {"lines": [_rec("u1", "r1", "p1", "dep"), _rec("u2", "r1", "p2", "cur")]},
    "comments": {"lines": [
        _raw(b"# header"), _raw(b""), _rec("u1", "r1", "p1", "dep"), _raw(b"  "), _raw(b"# mid : comment"),
        _rec("u2", "r1", "p2", "cur"), _raw(b"  # indented"), _rec("uu", "r2", "p1", "dep"), _raw(b"# tail")]},
    "dups": {"lines": [
        _rec("u1", "r1", "p1", "dep"), _rec("u2", "r1", "p1", "cur"), _rec("u1", "r1", "p2", "cur"), _raw(b"# c"),
        _rec("u2", "r1", "p2", "dep")]},
    "trailing_blank": {"lines": [_rec("u1", "r1", "p1", "dep"), _raw(b""), _raw(b" "), _raw(b"")]},
    "crlf": {"lines": [_rec("u1", "r1", "p1", "dep"), _raw(b"# c"), _raw(b""), _rec("u2", "r1", "p2", "cur")],
             "eol": b"\r\n"},
    "noeol_rec": {"lines": [_rec("u1", "r1", "p1", "dep"), _rec("u2", "r1", "p2", "cur")], "final_eol": False},
    "noeol_comment": {"lines": [_rec("u1", "r1", "p1", "dep"), _raw(b"# tail")], "final_eol": False},
    "noeol_dup": {"lines": [_rec("u1", "r1", "p1", "dep"), _rec("u1", "r1", "p2", "cur")], "final_eol": False},
    "bad": {"lines": [_rec("u1", "r1", "p1", "dep"), _raw(b"bogus line without separator"),
                      _rec("u2", "r1", "p2", "cur")]},
    "alt": {"lines": [_raw(b"# alt"), _rec("u2", "r1", "p1", "dep"), _rec("u1", "r1", "p2", "cur")]},
    "alt2": {"lines": [_rec("uu", "r1", "p2", "dep"), _raw(b""), _raw(b"# end of alt2")]},
}


# ---------------------------------------------------------------------------
# virtual modification time (owned seam)
# ---------------------------------------------------------------------------
class VirtualMtime:
    """mtime of a path = value of a counter that advances whenever the content of the file is seen to differ
    from what this clock saw last (i.e. somebody wrote it) or when an external writer says so"""

    def __init__(self):
        self.t = 1000
        self.low = 500
        self.seen = {}
        self.mt = {}

    def getmtime(self, path):
        path = os.fspath(path)
        with open(path, "rb") as fh:  # FileNotFoundError passes through like the real call
            data = fh.read()
        if self.seen.get(path) != data or path not in self.mt:
            self.t += 1
            self.seen[path] = data
            self.mt[path] = self.t
        return float(self.mt[path])

    def external_write(self, path, data, bump):
        """bump: 1 = newer mtime, 0 = same mtime (write within the clock's granularity), -1 = OLDER mtime
        (an old file moved into place)"""
        with open(path, "wb") as fh:
            fh.write(data)
        self.seen[path] = data
        if bump < 0:
            self.low -= 1
            self.mt[path] = self.low
        elif bump or path not in self.mt:
            self.t += 1
            self.mt[path] = self.t


class _OsPathShim:
    def __init__(self, real):
        self._real = real
        self.vm = None

    def getmtime(self, path):
        if self.vm is None:
            raise HarnessError("getmtime called with no virtual clock installed")
        return self.vm.getmtime(path)

    def __getattr__(self, name):
        return getattr(self._real, name)


class _OsShim:
    def __init__(self):
        self.path = _OsPathShim(os.path)

    def __getattr__(self, name):
        return getattr(os, name)


_ENV = {}


def setup_env():
    """idempotent: silence logging, pin the random source, install the mtime seam, make the scratch directory"""
    if _ENV:
        return _ENV
    logging.disable(logging.CRITICAL)
    import passlib
    import passlib.apache as A

    here = os.path.realpath(passlib.__file__)
    want = os.path.realpath(core.REPO)
    if not here.startswith(want + os.sep):
        raise HarnessError(f"passlib imported from {here}, expected under {want}")
    shim = _OsShim()
    A.os = shim
    rng = env.ScriptedRng()
    cm = env.scripted_rng(rng)
    cm.__enter__()
    base = "/dev/shm" if os.path.isdir("/dev/shm") and os.access("/dev/shm", os.W_OK) else None
    d = tempfile.mkdtemp(prefix="apache-c16-", dir=base)
    from passlib.context import CryptContext

    _ENV.update(A=A, shim=shim, rng=rng, cm=cm, dir=d,
                ctx=CryptContext(schemes=["ldap_salted_sha1", "ldap_md5"], deprecated=["ldap_md5"]))
    return _ENV


def teardown_env():
    if not _ENV:
        return
    try:
        _ENV["cm"].__exit__(None, None, None)
        import passlib.apache as A

        A.os = os
    finally:
        shutil.rmtree(_ENV["dir"], ignore_errors=True)
        _ENV.clear()


# ---------------------------------------------------------------------------
# reference model (DESIGN A.4)
# ---------------------------------------------------------------------------
class ModelValueError(Exception):
    pass


class Model:
    def __init__(self, cfg, mat):
        self.cfg = cfg
        self.mat = mat
        self.nf = mat.nf
        self.tokens = []  # ["skip", raw] | ["rec", key]
        self.recs = {}  # key -> ("exact", hash) | ("pw", pid)
        self.plain = {}  # key -> pid | None
        self.unterminated = None  # index of an unterminated skipped last line of the last load (diagnosis only)
        self.readded = set()  # keys set again after a delete while their token survived (diagnosis only)
        self.orphaned = set()  # keys deleted since the last load
        self.bound = False
        self.autosave = False
        self.loaded_mt = 0
        self.disk = None  # (items, recs) expected in the scratch file, None = no file
        self.disk2 = None

    # -- parsing -------------------------------------------------------------
    def parse(self, data):
        tokens, recs, plain = [], {}, {}
        lines = split_lines(data)
        for line in lines:
            it = classify(line, self.nf)
            if it[0] == "skip":
                tokens.append(["skip", line])
            elif it[0] == "bad":
                raise ModelValueError(line)
            else:
                _, key, h = it
                if key in recs:
                    tokens.append(["dup", key, h])  # first occurrence wins; the later line is kept verbatim
                else:
                    recs[key] = ("exact", h)
                    plain[key] = self.mat.infer_plain(key, h)
                    tokens.append(["rec", key])
        while tokens and tokens[-1][0] == "skip" and not tokens[-1][1].strip(WS):
            tokens.pop()
        unterminated = None
        if data and not data.endswith(b"\n") and tokens and tokens[-1][0] in ("skip", "dup"):
            unterminated = len(tokens) - 1
        return tokens, recs, plain, unterminated

    def adopt(self, parsed):
        self.tokens, self.recs, self.plain, self.unterminated = parsed
        self.readded = set()
        self.orphaned = set()

    def load_bytes(self, data):
        self.adopt(self.parse(data))

    # -- export --------------------------------------------------------------
    def export_items(self):
        """expected lines: ("skip", raw) | ("rec", key, hash expectation) | ("dup", key, hash).
        A shadowed duplicate line belongs to its user: it is written while the user exists and must be
        invisible once the user is deleted."""
        out = []
        for tok in self.tokens:
            if tok[0] == "skip":
                out.append(("skip", tok[1]))
            elif tok[0] == "dup":
                # a shadowed duplicate line is never expected in the export: the statement demands
                # "each user (per realm) exactly once"
                continue
            elif tok[1] in self.recs:
                out.append(("rec", tok[1], self.recs[tok[1]]))
        return out

    def snapshot(self):
        # duplicates of a user that was deleted (and maybe set again) since the load may stay dropped
        return {"items": self.export_items(), "recs": dict(self.recs), "optional": set(self.orphaned)}

    def snapshot_of(self, data, keep_dups=False):
        """expectation describing raw text; keep_dups: the text was written by the harness itself (initial /
        external file), so its shadowed duplicate lines are simply there"""
        items, first, _c, _b = read_db(data, self.nf)
        exp, seen = [], set()
        for it in items:
            if it[0] == "rec":
                if it[1] in seen:
                    if keep_dups:
                        exp.append(("dup", it[1], it[2]))
                    continue  # shadowed duplicate: not expected to be written back (each user exactly once)
                else:
                    seen.add(it[1])
                    exp.append(("rec", it[1], ("exact", it[2])))
            else:
                exp.append((it[0], it[1]))
        return {"items": exp, "recs": {k: ("exact", h) for k, h in first.items()}, "optional": set()}

    # -- edits ---------------------------------------------------------------
    def put(self, key, hexp, pid):
        existed = key in self.recs
        self.recs[key] = hexp
        self.plain[key] = pid
        if not existed:
            if any(t[0] == "rec" and t[1] == key for t in self.tokens):
                self.readded.add(key)  # delete then re-add keeps the original position
            else:
                self.tokens.append(["rec", key])
        return existed

    def remove(self, key):
        if key in self.recs:
            del self.recs[key]
            del self.plain[key]
            self.orphaned.add(key)
            return True
        return False

    def canon(self):
        return (
            tuple(tuple(t) for t in self.tokens), tuple(sorted(self.orphaned, key=repr)),
            tuple(sorted(self.recs.items(), key=repr)),
            tuple(sorted(self.plain.items(), key=repr)),
            self.bound, self.autosave,
        )


def hash_matches(actual, hexp, mat):
    if hexp[0] == "exact":
        return actual == hexp[1]
    pw = mat.n[hexp[1]]
    cands = {pw.encode(mat.enc), pw.encode("utf-8")}
    return any(ssha_verifies(actual, c) for c in cands)


def compare_db(data, snap, mat):
    """independent first-match reader vs expectation -> [(failure class, description, key or None)] (first failure)"""
    nf = mat.nf
    exp_items, exp_recs, optional = snap["items"], snap["recs"], snap["optional"]
    items, first, counts, bad = read_db(data, nf)
    fails = []
    exp_bad = [it[1] for it in exp_items if it[0] == "bad"]
    if bad != exp_bad:
        odd = [b for b in bad if b not in exp_bad] or bad or exp_bad
        fails.append(("unparseable_line", f"line {core.short(odd[0], 60)} is neither a record, a comment nor blank", None))
    exp_counts = collections.Counter(it[1] for it in exp_items if it[0] in ("rec", "dup"))
    for key, hexp in exp_recs.items():
        if key not in first:
            fails.append(("missing_user", f"current user {key!r} is not in the text", key))
        elif not hash_matches(first[key], hexp, mat):
            fails.append(("wrong_hash", f"user {key!r} is written with hash {core.short(first[key], 50)}, expected {core.short(hexp, 60)}", key))
    for key in first:
        if key not in exp_recs:
            fails.append(("absent_user_visible", f"{key!r} is not a current user but a first-match reader finds it in the text", key))
    for key in counts:
        if key in exp_recs and counts[key] > exp_counts.get(key, 0):
            fails.append(("user_twice", f"user {key!r} occurs on {counts[key]} lines, expected {exp_counts.get(key, 0)}", key))
    for key in exp_counts:
        if key in first and counts[key] < exp_counts[key] and not (key in optional and counts[key] == 1):
            fails.append(("untouched_record_lost", f"{key!r}: {exp_counts[key]} lines expected, {counts[key]} written", key))
    if fails:
        return fails[:1]
    # layout: comments / blank lines verbatim and everything in the original order
    a, seen = [], set()
    for it in strip_trailing_blank(items):
        if it[0] == "rec":
            if it[1] in seen:
                if it[1] not in optional:
                    a.append(("dup", it[1], it[2]))
            else:
                seen.add(it[1])
                a.append(("rec", it[1]))
        else:
            a.append((it[0], it[1]))
    e = []
    for it in strip_trailing_blank([x for x in exp_items]):
        if it[0] == "dup":
            if it[1] not in optional:
                e.append(it)
        else:
            e.append((it[0], it[1]))
    a_skip = [it[1] for it in a if it[0] == "skip"]
    e_skip = [it[1] for it in e if it[0] == "skip"]
    if a_skip != e_skip:
        fails.append(("comments_or_blank_lines_changed",
                      f"comment/blank lines {core.short(a_skip, 80)} differ from the original {core.short(e_skip, 80)}", None))
        return fails
    if a != e:
        fails.append(("order_changed", f"lines {core.short(a, 100)} differ from the expected {core.short(e, 100)}", None))
    return fails


# ---------------------------------------------------------------------------
# world = real object + model + environment
# ---------------------------------------------------------------------------
class World:
    pass


def _argform(w, text, form=None):
    """render a str as the configured argument form"""
    form = form or w.cfg["args"]
    return text if form == "text" else text.encode(w.cfg["enc"])


def make_world(cfg):
    E = setup_env()
    A = E["A"]
    E["rng"].log.clear()
    mat = Material.of(cfg)
    w = World()
    w.cfg, w.mat = cfg, mat
    w.dirty = False
    w.pending = []
    w.diverged = []
    w.nsteps = 0
    w.vm = VirtualMtime()
    E["shim"].path.vm = w.vm
    w.path = os.path.join(E["dir"], "scratch")
    w.path2 = os.path.join(E["dir"], "second")
    for p in (w.path, w.path2):
        try:
            os.unlink(p)
        except FileNotFoundError:
            pass
    m = w.model = Model(cfg, mat)
    init = mat.files[cfg["init"]]
    malformed = cfg["init"] == "bad"
    kw = {"encoding": cfg["enc"]}
    if cfg["args"] == "bytes":
        kw["return_unicode"] = False
    if cfg["cls"] == "htpasswd":
        klass = A.HtpasswdFile
        kw["context"] = E["ctx"]
    else:
        klass = A.HtdigestFile
        if cfg.get("realm"):
            kw["default_realm"] = _argform(w, mat.n[cfg["realm"]])
    w.vm.external_write(w.path2, mat.files["alt"], True)
    m.disk2 = m.snapshot_of(mat.files["alt"], keep_dups=True)
    bind = cfg["bind"]  # "none" | "file" | "new"
    m.autosave = bool(cfg.get("autosave"))
    w.impl = None
    try:
        if bind == "none":
            if malformed:
                w.impl = klass(autosave=m.autosave, **kw)
                try:
                    w.impl.load_string(init)
                    w.pending.append(("load_string:no_error:ValueError", "a malformed line was accepted by load_string"))
                    w.dirty = True
                except ValueError:
                    pass
                except Exception as e:  # noqa: BLE001
                    w.pending.append((f"load_string:raises:{type(e).__name__}", f"malformed file: {e!r}"))
                    w.dirty = True
            else:
                w.impl = klass.from_string(init, autosave=m.autosave, **kw)
                m.load_bytes(init)
        elif bind == "file":
            if malformed:
                raise HarnessError("bound roots start from well-formed files")
            w.vm.external_write(w.path, init, True)
            w.impl = klass(w.path, autosave=m.autosave, **kw)
            m.bound = True
            m.load_bytes(init)
            m.disk = m.snapshot_of(init, keep_dups=True)
            m.loaded_mt = w.vm.getmtime(w.path)
        elif bind == "new":
            w.impl = klass(w.path, new=True, autosave=m.autosave, **kw)
            m.bound = True
        else:
            raise HarnessError(f"bind={bind}")
    except HarnessError:
        raise
    except Exception as e:  # noqa: BLE001
        w.impl = None
        w.dirty = True
        w.pending.append((f"construct:raises:{type(e).__name__}",
                          f"creating the object (initial file {cfg['init']!r}, binding {cfg['bind']}) raised {e!r}"))
    return w


def read_file(path):
    try:
        with open(path, "rb") as fh:
            return fh.read()
    except FileNotFoundError:
        return None


def current_mt(w):
    try:
        return w.vm.getmtime(w.path)
    except FileNotFoundError:
        return None


def mt_class(mt, cur):
    return (mt == 0, cur is not None and mt == cur)


def impl_users(w):
    """sorted list of current keys as the implementation reports them, encoded to bytes"""
    impl, mat = w.impl, w.mat

    def enc(x):
        return x.encode(mat.enc) if isinstance(x, str) else x

    if mat.cls == "htpasswd":
        return sorted(enc(u) for u in impl.users())
    out = []
    for r in impl.realms():
        for u in impl.users(r):
            out.append((enc(u), enc(r)))
    return sorted(out)


def observe(w):
    """observable implementation state (used for 'nothing changed' and for state de-duplication)"""
    impl = w.impl
    try:
        text = impl.to_string()
    except Exception as e:  # noqa: BLE001
        text = ("raises", type(e).__name__)
    try:
        users = tuple(impl_users(w))
    except Exception as e:  # noqa: BLE001
        users = ("raises", type(e).__name__)
    return (text, users, bool(impl.autosave), read_file(w.path), read_file(w.path2))


# ---------------------------------------------------------------------------
# events
# ---------------------------------------------------------------------------
def label(ev):
    return ":".join(str(x) for x in ev)


TEXT_FAILS = ("missing_user", "unparseable_line", "comments_or_blank_lines_changed", "wrong_hash", "user_twice",
              "untouched_record_lost", "order_changed", "absent_user_visible")


def situation(w, fail, key=None):
    """coarse cause tag derived from the MODEL (keeps keys of different defects apart)"""
    m = w.model
    readd = (key in m.readded) if key is not None else bool(m.readded)
    unterm = m.unterminated is not None and (
        bool(m.readded) or any(t[0] == "rec" and t[1] in m.recs for t in m.tokens[m.unterminated + 1:]))
    if fail in ("raises", "user_twice") and readd:
        return "after_delete_and_readd"
    if fail in TEXT_FAILS and unterm:
        return "after_unterminated_last_line"
    if fail == "absent_user_visible" and key is not None:
        if any(t[0] == "dup" and t[1] == key for t in m.tokens):
            return "shadowed_duplicate_line"
    if fail in TEXT_FAILS and m.readded:
        return "after_delete_and_readd"
    return "-"


def vkey(w, what):
    return f"C16|{w.cfg['cls']}|{what}"


def _call(fn, *a):
    try:
        return ("ret", fn(*a))
    except HarnessError:
        raise
    except Exception as e:  # noqa: BLE001
        return ("exc", e)


def apply_event(w, ev, acc=None):
    """apply one event to implementation and model; returns [(key, desc)]"""
    ev = tuple(ev)
    kind = ev[0]
    if w.diverged:
        return []
    w.nsteps += 1
    impl, m, mat, cfg = w.impl, w.model, w.mat, w.cfg
    digest = mat.cls == "htdigest"
    out = []
    n = mat.n

    def bad(what, desc):
        out.append((vkey(w, what), f"[{MODE}] {label(ev)}: {desc}"))

    def realm_args(r):
        """positional realm argument list: '-' = rely on default_realm"""
        if not digest:
            return []
        if r == "-":
            return []
        return [_argform(w, n[r])]

    def key_of(u, r):
        if not digest:
            return mat.key(u)
        return mat.key(u, cfg["realm"] if r == "-" else r)

    # ---- plan: expected outcome + model commit ------------------------------
    mutating = False  # a successful change of the database (triggers autosave)
    expect = None  # ("ret", value) | ("exc", class) | ("any",)
    commit = None
    call = None
    pre_mt = impl.mtime
    pre_cur = current_mt(w) if m.bound else None

    if kind == "setpw":
        u, r, p = (ev[1], ev[2], ev[3]) if digest else (ev[1], None, ev[2])
        key = key_of(u, r)
        args = [_argform(w, n[u])] + realm_args(r) + [_argform(w, n[p])]
        call = lambda: impl.set_password(*args)  # noqa: E731
        expect = ("ret", key in m.recs)
        if digest:
            hexp = ("exact", digest_hash(key[0], key[1], mat.b(p)))
        else:
            hexp = ("pw", p)
        commit = lambda: m.put(key, hexp, p)  # noqa: E731
        mutating = True
    elif kind == "sethash":
        u, r, form = (ev[1], ev[2], ev[3]) if digest else (ev[1], None, ev[2])
        key = key_of(u, r)
        H = mat.fixed_hash()
        harg = H.decode("ascii") if form == "str" else H
        args = [_argform(w, n[u])] + realm_args(r) + [harg]
        call = lambda: impl.set_hash(*args)  # noqa: E731
        expect = ("ret", key in m.recs)
        commit = lambda: m.put(key, ("exact", H), mat.infer_plain(key, H))  # noqa: E731
        mutating = True
    elif kind == "delete":
        u, r = (ev[1], ev[2]) if digest else (ev[1], None)
        key = key_of(u, r)
        args = [_argform(w, n[u])] + realm_args(r)
        call = lambda: impl.delete(*args)  # noqa: E731
        expect = ("ret", key in m.recs)
        mutating = key in m.recs
        commit = lambda: m.remove(key)  # noqa: E731
    elif kind == "check":
        u, r, p = (ev[1], ev[2], ev[3]) if digest else (ev[1], None, ev[2])
        key = key_of(u, r)
        args = [_argform(w, n[u])] + realm_args(r) + [_argform(w, n[p])]
        call = lambda: impl.check_password(*args)  # noqa: E731
        if key not in m.recs:
            expect = ("ret", None)
        else:
            ok = m.plain.get(key) == p
            expect = ("ret", ok)
            hexp = m.recs[key]
            if ok and not digest and hexp[0] == "exact" and hexp[1].startswith(b"{MD5}"):
                mutating = True  # deprecated scheme: the upgraded hash must be stored

                def commit():
                    m.recs[key] = ("pw", p)
    elif kind == "delrealm":
        r = ev[1]
        rb = mat.b(cfg["realm"] if r == "-" else r)
        keys = [k for k in m.recs if k[1] == rb]
        if r == "-":
            call = lambda: impl.delete_realm(None)  # noqa: E731
        else:
            call = lambda: impl.delete_realm(_argform(w, n[r]))  # noqa: E731
        expect = ("ret", len(keys))
        mutating = bool(keys)

        def commit():
            for k in keys:
                m.remove(k)
    elif kind == "to_string":
        call = impl.to_string
        expect = ("any",)
    elif kind == "save":
        call = impl.save
        if m.bound:
            expect = ("ret", None)

            def commit():
                m.disk = m.snapshot()
                m.loaded_mt = w.vm.getmtime(w.path)
        else:
            expect = ("exc", RuntimeError)
    elif kind == "save2":
        call = lambda: impl.save(w.path2)  # noqa: E731
        expect = ("ret", None)

        def commit():
            m.disk2 = m.snapshot()
    elif kind in ("load", "lic", "load2"):
        if kind == "load2":
            call = lambda: impl.load(w.path2)  # noqa: E731
            data = read_file(w.path2)
            reload_expected = True
        else:
            call = impl.load if kind == "load" else impl.load_if_changed
            data = read_file(w.path) if m.bound else None
            reload_expected = True
            if kind == "lic" and m.bound and data is not None:
                reload_expected = m.loaded_mt == 0 or m.loaded_mt != pre_cur
        if kind != "load2" and not m.bound:
            expect = ("exc", RuntimeError)
        elif not reload_expected:
            expect = ("ret", False)
        elif data is None:
            expect = ("exc", OSError)
        else:
            try:
                parsed = m.parse(data)
            except ModelValueError:
                parsed = None
            if parsed is None:
                expect = ("exc", ValueError)
            else:
                expect = ("ret", True) if kind == "lic" else ("any",)

                def commit():
                    m.adopt(parsed)
                    m.loaded_mt = 0 if kind == "load2" else w.vm.getmtime(w.path)
    elif kind == "loadstr":
        fid, form = ev[1], ev[2]
        data = mat.files[fid]
        arg = data if form == "bytes" else data.decode(mat.enc)
        call = lambda: impl.load_string(arg)  # noqa: E731
        try:
            parsed = m.parse(data)
        except ModelValueError:
            parsed = None
        if parsed is None:
            expect = ("exc", ValueError)
        else:
            expect = ("any",)

            def commit():
                m.adopt(parsed)
                m.loaded_mt = 0
    elif kind == "ext":
        fid, bump = ev[1], ev[2]
        if not m.bound:
            raise HarnessError("ext event on an unbound object")
        data = mat.files[fid]
        w.vm.external_write(w.path, data, int(bump))
        m.disk = m.snapshot_of(data, keep_dups=True)
        if acc is not None:
            acc.outcome((mat.cls, kind, "environment"))
        return out
    elif kind == "autosave":
        v = bool(ev[1])
        impl.autosave = v
        m.autosave = v
        return out
    else:
        raise HarnessError(f"unknown event {ev!r}")

    # ---- run the real method ------------------------------------------------
    pre_obs = observe(w) if expect[0] == "exc" else None
    res = _call(call)
    saving = mutating and m.autosave and m.bound
    oc = ("ret", core.short(res[1], 30) if kind != "to_string" else "bytes") if res[0] == "ret" else ("exc", type(res[1]).__name__)
    if acc is not None:
        acc.outcome((mat.cls, kind) + oc)
        acc.cls(MODE, mat.cls, cfg["theme"], label(ev), oc[1], len(m.recs), sum(1 for t in m.tokens if t[0] != "rec"), m.bound, m.autosave)
    if res[0] == "exc":
        e = res[1]
        if expect[0] == "exc" and isinstance(e, expect[1]):
            post = observe(w)
            if post != pre_obs:
                bad(f"{kind}:failed_but_changed", f"raised {type(e).__name__} as expected but the object / files changed")
            elif m.bound and mt_class(impl.mtime, current_mt(w)) != mt_class(pre_mt, pre_cur):
                bad("failed_load:mtime_changed",
                    f"raised {type(e).__name__} and kept its records, but its mtime went from {mt_class(pre_mt, pre_cur)} to "
                    f"{mt_class(impl.mtime, current_mt(w))} (zero, equals file): the next load_if_changed() decides differently")
            if out:
                w.dirty = True
            return out
        where = "export" if kind in ("to_string", "save", "save2") else ("autosave" if saving else kind)
        sit = situation(w, "raises") if where in ("export", "autosave") else "-"
        if saving or where == "export":
            # judge the situation after the model took the step (the export that failed is of the NEW state)
            if commit is not None and kind not in ("save", "save2", "to_string"):
                commit()
            sit = situation(w, "raises")
        bad(f"{where}:raises:{type(e).__name__}:{sit}", f"unexpected {e!r} (expected {core.short(expect, 60)})")
        w.dirty = True
        return out
    val = res[1]
    if expect[0] == "exc":
        bad(f"{kind}:no_error:{expect[1].__name__}", f"returned {core.short(val, 60)}, expected {expect[1].__name__}")
        w.dirty = True
        return out
    if expect[0] == "ret" and (val is not expect[1] and not (type(val) is type(expect[1]) and val == expect[1])):
        what = f"{kind}:return"
        if kind == "check":
            what = f"check_password:{expect[1]}_expected_got_{val}"
            if expect[1] is True and any(ord(c) > 127 for c in n[ev[-1]]) and cfg["args"] == "text" and mat.enc != "utf-8":
                what += ":non_ascii_text_password_non_utf8_file"
        elif kind == "lic":
            what = "load_if_changed:" + ("reloaded_unchanged_file" if val else "ignored_changed_mtime")
        bad(what, f"returned {core.short(val, 60)}, the model says {core.short(expect[1], 60)}")
        w.dirty = True
        return out
    if kind == "to_string" and not isinstance(val, bytes):
        bad("to_string:type", f"returned {type(val).__name__}")
    if commit is not None:
        commit()
    if saving:
        m.disk = m.snapshot()
        m.loaded_mt = w.vm.getmtime(w.path) if read_file(w.path) is not None else 0
    if out:
        w.dirty = True
    return out


def invariant(w):
    """model agreement of the reached state -> [(key, desc)]"""
    out = list((vkey(w, k), d) for k, d in w.pending) if w.nsteps == 0 else []
    if w.diverged:
        return list(w.diverged)
    if w.dirty:
        return out
    impl, m, mat = w.impl, w.model, w.mat

    def bad(what, desc):
        out.append((vkey(w, what), f"[{MODE}] {desc}"))

    # (1) exported text
    r = _call(impl.to_string)
    if r[0] == "exc":
        bad(f"export:raises:{type(r[1]).__name__}:{situation(w, 'raises')}", f"to_string() raised {r[1]!r}")
        return out
    for fail, desc, key in compare_db(r[1], m.snapshot(), mat):
        bad(f"export:{fail}:{situation(w, fail, key)}", f"to_string() = {core.short(r[1], 120)}: {desc}")
    if out:
        return out
    # saved files
    for path, exp, name in ((w.path, m.disk, "scratch file"), (w.path2, m.disk2, "explicit-path file")):
        data = read_file(path)
        if exp is None:
            if data is not None:
                bad("file:unexpected_write", f"{name} was created though nothing should have been saved")
            continue
        if data is None:
            bad("file:missing", f"{name} vanished / was never written")
            continue
        for fail, desc, key in compare_db(data, exp, mat):
            # the export of the current state was just verified, so this is a problem of the save path
            bad("file:content_mismatch", f"{name} = {core.short(data, 120)} is not the state at the last save ({fail}): {desc}")
    if out:
        return out
    # (2) inspection methods
    r = _call(lambda: impl_users(w))
    if r[0] == "exc":
        bad(f"users:raises:{type(r[1]).__name__}", f"users()/realms() raised {r[1]!r}")
        return out
    if r[1] != sorted(m.recs):
        bad("users:mismatch", f"users()/realms() report {core.short(r[1], 100)}, the model has {core.short(sorted(m.recs), 100)}")
    want_type = bytes if w.cfg["args"] == "bytes" else str
    if mat.cls == "htpasswd":
        if any(type(u) is not want_type for u in impl.users()):
            bad("users:type", f"users() returned {[type(u).__name__ for u in impl.users()]} with return_unicode={want_type is str}")
        probes = [("u1", None), ("u2", None), ("uu", None)]
    else:
        probes = [(u, r) for u in ("u1", "u2", "uu") for r in ("r1", "r2")]
        if w.cfg.get("realm"):
            r = _call(impl.users)
            want = sorted(k[0] for k in m.recs if k[1] == mat.b(w.cfg["realm"]))
            got = sorted((x.encode(mat.enc) if isinstance(x, str) else x) for x in r[1]) if r[0] == "ret" else r
            if got != want:
                bad("users:default_realm", f"users() with the default realm gave {core.short(got, 80)}, the model has {core.short(want, 80)}")
    for u, rr in probes:
        key = mat.key(u, rr)
        args = [_argform(w, mat.n[u])] + ([_argform(w, mat.n[rr])] if rr else [])
        r = _call(lambda: impl.get_hash(*args))
        if r[0] == "exc":
            bad(f"get_hash:raises:{type(r[1]).__name__}", f"get_hash{tuple(args)!r} raised {r[1]!r}")
            continue
        h = r[1]
        if isinstance(h, str):
            h = h.encode(mat.enc)
        if key not in m.recs:
            if h is not None:
                bad("get_hash:absent_user", f"get_hash{tuple(args)!r} = {core.short(h, 50)} for a user the model does not have")
        elif h is None or not hash_matches(h, m.recs[key], mat):
            bad("get_hash:mismatch", f"get_hash{tuple(args)!r} = {core.short(h, 50)}, the model expects {core.short(m.recs[key], 60)}")
    # (6) mtime bookkeeping
    if m.bound:
        cur = current_mt(w)
        if mt_class(impl.mtime, cur) != mt_class(m.loaded_mt, cur):
            bad("mtime:bookkeeping", f"(mtime is zero, mtime equals the file's) = {mt_class(impl.mtime, cur)}, the model has {mt_class(m.loaded_mt, cur)}")
    if bool(impl.autosave) != m.autosave:
        bad("autosave:flag", "autosave attribute differs from what was set")
    return out


def snap_canon(snap):
    if snap is None:
        return None
    return (repr(snap["items"]), repr(sorted(snap["recs"].items(), key=repr)), repr(sorted(snap["optional"], key=repr)))


def canon(w):
    m = w.model
    if w.impl is None:
        return ("no object",)
    cur = current_mt(w) if m.bound else None
    return (observe(w), mt_class(w.impl.mtime, cur), m.canon(), mt_class(m.loaded_mt, cur),
            snap_canon(m.disk), snap_canon(m.disk2))


# ---------------------------------------------------------------------------
# themes (event alphabets, ordered simplest first)
# ---------------------------------------------------------------------------
def alphabet(cfg, quick):
    theme, digest = cfg["theme"], cfg["cls"] == "htdigest"
    evs = []
    if theme == "edit" and not digest:
        if quick:
            sp = [("u1", "p1"), ("u1", "p2"), ("u2", "p1"), ("uu", "p2")]
            sh = [("u1", "str"), ("u2", "bytes")]
            ck = [("u1", "p1"), ("u1", "p2"), ("u2", "p1"), ("uu", "p2"), ("uu", "p1")]
        else:
            sp = [(u, p) for u in ("u1", "u2", "uu") for p in ("p1", "p2")]
            sh = [(u, f) for u in ("u1", "u2", "uu") for f in ("str", "bytes")]
            ck = [(u, p) for u in ("u1", "u2", "uu") for p in ("p1", "p2")]
        evs += [("setpw", u, p) for u, p in sp]
        evs += [("sethash", u, f) for u, f in sh]
        evs += [("delete", u) for u in ("u1", "u2", "uu")]
        evs += [("check", u, p) for u, p in ck]
        evs += [("to_string",)]
    elif theme == "edit" and digest:
        d = "-" if cfg.get("realm") else "r1"  # the default realm (r1) is passed implicitly when configured
        if quick:
            sp = [("u1", d, "p1"), ("u1", "r2", "p1"), ("u1", d, "p2"), ("u2", d, "p1"), ("uu", "r2", "p2")]
            sh = [("u1", d, "str"), ("u2", "r2", "bytes")]
            dl = [("u1", d), ("u1", "r2"), ("u2", d)]
            ck = [("u1", d, "p1"), ("u1", "r2", "p1"), ("u1", d, "p2"), ("u2", d, "p1"), ("uu", "r2", "p2")]
        else:
            # five (user, realm) keys; the full 3 x 2 x 2 product does not fit the budget at depth 6
            sp = [("u1", d, "p1"), ("u1", d, "p2"), ("u1", "r2", "p1"), ("u1", "r2", "p2"), ("u2", d, "p1"), ("u2", d, "p2"),
                  ("u2", "r2", "p1"), ("uu", "r2", "p2")]
            sh = [("u1", d, "str"), ("u1", "r2", "bytes"), ("u2", d, "bytes"), ("uu", "r2", "str")]
            dl = [("u1", d), ("u1", "r2"), ("u2", d), ("u2", "r2"), ("uu", "r2")]
            ck = sp + [("uu", "r2", "p1")]
        evs += [("setpw",) + x for x in sp]
        evs += [("sethash",) + x for x in sh]
        evs += [("delete",) + x for x in dl]
        evs += [("check",) + x for x in ck]
        evs += [("delrealm", d), ("delrealm", "r2"), ("to_string",)]
    elif theme == "file":
        r = (("-" if cfg.get("realm") else "r1"),) if digest else ()
        evs += [("save",), ("load",), ("lic",)]
        if cfg["bind"] != "none":
            evs += [("ext", "alt", 1), ("ext", "alt", 0), ("ext", "alt2", -1), ("ext", "bad", 1)]
        evs += [("loadstr", "alt2", "str"), ("loadstr", "bad", "bytes"), ("loadstr", "noeol_comment", "bytes")]
        evs += [("load2",), ("save2",)]
        evs += [("autosave", 1), ("autosave", 0)]
        evs += [("setpw", "u1") + r + ("p2",), ("delete", "u1") + r, ("check", "u1") + r + ("p1",),
                ("sethash", "u2") + r + ("str",)]
        if digest:
            evs += [("delrealm", r[0])]
        if not quick:
            evs += [("setpw", "uu") + r + ("p1",), ("delete", "u2") + r, ("to_string",)]
    else:
        raise HarnessError(f"theme {theme}")
    return evs


def enabled_events(w, evs):
    m = w.model
    out = []
    if w.impl is None or w.dirty:
        return out  # a root that could not be built / already violated is reported, not expanded
    for ev in evs:
        if ev[0] == "delrealm" and m.autosave and m.bound:
            rb = w.mat.b(w.cfg["realm"] if ev[1] == "-" else ev[1])
            if not any(k[1] == rb for k in m.recs):
                continue  # whether a no-op mutation triggers an autosave is unspecified: not explored
        out.append(ev)
    return out


def roots(quick, seed):
    cfgs = []

    def add(**kw):
        kw.setdefault("realm", None)
        kw.setdefault("autosave", 0)
        kw.setdefault("bind", "none")
        kw["seed"] = seed
        cfgs.append(kw)

    inits = ["empty", "plain", "comments", "dups", "trailing_blank", "crlf", "noeol_rec", "noeol_comment", "noeol_dup", "bad"]
    forms = [("utf-8", "text"), ("latin-1", "text"), ("utf-8", "bytes"), ("latin-1", "bytes")]
    for cls in ("htpasswd", "htdigest"):
        realms = [None] if cls == "htpasswd" else ["r1", None]
        for init in inits:
            for enc, args in forms:
                for realm in realms:
                    full = init in ("comments", "dups")
                    if quick and not full and (enc, args) != ("utf-8", "text"):
                        continue
                    if cls == "htdigest" and not full and ((enc, args) != ("utf-8", "text") or realm is None):
                        continue  # (budget) htdigest: every initial file once, comments / dups in every form
                    if quick and cls == "htdigest" and realm is None and (enc, args) not in (("utf-8", "text"), ("latin-1", "bytes")):
                        continue
                    add(cls=cls, theme="edit", init=init, enc=enc, args=args, realm=realm)
        for bind, init, autosave in (("file", "comments", 0), ("file", "comments", 1), ("new", "empty", 0), ("new", "empty", 1),
                                     ("none", "plain", 1), ("file", "dups", 1), ("file", "noeol_dup", 0)):
            for enc, args in (forms[0], forms[3]):
                if (enc, args) != forms[0] and (quick or (bind, init, autosave) not in (("file", "comments", 1), ("new", "empty", 0))):
                    continue
                add(cls=cls, theme="file", init=init, enc=enc, args=args, bind=bind, autosave=autosave,
                    realm=("r1" if cls == "htdigest" else None))
    return cfgs


# ---------------------------------------------------------------------------
# exploration of one shard
# ---------------------------------------------------------------------------
def make_build(cfg):
    def build(hist):
        w = make_world(cfg)
        for i, ev in enumerate(hist):
            vs = apply_event(w, ev)
            if vs or w.dirty:
                # the same history on a FRESH object was clean before: rng and mtime are owned, so the only
                # remaining source of a different run is state the implementation kept outside the object
                w.diverged = [(vkey(w, "fresh_object:history_replays_differently"),
                               f"[{MODE}] the history {' ; '.join(label(e) for e in hist[:i + 1])} ran clean on one fresh object and "
                               f"gives {vs[0][1] if vs else 'a violation'} on another fresh object (state shared between objects?)")]
                w.dirty = True
                break
        return w

    return build


def state_hash(cfg, k):
    return hashlib.blake2b(repr((cfg_id(cfg), k)).encode("utf-8", "backslashreplace"), digest_size=8).digest()


def explore_shard(task):
    cfg = task["cfg"]
    depth = task["depth"]
    quick = task["quick"]
    if cfg["mode"] != MODE:
        raise HarnessError(f"shard for mode {cfg['mode']} running in a {MODE} interpreter")
    acc = Acc()
    t0 = time.process_time()
    evs = alphabet(cfg, quick)
    seen_hashes = set()

    build = make_build(cfg)

    def step(w, ev):
        acc.ev()
        acc.axis("event", ev[0])
        return apply_event(w, ev, acc)

    def canon_(w):
        k = canon(w)
        seen_hashes.add(state_hash(cfg, k))
        return k

    res = explore.bfs(build, lambda w: enabled_events(w, evs), step, canon_, invariant, depth, event_label=label)
    case0 = {"part": "history", "cfg": cfg}
    for key, desc, hist in res.violations:
        acc.violation(key, desc + f" [history: {' ; '.join(label(e) for e in hist) or '(initial state)'}]",
                      dict(case0, history=[list(e) for e in hist]))
    for k in ("cls", "mode", "theme", "init", "enc", "args", "bind", "autosave", "realm"):
        acc.axis(k, cfg[k])
    for d, c in res.depth_hist.items():
        acc.hist.setdefault("state_depth", collections.Counter())[str(d)] += c
    acc.count("transitions", res.transitions)
    acc.count(f"cpu_ms:{cfg['cls']}:{cfg['theme']}", int(1000 * (time.process_time() - t0)))
    acc.count("shard_states", res.states)
    acc.count(f"max_depth={res.max_depth}")
    for h in res.samples[:1]:
        acc.sample(dict(case0, history=[list(e) for e in h]))
    acc.notes.append({"c16_states": seen_hashes, "max_depth": res.max_depth})
    return acc


# ---------------------------------------------------------------------------
# illegal / boundary names (full product)
# ---------------------------------------------------------------------------
FORBIDDEN = {":": "colon", "\n": "lf", "\r": "cr", "\t": "tab", "\0": "nul"}
OTHER_CTRL = {"\x0b": "vt", "\x0c": "ff", "\x1f": "us", "\x7f": "del", "\x85": "nel"}


def name_specs(enc):
    """(class name, class group used in keys, text, verdict)   verdict: refuse | accept | either"""
    out = []
    for c, cn in FORBIDDEN.items():
        out += [(f"{cn}@start", cn, c + "ab", "refuse"), (f"{cn}@middle", cn, "a" + c + "b", "refuse"),
                (f"{cn}@end", cn, "ab" + c, "refuse"), (f"{cn}@alone", cn, c, "refuse")]
    out += [("256_ascii_bytes", "too_long", "a" * 256, "refuse"), ("1000_ascii_bytes", "too_long", "a" * 1000, "refuse"),
            ("255_ascii_bytes", "max_length", "a" * 255, "accept"), ("simple", "simple", "ab", "accept")]
    if enc == "utf-8":
        out += [("256_bytes_in_128_chars", "too_long", "ü" * 128, "refuse"),
                ("255_bytes_in_128_chars", "max_length", "ü" * 127 + "a", "accept")]
    else:
        out += [("255_latin1_bytes", "max_length", "ü" * 255, "accept"), ("256_latin1_bytes", "too_long", "ü" * 256, "refuse")]
    for c, cn in OTHER_CTRL.items():
        out += [(f"{cn}@start", cn, c + "ab", "either"), (f"{cn}@middle", cn, "a" + c + "b", "either"),
                (f"{cn}@end", cn, "ab" + c, "either")]
    out += [("hash@start", "leading_hash", "#ab", "either"), ("blank+hash@start", "leading_hash", " #ab", "either"),
            ("hash@middle", "inner_hash", "a#b", "either"), ("blank@start", "leading_blank", " ab", "either"),
            ("blank@end", "trailing_blank", "ab ", "either"), ("empty", "empty", "", "either")]
    return out


NAME_METHODS = {
    "htpasswd": ["set_password", "set_hash", "check_password", "delete", "get_hash"],
    "htdigest": ["set_password", "set_hash", "check_password", "delete", "get_hash", "users", "delete_realm",
                 "default_realm+set_password", "default_realm+users"],
}


def eval_name(case):
    """one (class, method, field, name, argform, encoding, binding) case -> [(key, desc)]"""
    E = setup_env()
    A = E["A"]
    cls, meth, field, enc, args = case["cls"], case["method"], case["field"], case["enc"], case["args"]
    text, verdict, ncls, grp = case["name"], case["verdict"], case["name_class"], case["name_group"]
    mgrp = "set" if "set_" in meth else "other"
    cfg = {"cls": cls, "enc": enc, "seed": case.get("seed", 0)}
    mat = Material.of(cfg)
    out = []
    comp = f"C16|{cls}|names"

    def form(s):
        return s if args == "text" else s.encode(enc)

    name = form(text)
    nameb = text.encode(enc)
    vm = VirtualMtime()
    E["shim"].path.vm = vm
    path = os.path.join(E["dir"], "names")
    init = mat.files["plain"]
    bound = bool(case.get("bound"))
    kw = {"encoding": enc}
    if cls == "htpasswd":
        kw["context"] = E["ctx"]
        klass = A.HtpasswdFile
    else:
        klass = A.HtdigestFile
    if bound:
        vm.external_write(path, init, True)
        made = _call(lambda: klass(path, autosave=True, **kw))
    else:
        made = _call(lambda: klass.from_string(init, **kw))
    if made[0] == "exc":
        return [(f"C16|{cls}|construct:raises:{type(made[1]).__name__}", f"creating the object from the 'plain' file raised {made[1]!r}")]
    obj = made[1]
    good_user, good_realm, pw = form(mat.n["u1"]), form(mat.n["r1"]), form(mat.n["p1"])
    H = mat.fixed_hash().decode("ascii")
    user = name if field == "user" else good_user
    realm = name if field == "realm" else good_realm
    rargs = [realm] if cls == "htdigest" else []
    if meth.startswith("default_realm+"):
        obj.default_realm = realm
        rargs = []
    calls = {
        "set_password": lambda: obj.set_password(*([user] + rargs + [pw])),
        "set_hash": lambda: obj.set_hash(*([user] + rargs + [H])),
        "check_password": lambda: obj.check_password(*([user] + rargs + [pw])),
        "delete": lambda: obj.delete(*([user] + rargs)),
        "get_hash": lambda: obj.get_hash(*([user] + rargs)),
        "users": lambda: obj.users(realm),
        "delete_realm": lambda: obj.delete_realm(realm),
        "default_realm+set_password": lambda: obj.set_password(user, pw),
        "default_realm+users": lambda: obj.users(),
    }
    b0 = _call(obj.to_string)
    if b0[0] == "exc":
        return [(f"C16|{cls}|export:raises:{type(b0[1]).__name__}:-", f"to_string() of the freshly loaded 'plain' file raised {b0[1]!r}")]
    before = (b0[1], read_file(path) if bound else None)
    r = _call(calls[meth])
    after = (_call(obj.to_string), read_file(path) if bound else None)
    raised = r[0] == "exc"
    if raised and not isinstance(r[1], ValueError):
        out.append((f"{comp}|{mgrp}:{field}:raises:{type(r[1]).__name__}",
                    f"{meth} with {field} {core.short(name, 40)} ({ncls}) raised {r[1]!r} (ValueError or acceptance expected)"))
        return out
    if verdict == "refuse" and not raised:
        out.append((f"{comp}|{mgrp}:{field}:accepted:{grp}",
                    f"{meth} accepted the {field} name {core.short(name, 40)} ({ncls}); ValueError expected"))
        return out
    if raised:
        if verdict == "accept":
            out.append((f"{comp}|{mgrp}:{field}:refused_legal:{grp}",
                        f"{meth} refused the legal {field} name {core.short(name, 40)} ({ncls}): {r[1]!r}"))
        if after != (("ret", before[0]), before[1]):
            out.append((f"{comp}|{mgrp}:{field}:refused_but_changed", f"{meth} refused {core.short(name, 40)} ({ncls}) but the database changed"))
        return out
    # accepted: the database must stay faithful
    if meth in ("set_password", "set_hash", "default_realm+set_password"):
        nf = mat.nf
        key = nameb if cls == "htpasswd" else ((nameb, mat.b("r1")) if field == "user" else (mat.b("u1"), nameb))
        problems = []
        if after[0][0] == "exc":
            problems.append(f"to_string raised {after[0][1]!r}")
        else:
            texts = [("to_string()", after[0][1])] + ([("saved file", after[1])] if bound else [])
            for what, data in texts:
                _items, first, counts, badl = read_db(data or b"", nf)
                if badl:
                    problems.append(f"{what} has the unparseable line {core.short(badl[0], 50)}")
                if key not in first:
                    problems.append(f"{what} does not contain the new entry")
                elif counts[key] != 1:
                    problems.append(f"{what} contains the new entry {counts[key]} times")
                if set(first) - {key, mat.key("u1", "r1"), mat.key("u2", "r1")}:
                    problems.append(f"{what} contains foreign entries {core.short(sorted(set(first), key=repr), 80)}")
            if not problems:
                again = _call(lambda: klass.from_string(after[0][1], **kw))
                if again[0] == "exc":
                    problems.append(f"the class cannot reload its own export: {again[1]!r}")
                elif meth != "set_hash":
                    obj2 = again[1]
                    ok = _call(lambda: obj2.check_password(*([user] + ([realm] if cls == "htdigest" else []) + [pw])))
                    if ok != ("ret", True):
                        problems.append(f"after a reload check_password gives {ok!r}")
        if problems and grp != "simple":
            # is it this kind of name, or does the same happen with an ordinary one?
            ctl = eval_name(dict(case, name="ab", name_class="simple", name_group="simple", verdict="accept"))
            if any(":accepted_name_not_faithful:" in k for k, _d in ctl):
                grp = "any_name"
        if problems:
            out.append((f"{comp}|{mgrp}:{field}:accepted_name_not_faithful:{grp}",
                        f"{meth} accepted the {field} name {core.short(name, 40)} ({ncls}) but {'; '.join(problems[:2])}"))
    elif meth in ("check_password", "get_hash"):
        if r[1] is not None:
            out.append((f"{comp}|other:{field}:found_unknown", f"{meth} returned {r[1]!r} for the unknown {field} {core.short(name, 40)}"))
    elif meth == "delete":
        if r[1] is not False:
            out.append((f"{comp}|other:{field}:deleted_unknown", f"delete returned {r[1]!r} for an unknown {field}"))
    if meth in ("check_password", "get_hash", "delete", "users", "delete_realm", "default_realm+users") and after != (("ret", before[0]), before[1]):
        out.append((f"{comp}|other:{field}:changed", f"{meth} on an unknown {field} changed the database"))
    return out


def name_cases(seed):
    cases = []
    for cls in ("htpasswd", "htdigest"):
        for enc in ("utf-8", "latin-1"):
            for ncls, grp, text, verdict in name_specs(enc):
                for meth in NAME_METHODS[cls]:
                    fields = ["user"] if cls == "htpasswd" else ["user", "realm"]
                    if meth in ("users", "delete_realm", "default_realm+set_password", "default_realm+users"):
                        fields = ["realm"]
                    for field in fields:
                        for args in ("text", "bytes"):
                            for bound in (0, 1):
                                cases.append({"part": "names", "cls": cls, "enc": enc, "name_class": ncls, "name_group": grp, "name": text,
                                              "verdict": verdict, "method": meth, "field": field, "args": args,
                                              "bound": bound, "seed": seed})
    return cases


def work_names(task):
    acc = Acc()
    for case in task["cases"]:
        case = dict(case, mode=MODE)
        acc.ev()
        vs = eval_name(case)
        acc.cls("names", MODE, case["cls"], case["enc"], case["name_class"], case["method"], case["field"], case["args"], case["bound"])
        acc.axis("name_class", case["name_class"])
        acc.axis("name_method", case["method"] + ":" + case["field"])
        acc.outcome(("names", case["verdict"], "viol" if vs else "ok"))
        for key, desc in vs:
            acc.violation(key, f"[{MODE}] {desc}", case)
        if case["name_class"] == "colon@middle" and case["method"] == "set_password":
            acc.sample(case)
    acc.count("name_cases", len(task["cases"]))
    return acc


# ---------------------------------------------------------------------------
# the shipped htpasswd_context, once per scheme / alias
# ---------------------------------------------------------------------------
def eval_default(case):
    setup_env()
    import passlib.apache as A

    scheme = case["scheme"]
    pw, other = "correct horse 1", "wrong horse 2"
    out = []

    def bad(what, desc):
        out.append((f"C16|default_context|{what}", f"default_scheme={scheme!r}: {desc}"))

    try:
        ht = A.HtpasswdFile(default_scheme=scheme) if scheme else A.HtpasswdFile()
        r = ht.set_password("someuser", pw)
    except Exception as e:  # noqa: BLE001
        bad(f"set_password:raises:{type(e).__name__}", f"{e!r}")
        return out
    if r is not False:
        bad("set_password:return", f"returned {r!r} for a new user")
    r = _call(ht.to_string)
    if r[0] == "exc":
        bad(f"export:raises:{type(r[1]).__name__}", f"to_string() raised {r[1]!r}")
        return out
    text = r[1]
    _items, first, counts, badl = read_db(text, 2)
    if badl or list(first) != [b"someuser"] or counts[b"someuser"] != 1:
        bad("export", f"to_string() = {core.short(text, 100)} does not hold exactly the one user")
        return out
    h = first[b"someuser"].decode("ascii", "replace")
    ident = A.htpasswd_context.identify(h)
    tag = "" if ident == (A.htpasswd_defaults.get(scheme, scheme) or "apr_md5_crypt") else f":hash_identified_as:{ident}"
    again = _call(lambda: A.HtpasswdFile.from_string(text))
    if again[0] == "exc":
        bad(f"reload:raises:{type(again[1]).__name__}", f"from_string(to_string()) raised {again[1]!r}")
        return out
    for obj, where in ((ht, "same object"), (again[1], "reloaded export")):
        for p, want in ((pw, True), (other, False)):
            r = _call(lambda: obj.check_password("someuser", p))
            if r[0] == "exc":
                bad(f"check_password:raises:{type(r[1]).__name__}{tag}", f"{where}: check_password raised {r[1]!r} (hash {core.short(h, 40)})")
            elif r[1] is not want:
                bad(f"check_password:{want}_expected{tag}", f"{where}: check_password({'right' if want else 'wrong'} password) = {r[1]!r} (hash {core.short(h, 40)} identified as {ident})")
        r = _call(lambda: obj.check_password("nobody", pw))
        if r != ("ret", None):
            bad("check_password:unknown_user", f"{where}: {r!r}")
    return out


def default_cases():
    import passlib.apache as A

    schemes = [None] + list(A.htpasswd_context.schemes()) + sorted(A.htpasswd_defaults)
    return [{"part": "default_context", "scheme": s, "mode": "normal"} for s in schemes]


def work_default(task):
    acc = Acc()
    case = task["case"]
    acc.ev()
    acc.cls("default_context", case["scheme"])
    acc.axis("default_scheme", case["scheme"])
    vs = eval_default(case)
    acc.outcome(("default_context", "viol" if vs else "ok"))
    for key, desc in vs:
        acc.violation(key, desc, case)
    acc.sample(case)
    return acc


# ---------------------------------------------------------------------------
# isolation: a fresh object is fresh (premise of the exploration: one fresh object per history)
# ---------------------------------------------------------------------------
CTORS = ("plain", "new_path", "from_string_empty", "from_string_file")


def eval_isolation(case):
    E = setup_env()
    A = E["A"]
    cls = case["cls"]
    cfg = {"cls": cls, "enc": "utf-8", "seed": case.get("seed", 0)}
    mat = Material.of(cfg)
    vm = VirtualMtime()
    E["shim"].path.vm = vm
    kw = {"context": E["ctx"]} if cls == "htpasswd" else {}
    klass = A.HtpasswdFile if cls == "htpasswd" else A.HtdigestFile
    rr = [mat.n["r1"]] if cls == "htdigest" else []
    out = []

    def bad(desc):
        out.append((f"C16|{cls}|isolation:state_shared_between_objects", f"{case['ctor_a']} then {case['ctor_b']}: {desc}"))

    def make(kind, tag):
        path = os.path.join(E["dir"], "iso-" + tag)
        if os.path.exists(path):
            os.unlink(path)
        if kind == "plain":
            return klass(**kw), b""
        if kind == "new_path":
            return klass(path, new=True, **kw), b""
        if kind == "from_string_empty":
            return klass.from_string(b"", **kw), b""
        return klass.from_string(mat.files["plain"], **kw), mat.files["plain"]

    def db(obj):
        return read_db(obj.to_string(), mat.nf)[1]

    try:
        a, a_init = make(case["ctor_a"], "a")
        a.set_password(*([mat.n["u1"]] + rr + [mat.n["p2"]]))
        a.set_hash(*([mat.n["uu"]] + rr + [mat.fixed_hash().decode("ascii")]))
        a.delete(*([mat.n["u2"]] + rr))
        a_db = db(a)
        b, b_init = make(case["ctor_b"], "b")
        want = read_db(b_init, mat.nf)[1]
        if db(b) != want:
            bad(f"a new object starts with {core.short(sorted(db(b), key=repr), 80)} instead of {core.short(sorted(want, key=repr), 80)}")
        b.set_password(*([mat.n["u2"]] + rr + [mat.n["p1"]]))
        b.delete(*([mat.n["u1"]] + rr))
        if db(a) != a_db:
            bad("editing the second object changed the first one")
    except HarnessError:
        raise
    except Exception as e:  # noqa: BLE001
        out.append((f"C16|{cls}|isolation:raises:{type(e).__name__}", f"{case['ctor_a']} then {case['ctor_b']}: {e!r}"))
    return out


# ---------------------------------------------------------------------------
# empty stored hash: a user whose hash field is the empty string IS a user (the plaintext scheme -- part of
# htpasswd_context -- stores the empty password that way; 'user:' is a well-formed line)
# ---------------------------------------------------------------------------
def eval_empty_hash(case):
    import passlib.apache as A
    from passlib.context import CryptContext

    how, form = case["how"], case["form"]
    out = []
    key = f"C16|htpasswd|empty_hash:{how}:"
    u = "bob" if form == "text" else b"bob"
    try:
        if how == "set_password_plaintext_default":
            ht = A.HtpasswdFile(default_scheme="plaintext")
            ht.set_password(u, "")
        elif how == "set_password_plaintext_context":
            ht = A.HtpasswdFile(context=CryptContext(["plaintext", "md5_crypt"]))
            ht.set_password(u, "")
        elif how == "set_hash_empty":
            ht = A.HtpasswdFile()
            ht.set_hash(u, "" if form == "text" else b"")
        else:
            ht = A.HtpasswdFile.from_string(b"alice:x\nbob:\n")
        if ht.get_hash(u) != b"":
            out.append((key + "get_hash", f"get_hash({u!r}) = {ht.get_hash(u)!r}, expected b''"))
        if "bob" not in ht.users():
            out.append((key + "users", f"users() = {ht.users()!r}"))
        for pw, want in (("", True), (b"", True), ("x", False)):
            got = ht.check_password(u, pw)
            if got is not want:
                out.append((key + f"check_password:{'right' if want else 'wrong'}_password", f"{how}: check_password({u!r}, {pw!r}) = {got!r}, expected {want} (the user exists, its stored hash is the empty string)"))
        text = ht.to_string()
        if b"bob:\n" not in text:
            out.append((key + "export", f"to_string() = {text!r}"))
        back = A.HtpasswdFile.from_string(text, default_scheme="plaintext")
        if back.check_password(u, "") is not True or back.check_password(u, "nope") is not False:
            out.append((key + "reload", f"{how}: after to_string -> from_string check_password({u!r}, '') / (.., 'nope') = {back.check_password(u, '')!r} / {back.check_password(u, 'nope')!r}"))
        if ht.check_password("nobody", "") is not None:
            out.append((key + "unknown_user", f"check_password('nobody', '') = {ht.check_password('nobody', '')!r}, expected None"))
    except Exception as e:  # noqa: BLE001
        out.append((key + f"raises:{type(e).__name__}", f"{how} ({form}): raised {e!r}"))
    return out


# ---------------------------------------------------------------------------
# part hash_text: what is stored in the hash field (a plaintext password, or anything handed to set_hash) either is
# refused with ValueError -- file unchanged -- or comes back, from the exported text, as exactly that user's hash
# ---------------------------------------------------------------------------
HASH_SIGMA = ("a", ":", "\n", "\r", " ", "\t", "#", "\u00e9", "$", "\x00")


def hash_texts(maxlen):
    out = []
    for n in range(1, maxlen + 1):
        for t in itertools.product(HASH_SIGMA, repeat=n):
            out.append("".join(t))
    return out


def eval_hash_text(case):
    import passlib.apache as A
    from passlib.context import CryptContext

    how, enc, text, form = case["how"], case["enc"], case["text"], case["form"]
    out = []
    key = f"C16|{'htdigest' if how == 'digest_set_hash' else 'htpasswd'}|hash_text:{how}:"
    cls_of = lambda t: "newline" if "\n" in t else "colon" if ":" in t else "trailing_blank" if t != t.rstrip() else "other"  # noqa: E731
    try:
        raw = text.encode(enc)
    except UnicodeEncodeError:
        return out
    arg = text if form == "text" else raw
    base = b"# c\nalice:x\n" if how != "digest_set_hash" else b"# c\nalice:r:x\n"
    try:
        if how == "plaintext_set_password":
            ht = A.HtpasswdFile.from_string(base, context=CryptContext(["plaintext"]), encoding=enc)
            call = lambda: ht.set_password("bob", arg)  # noqa: E731
            nf, k = 2, b"bob"
        elif how == "set_hash":
            ht = A.HtpasswdFile.from_string(base, encoding=enc)
            call = lambda: ht.set_hash("bob", arg)  # noqa: E731
            nf, k = 2, b"bob"
        else:
            ht = A.HtdigestFile.from_string(base, encoding=enc)
            call = lambda: ht.set_hash("bob", "r", arg)  # noqa: E731
            nf, k = 3, (b"bob", b"r")
        before = ht.to_string()
        try:
            call()
        except ValueError:
            if ht.to_string() != before:
                out.append((key + "refused_but_changed", f"{how}({arg!r}) [{enc}] raised ValueError but the file changed: {ht.to_string()!r}"))
            return out
        data = ht.to_string()
        items, first, counts, bad = read_db(data, nf)
        ka = b"alice" if nf == 2 else (b"alice", b"r")
        if bad or set(first) != {ka, k} or counts[k] != 1 or first.get(ka) != b"x" or first.get(k) != raw:
            out.append((key + f"accepted_not_faithful:{cls_of(text)}", f"{how}({arg!r}) [{enc}] was accepted; the exported text {data!r} reads back as {first!r} (malformed lines {bad!r}), expected alice and bob -> {raw!r}"))
            return out
        if how == "plaintext_set_password":
            back = A.HtpasswdFile.from_string(data, context=CryptContext(["plaintext"]), encoding=enc)
            for obj, lbl in ((ht, "live"), (back, "reloaded")):
                for pw, want in ((arg, True), (text, True), (raw, True), (text + "x", False)):
                    got = obj.check_password("bob", pw)
                    if got is not want:
                        out.append((key + f"check_password:{lbl}:{'right' if want else 'wrong'}", f"plaintext password {arg!r} [{enc}] ({lbl} object): check_password('bob', {pw!r}) = {got!r}, expected {want}"))
                        break
        g = ht.get_hash("bob") if nf == 2 else ht.get_hash("bob", "r")
        want_g = raw if nf == 2 else raw.decode(enc)
        if g != want_g or type(g) is not type(want_g):
            out.append((key + "get_hash", f"{how}({arg!r}) [{enc}]: get_hash = {g!r}, expected {want_g!r}"))
    except Exception as e:  # noqa: BLE001
        out.append((key + f"raises:{type(e).__name__}:{cls_of(text)}", f"{how}({arg!r}) [{enc}]: raised {e!r}"))
    return out


def eval_upgrade_type(case):
    """after check_password upgraded a deprecated hash, get_hash() / the export show the new hash like any other record"""
    import passlib.apache as A
    from passlib.context import CryptContext
    from passlib.hash import ldap_md5

    out = []
    ctx = CryptContext(["ldap_salted_sha1", "ldap_md5"], deprecated=["ldap_md5"])
    ht = A.HtpasswdFile.from_string(b"alice:x\n", context=ctx, encoding=case["enc"])
    ht.set_hash("bob", ldap_md5.hash("pw"))
    t0 = type(ht.get_hash("bob"))
    ok = ht.check_password("bob", "pw")
    g = ht.get_hash("bob")
    items, first, counts, bad = read_db(ht.to_string(), 2)
    if ok is not True or not isinstance(g, t0) or first.get(b"bob") != (g if isinstance(g, bytes) else None) or not first.get(b"bob", b"").startswith(b"{SSHA}"):
        out.append(("C16|htpasswd|upgrade:stored_form", f"after the upgrade get_hash('bob') = {g!r} (was a {t0.__name__}); the export reads {first.get(b'bob')!r}"))
    return out


def hash_text_cases(quick):
    cases = [{"part": "hash_text", "how": how, "enc": enc, "text": t, "form": form, "mode": "normal"}
             for how in ("plaintext_set_password", "set_hash", "digest_set_hash") for enc in ("utf-8", "latin-1")
             for t in hash_texts(2 if quick else 3) for form in ("text", "bytes")]
    cases += [{"part": "hash_text", "how": "upgrade_type", "enc": enc, "text": "", "form": "text", "mode": "normal"} for enc in ("utf-8", "latin-1")]
    return cases


def work_hash_text(task):
    acc = Acc()
    for case in task["cases"]:
        acc.ev()
        vs = eval_upgrade_type(case) if case["how"] == "upgrade_type" else eval_hash_text(case)
        acc.cls("hash_text", case["how"], case["enc"], case["form"], tuple(sorted(set(case["text"]))), len(case["text"]))
        acc.axis("hash_text_entry", case["how"])
        acc.outcome(("hash_text", "viol" if vs else "ok"))
        for key, desc in vs:
            acc.violation(key, desc, case)
    return acc


def empty_hash_cases():
    return [{"part": "empty_hash", "how": h, "form": f, "mode": "normal"}
            for h in ("set_password_plaintext_default", "set_password_plaintext_context", "set_hash_empty", "file_line") for f in ("text", "bytes")]


def work_empty_hash(task):
    acc = Acc()
    for case in task["cases"]:
        acc.ev()
        acc.cls("empty_hash", case["how"], case["form"])
        vs = eval_empty_hash(case)
        acc.outcome(("empty_hash", "viol" if vs else "ok"))
        for key, desc in vs:
            acc.violation(key, desc, case)
    return acc


# ---------------------------------------------------------------------------
# part "race": an external writer rewrites the bound file (in place, newer mtime) at the k-th environment seam
# INSIDE one load / load_if_changed / constructor call (E4: deviation from the default environment answer "nobody
# else touches the file while I read it").  Seams = before/after the library's open(), before/after each of its
# getmtime() calls, before/after it reads the lines.  Oracle (eventual consistency of reload-if-changed): after the
# call has returned and the application has polled load_if_changed() once more, the object exports the file's
# final content.  Not modelled: torn reads (a write in the middle of the line iteration) and replacement by rename
# while the file is open.
# ---------------------------------------------------------------------------
RACE_OPS = ("load", "load_if_changed", "ctor", "load_if_changed_unchanged")
RACE_MAX_SEAMS = 10


class _RaceFile:
    def __init__(self, fh, seam):
        self._fh, self._seam = fh, seam

    def __enter__(self):
        return self

    def __exit__(self, *a):
        self._fh.close()
        return False

    def __iter__(self):
        self._seam("before the lines are read")
        yield from self._fh
        self._seam("after the lines were read")

    def read(self, *a):
        self._seam("before the lines are read")
        data = self._fh.read(*a)
        self._seam("after the lines were read")
        return data

    def __getattr__(self, name):
        return getattr(self._fh, name)


def eval_race(case):
    """-> (violations, seam name or None)"""
    import builtins

    E = setup_env()
    A = E["A"]
    cls, enc, op, k = case["cls"], case["enc"], case["op"], case["k"]
    mat = Material.of({"cls": cls, "enc": enc, "seed": case.get("seed", 0)})
    vm = VirtualMtime()
    E["shim"].path.vm = vm
    path = os.path.join(E["dir"], "race")
    fa, fb, fc = mat.files["plain"], mat.files["alt"], mat.files["alt2"]
    kw = {"encoding": enc}
    if cls == "htpasswd":
        kw["context"] = E["ctx"]
        klass = A.HtpasswdFile
    else:
        klass = A.HtdigestFile
    vm.external_write(path, fa, True)
    obj = None
    if op != "ctor":
        obj = klass(path, **kw)
        if op != "load_if_changed_unchanged":
            vm.external_write(path, fb, True)
    count, fired = [0], [None]

    def seam(name):
        count[0] += 1
        if count[0] == k and fired[0] is None:
            fired[0] = name
            vm.external_write(path, fc, True)

    real_get = vm.getmtime

    def getmtime(p):
        seam("before getmtime()")
        r = real_get(p)
        seam("after getmtime()")
        return r

    def hooked_open(p, *a, **kw2):
        if os.fspath(p) != path:
            return builtins.open(p, *a, **kw2)
        seam("before open()")
        fh = builtins.open(p, *a, **kw2)
        seam("after open()")
        return _RaceFile(fh, seam)

    vm.getmtime = getmtime
    A.open = hooked_open
    try:
        if op == "load":
            r = _call(obj.load)
        elif op.startswith("load_if_changed"):
            r = _call(obj.load_if_changed)
        else:
            r = _call(lambda: klass(path, **kw))
            obj = r[1] if r[0] == "ret" else None
    finally:
        del A.open
        vm.getmtime = real_get
    if fired[0] is None:
        return [], None
    where = f"{op}() of a bound {klass.__name__} while an external writer rewrote the file {fired[0]} (seam {k} of the call)"
    key = f"C16|{cls}|race:{op}:"
    if r[0] == "exc":
        return [(key + f"raises:{type(r[1]).__name__}", f"{where}: raised {r[1]!r}")], fired[0]
    r2 = _call(obj.load_if_changed)
    if r2[0] == "exc":
        return [(key + f"settle_raises:{type(r2[1]).__name__}", f"{where}: the following load_if_changed() raised {r2[1]!r}")], fired[0]
    ref = klass.from_string(fc, **kw)
    got, want = obj.to_string(), ref.to_string()
    if got != want:
        return [(key + "stale_after_external_write",
                 f"{where}: after the call returned and load_if_changed() was polled once more (answer {r2[1]!r}) the object still exports "
                 f"{core.short(got, 80)} although the file holds {core.short(fc, 80)} -- it would never notice the rewrite")], fired[0]
    return [], fired[0]


def race_cases(seed):
    return [{"part": "race", "cls": c, "enc": "utf-8", "op": op, "k": k, "seed": seed, "mode": "normal"}
            for c in ("htpasswd", "htdigest") for op in RACE_OPS for k in range(1, RACE_MAX_SEAMS + 1)]


def work_race(task):
    acc = Acc()
    for case in task["cases"]:
        vs, fired = eval_race(case)
        if fired is None:
            acc.count("race_seam_index_beyond_the_call")
            continue
        acc.ev()
        acc.cls("race", case["cls"], case["op"], case["k"], fired)
        acc.axis("race_seam", fired)
        acc.outcome(("race", case["op"], "viol" if vs else "ok"))
        for key, desc in vs:
            acc.violation(key, desc, case)
    return acc



def isolation_cases(seed):
    return [{"part": "isolation", "cls": c, "ctor_a": a, "ctor_b": b, "seed": seed, "mode": "normal"}
            for c in ("htpasswd", "htdigest") for a in CTORS for b in CTORS]


def work_isolation(task):
    acc = Acc()
    for case in task["cases"]:
        acc.ev()
        acc.cls("isolation", case["cls"], case["ctor_a"], case["ctor_b"])
        vs = eval_isolation(case)
        acc.outcome(("isolation", "viol" if vs else "ok"))
        for key, desc in vs:
            acc.violation(key, desc, case)
    return acc


# ---------------------------------------------------------------------------
# task routing (normal interpreter <-> python -O subprocess)
# ---------------------------------------------------------------------------
def run_task(task):
    part = task["part"]
    try:
        if part == "explore":
            return explore_shard(task)
        if part == "names":
            return work_names(task)
        if part == "default_context":
            return work_default(task)
        if part == "isolation":
            return work_isolation(task)
        if part == "empty_hash":
            return work_empty_hash(task)
        if part == "hash_text":
            return work_hash_text(task)
        if part == "race":
            return work_race(task)
        raise HarnessError(f"unknown part {part}")
    finally:
        teardown_env()


def _spawn(mode, payload, flag):
    """run this module in a fresh interpreter of the given mode; returns the unpickled answer"""
    d = tempfile.mkdtemp(prefix="apache-c16-io-")
    try:
        inp, outp = os.path.join(d, "in.json"), os.path.join(d, "out.pickle")
        with open(inp, "w") as fh:
            json.dump(core.enc(payload), fh)
        cmd = [sys.executable] + (["-O"] if mode == "O" else []) + ["-m", "mc.checks.c16", flag, inp, outp]
        envv = dict(os.environ, PYTHONHASHSEED="0", PASSLIB_BUILTIN_BCRYPT="enabled", PYTHONDONTWRITEBYTECODE="1")
        envv.pop("PYTHONOPTIMIZE", None)
        r = subprocess.run(cmd, cwd=core.VERIF, env=envv, capture_output=True, text=True, timeout=7200)
        if r.returncode != 0 or not os.path.exists(outp):
            raise HarnessError(f"{' '.join(cmd[:4])} failed rc={r.returncode}: {r.stderr[-3000:]}")
        with open(outp, "rb") as fh:
            return pickle.load(fh)
    finally:
        shutil.rmtree(d, ignore_errors=True)


def work(task):
    """pmap entry: a task for this interpreter's mode runs here, a batch for the other mode in a subprocess"""
    if task.get("batch") is not None:
        if task["mode"] == MODE:
            total = Acc()
            for t in task["batch"]:
                total.merge(run_task(t))
            return total
        return _spawn(task["mode"], task["batch"], "--worker")
    return run_task(task)


def _main(argv):
    flag, inp, outp = argv
    with open(inp) as fh:
        payload = core.dec(json.load(fh))
    if flag == "--worker":
        total = Acc()
        for t in payload:
            total.merge(run_task(t))
        ans = total
    elif flag == "--replay":
        ans = _replay_here(payload)
    else:
        raise SystemExit(f"unknown flag {flag}")
    with open(outp + ".tmp", "wb") as fh:
        pickle.dump(ans, fh)
    os.replace(outp + ".tmp", outp)


# ---------------------------------------------------------------------------
# run / replay
# ---------------------------------------------------------------------------
def run(ctx):
    quick = ctx.quick
    depth = 4 if quick else 6
    # premise of the exploration: every history runs on a FRESH object
    iso = work({"part": "isolation", "cases": isolation_cases(ctx.seed)})
    ctx.merge(iso, part="isolation")
    if iso.violations:
        ctx.cap("objects share state: the exploration (one fresh object per history) is void and was not run")
        ctx.assume("isolation of objects failed; only the isolation cases were evaluated")
        return
    ctx.merge(work({"part": "empty_hash", "cases": empty_hash_cases()}), part="empty_hash")
    ctx.merge(work({"part": "race", "cases": race_cases(ctx.seed)}), part="race")
    ctx.merge(work({"part": "hash_text", "cases": hash_text_cases(quick)}), part="hash_text")
    singles, batches = [], {"normal": [], "O": []}
    for mode in ("normal", "O"):
        for cfg in roots(quick, ctx.seed):
            d = depth if (quick or cfg["theme"] != "file") else depth - 1  # (budget) file theme: depth 5 in thorough
            t = {"part": "explore", "cfg": dict(cfg, mode=mode), "depth": d, "quick": quick}
            if mode == "normal":
                singles.append(t)
            else:
                batches[mode].append(t)
    names = name_cases(ctx.seed)
    chunks = core.chunked(names, 24)
    for mode in ("normal", "O"):
        for ch in chunks:
            t = {"part": "names", "cases": ch}
            (singles if mode == "normal" else batches[mode]).append(t)
    for case in default_cases():
        singles.append({"part": "default_context", "case": case})
    # heavy shards (file theme) first; the -O half runs in `python -O` subprocesses: one per heavy shard, the
    # light ones in round-robin batches
    def heavy(t):
        return t["part"] == "explore" and t["cfg"]["theme"] == "file"

    singles.sort(key=lambda t: not heavy(t))
    oheavy = [{"batch": [t], "mode": "O"} for t in batches["O"] if heavy(t)]
    olight = [t for t in batches["O"] if not heavy(t)]
    nb = 32 if quick else 64
    obatches = [{"batch": olight[i::nb], "mode": "O"} for i in range(nb) if olight[i::nb]]
    nheavy = sum(1 for t in singles if heavy(t))
    tasks = singles[:nheavy] + oheavy + singles[nheavy:] + obatches
    ctx.log(f"{sum(1 for t in singles if t['part'] == 'explore')} root configurations per mode, depth {depth}, "
            f"{len(names)} name cases per mode, {len(tasks)} tasks")
    acc = core.pmap(work, tasks)
    states = set()
    maxd = 0
    for nt in acc.notes:
        if isinstance(nt, dict) and "c16_states" in nt:
            states |= nt["c16_states"]
            maxd = max(maxd, nt["max_depth"])
    acc.notes = []

    def simplest_first(v):
        case = v[2]
        hist = case.get("history")
        mode = case.get("mode") or (case.get("cfg") or {}).get("mode")
        return (len(hist) if hist is not None else 0, mode != "normal")

    acc.violations.sort(key=simplest_first)  # stable: the representative case of a key is a shortest history, normal mode first
    ctx.merge(acc)
    ctx.cov["states"] = len(states)
    ctx.cov["transitions"] = int(acc.counters.get("transitions", 0))
    ctx.cov["traces_validated_against_impl"] = int(acc.counters.get("transitions", 0))
    ctx.cov["max_depth"] = maxd
    ctx.cov["root_configurations"] = sum(1 for t in singles if t["part"] == "explore") * 2
    ctx.cov["explanation"] = (
        "states = distinct canonical (implementation observable state, model state) pairs over all root configurations "
        "and both interpreter modes; transitions = events executed on a real HtpasswdFile/HtdigestFile from an "
        "explored state (each one compared with the model); violating states are reported and not expanded"
    )
    ctx.assume("forbidden name characters are the documented ones (':', LF, CR, TAB, NUL); other control characters may be "
               "accepted or refused, but an accepted name must round-trip")
    ctx.assume("whether a mutation that changes nothing (delete_realm of an empty realm) triggers an autosave is unspecified: "
               "those transitions are not explored while autosave is on")
    ctx.assume("a trailing block of blank lines may be dropped on load (DESIGN A.4); malformed = a line that is neither blank, "
               "comment nor has the class's number of ':'-separated fields")
    ctx.assume("the modification time is a virtual clock that advances whenever the file content is rewritten differently or an "
               "external writer says so; real clocks never reach the verdict")


def _replay_here(case):
    part = case.get("part")
    try:
        if part == "history":
            cfg = case["cfg"]
            if cfg["mode"] != MODE:
                raise HarnessError("replay running in the wrong interpreter mode")

            hist = [tuple(e) for e in case["history"]]
            found = explore.replay_history(make_build(cfg), lambda w, ev: apply_event(w, ev), invariant, hist)
            seen, out = set(), []
            for kd in found:
                if kd not in seen:
                    seen.add(kd)
                    out.append(kd)
            return out
        if part == "names":
            return [(k, f"[{MODE}] {d}") for k, d in eval_name(case)]
        if part == "default_context":
            return eval_default(case)
        if part == "isolation":
            return eval_isolation(case)
        if part == "empty_hash":
            return eval_empty_hash(case)
        if part == "hash_text":
            return eval_upgrade_type(case) if case["how"] == "upgrade_type" else eval_hash_text(case)
        if part == "race":
            return eval_race(case)[0]
        raise HarnessError(f"unknown case part {part}")
    finally:
        teardown_env()


def replay(case):
    mode = case.get("mode") or (case.get("cfg") or {}).get("mode") or "normal"
    if mode != MODE:
        return [tuple(x) for x in _spawn(mode, case, "--replay")]
    return _replay_here(case)


if __name__ == "__main__":
    _main(sys.argv[1:])
