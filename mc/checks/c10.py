"""C10 -- a context's configuration survives export / import; a failed change changes nothing.

Round trips: generated configurations (the C04 space + float / percent vary_rounds, string-typed numbers, comma
strings, a context-keyword scheme, an unregistered custom hasher object) through to_dict -> CryptContext(**d),
to_string -> from_string / load / load_path, copy(), update() with nothing, load(itself / its dict / its string):
equal to_dict(), to_string() and equal decisions on the C04 probe table; update(k=v) replaces exactly the given keys.
Fault enumeration: base context x every KIND of invalid change x position of the offending key among valid keys x
entry point; a custom hasher whose using() raises on its k-th call for every k up to the count of a clean load.
Oracle: the call raises and the observable state of the original context is identical to before.
Histories (E2 style): all sequences of <= 3 valid / failing changes: the final state equals the one reached by the
same history with the failing changes removed.
"""
from __future__ import annotations

import hashlib
import itertools
import os
import shutil
import tempfile
import warnings

from mc import core, env
from mc.core import Acc
from mc.checks import c04 as P
from mc.refs import ctxmodel as M

warnings.filterwarnings("ignore")

ID = "C10"
LEVEL = "fault_enumeration"
RULE = (
    "bases = the valid, cheap-default configurations of the C04 space (every q-th in enumeration order: round trips "
    "quick q=18 / thorough q=4; fault bases: 2 (thorough 12) per list size, evenly spaced in enumeration order; "
    "history bases: 1 (thorough 3) per size (quick: sizes 2 and 3 only) + 2 (thorough 5) extras) + 7 hand-written extras (string-typed numbers and comma strings, a '%' inside a string option, float / percent "
    "vary_rounds incl. '12.5%', a context-keyword scheme, truncate_error, an unregistered custom hasher object with "
    "category options).  Round-trip routes: dict, string, bytes, path, copy, update_empty, load_self, load_dict, "
    "load_string, update with each valid single change.  Fault space = base x kind/variant (unknown scheme, unknown "
    "option, forbidden salt, default not in schemes, default deprecated, deprecated unknown, auto mixed, min>max, "
    "default_rounds outside limits, bad values, wrong types, too many separators, empty key parts; malformed INI "
    "text / missing section / undecodable bytes; custom hasher whose using() raises at its k-th call for every k up "
    "to the count of the clean load, at list position first / middle / last) x position of the offending keys among "
    "the valid keys (first / middle / last, dict insertion order) x entry point (load dict / string / bytes / path, "
    "load(update=True) dict / string / path, update(**kw), update(dict), copy(**kw), using(**kw), constructor, "
    "from_string, from_path; INI entry points only for kinds expressible as text) -- full product.  Histories: all "
    "sequences of length <= 3 over 6 valid + 5 failing changes through different entry points.  A case is "
    "non-trivial when the real context was asked to load the change; distinct class = base class | kind/variant | "
    "position | entry point (faults), base class | route (round trips), event sequence (histories)."
)

CATS = P.CATS
_MISSING = object()
CUSTOM = "<custom>"  # placeholder of the custom hasher object in a JSON-able scheme list; "<custom!k>": using() fails at call k
PRECONF = "<custom^>"  # the custom hasher object, customised by the application (own cost window 2..9) before it is listed
PW, BAD = "c10-right", "c10-wrong"


# ---------------------------------------------------------------------------
# custom (unregistered) hasher with a fault gate on using()
# ---------------------------------------------------------------------------
def make_custom(k=None):
    import passlib.utils.handlers as uh
    from passlib.utils import to_unicode

    gate = env.FailAt(lambda f: f(), k, RuntimeError("injected using() fault"))

    class C10Custom(uh.HasRounds, uh.GenericHandler):
        name = "c10custom"
        setting_kwds = ("rounds",)
        min_rounds = 1
        max_rounds = 60
        default_rounds = 6
        rounds_cost = "linear"
        checksum_chars = uh.LOWER_HEX_CHARS
        checksum_size = 32

        @classmethod
        def from_string(cls, hash):
            hash = to_unicode(hash, "ascii", "hash")
            if not hash.startswith("@c10@"):
                raise uh.exc.InvalidHashError(cls)
            try:
                r, chk = hash[5:].split("@")
                r = int(r)
            except ValueError:
                raise uh.exc.MalformedHashError(cls) from None
            return cls(rounds=r, checksum=chk or None)

        def to_string(self):
            return "@c10@%d@%s" % (self.rounds, self.checksum or "")

        def _calc_checksum(self, secret):
            d = secret.encode("utf-8") if isinstance(secret, str) else secret
            for _ in range(self.rounds):
                d = hashlib.md5(d).digest()
            return d.hex()

        @classmethod
        def using(cls, **kw):
            return gate(lambda: super(C10Custom, cls).using(**kw))

    C10Custom._gate = gate
    return C10Custom


def materialize(cfg):
    """placeholders -> hasher objects; returns (cfg, [gates])"""
    gates = []
    out = dict(cfg)
    sch = out.get("schemes")
    if isinstance(sch, list):
        new = []
        for el in sch:
            if isinstance(el, str) and el == PRECONF:
                # a hasher object the application customised itself before listing it: its own cost window is
                # inherited by the context's record, not part of the context's configuration
                H = make_custom(None)
                gates.append(H._gate)
                new.append(H.using(min_rounds=2, max_rounds=9, default_rounds=5))
            elif isinstance(el, str) and el.startswith("<custom"):
                k = int(el[8:-1]) if "!" in el else None
                H = make_custom(k or None)
                gates.append(H._gate)
                new.append(H)
            else:
                new.append(el)
        out["schemes"] = new
    return out, gates


def has_custom(cfg):
    sch = cfg.get("schemes")
    return isinstance(sch, list) and any(isinstance(e, str) and e.startswith("<custom") for e in sch)


def render_ini(items, section="passlib"):
    """own INI writer (independent of CryptContext.to_string)"""
    lines = [f"[{section}]"]
    for k, v in items:
        if isinstance(v, (list, tuple)):
            v = ", ".join(str(x) for x in v)
        elif isinstance(v, float):
            v = repr(v)
        else:
            v = str(v)
        lines.append(f"{k} = {v.replace('%', '%%')}")
    return "\n".join(lines) + "\n"


# ---------------------------------------------------------------------------
# observable state of a context
# ---------------------------------------------------------------------------
class Table(list):
    """probe table + the categories to ask about (the fixed three and every category the configuration names)"""

    cats = CATS


def cats_of(cfg):
    """CATS + the categories named by the keys of cfg (read off the key text: cat__scheme__option), each also in its
    lower-cased spelling: categories are application strings and 'Admin' is not 'admin'"""
    out = list(CATS)
    for k in cfg:
        parts = str(k).replace(".", "__").split("__")
        if len(parts) == 3 and parts[0] != "default":
            for c in (parts[0], parts[0].lower()):
                if c not in out:
                    out.append(c)
    return tuple(out)


def probe_table(cfg, seed):
    """probes for the base configuration: [(hash, real?, first-of-scheme?, kw)] (model only used to place the costs)"""
    mcfg, _ = materialize(cfg)
    model = M.Policy(mcfg)
    table = Table()
    table.cats = cats_of(cfg)
    for s in model.schemes:
        H = model.handlers[s]
        kw = {"user": "u"} if "user" in (getattr(H, "context_kwds", None) or ()) else {}
        if s == "c10custom" and PRECONF in (cfg.get("schemes") or ()):
            # the inherited window is not in the model: probe every cost around it
            for cost in range(1, 25):
                table.append((P.make_hash(H, cost, PW, seed), True, cost == 1, kw))
        elif "rounds" in P._wrapped(H).setting_kwds:
            first = True
            for cost, real in P.probe_costs(model, s):
                table.append((P.make_hash(H, cost, PW, seed) if real else P.synth_hash(H, cost, seed), real, first and real, kw))
                first = first and not real
        else:
            table.append((P.make_hash(H, None, PW, seed), True, True, kw))
    return table


def _canon(v):
    if isinstance(v, dict):
        return tuple(sorted((k, _canon(x)) for k, x in v.items()))
    if isinstance(v, (list, tuple)):
        return tuple(_canon(x) for x in v)
    if isinstance(v, (str, int, float, bool)) or v is None:
        return (type(v).__name__, v)
    return ("obj", getattr(v, "name", type(v).__name__))


def fingerprint(ctx, table, seed, digests=True):
    """[(component, value)]: everything the property lets a caller observe"""
    fp = []
    call = P.call
    fp.append(("to_dict", _canon(call(ctx.to_dict)[1])))
    fp.append(("to_string", call(ctx.to_string)))
    fp.append(("schemes", call(ctx.schemes)))
    fp.append(("context_kwds", call(lambda: tuple(sorted(ctx.context_kwds)))))
    cats = getattr(table, "cats", CATS)
    for cat in cats:
        fp.append(("default_scheme", cat, call(ctx.default_scheme, category=cat)))
        for end in ("lo", "hi"):
            with env.scripted_rng(P.EndRng(end, seed)):
                fp.append(("new_hash_settings", cat, end, call(ctx.genconfig, category=cat)))
    for n, (h, real, first, kw) in enumerate(table):
        for cat in cats:
            fp.append(("identify", n, cat, call(ctx.identify, h, category=cat)))
            fp.append(("needs_update", n, cat, call(ctx.needs_update, h, category=cat)))
        if digests and first:
            fp.append(("verify", n, "right", call(ctx.verify, PW, h, **kw)))
            fp.append(("verify", n, "wrong", call(ctx.verify, BAD, h, **kw)))
    if digests:
        with env.scripted_rng(P.EndRng("lo", seed)):
            fp.append(("hash_with_unused_user_kwd", call(ctx.hash, PW, user="u")))
        with env.scripted_rng(P.EndRng("hi", seed)):  # the dummy hash is made with the context's own (random) settings
            fp.append(("verify_against_None", call(ctx.verify, PW, None)))
            fp.append(("verify_and_update_against_None", call(ctx.verify_and_update, PW, None)))
    return fp


def first_diff(a, b):
    for x, y in zip(a, b):
        if x != y:
            return x[0], f"{core.short(x, 200)} became {core.short(y, 200)}"
    if len(a) != len(b):
        return "length", f"{len(a)} vs {len(b)} observations"
    return None


def build(cfg):
    from passlib.context import CryptContext

    mcfg, gates = materialize(cfg)
    return CryptContext(**mcfg), gates


# ---------------------------------------------------------------------------
# round trips
# ---------------------------------------------------------------------------
def _expected_export(key, value):
    """(exported key, exported value) a scalar option must show after it was set, or None when not modelled here"""
    parts = key.split("__")
    opt = parts[-1]
    if len(parts) == 1 and opt in ("vary_rounds", "truncate_error"):
        key = "all__" + opt
    if opt == "truncate_error":
        return key, (value if isinstance(value, bool) else str(value).lower() in ("true", "1", "yes", "on"))
    if opt == "vary_rounds":
        if isinstance(value, str) and value.endswith("%"):
            return key, float(value[:-1]) / 100
        if isinstance(value, str):
            return key, (float(value) if "." in value else int(value))
        return key, value
    if opt in ("max_rounds", "min_rounds", "rounds", "default_rounds"):
        return key, int(value)
    if opt == "default" and isinstance(value, str):
        return key, value
    return None


def valid_changes(cfg, model):
    """single valid changes {key: value} (the model approves the merged configuration)"""
    L = model.schemes
    rs = [s for s in L if s in P.SCALE]
    cands = [{"default": L[-1]}, {"deprecated": [L[-1]]}, {"deprecated": "auto"}, {"deprecated": []}, {"all__vary_rounds": "5%"},
             # the documented un-prefixed spellings of the context-wide settings, and an empty per-category list
             {"vary_rounds": "7%"}, {"truncate_error": True}, {"admin__context__deprecated": []},
             {"admin__context__default": L[0]}, {"staff__context__deprecated": [L[0]]}, {"schemes": list(cfg["schemes"][1:]) if isinstance(cfg["schemes"], list) and len(L) > 1 else cfg["schemes"]}, {"schemes": list(reversed(cfg["schemes"])) if isinstance(cfg["schemes"], list) else cfg["schemes"]}]
    if isinstance(cfg["schemes"], list) and all(isinstance(x, str) for x in cfg["schemes"]):
        # a scheme that takes a context keyword (user=) joins a list that had none / leaves a list that had one:
        # the keyword is passed to that scheme and dropped for the others, as in a context built in one go
        if "postgres_md5" not in cfg["schemes"]:
            cands.append({"schemes": list(cfg["schemes"]) + ["postgres_md5"]})
        elif len(cfg["schemes"]) > 1:
            cands.append({"schemes": [x for x in cfg["schemes"] if x != "postgres_md5"]})
    for s in rs[:2]:
        sc = P.SCALE[s]
        cands += [{f"{s}__max_rounds": sc["b"] - 1}, {f"{s}__min_rounds": str(sc["a"] + 1)}, {f"{s}__rounds": sc["r"]},
                  {f"{s}__vary_rounds": 0.25}, {f"staff__{s}__max_rounds": sc["b"]}]
    out = []
    for ch in cands:
        merged = dict(cfg)
        merged.update(ch)
        try:
            m = M.Policy(materialize(merged)[0])
        except M.Invalid:
            continue
        if m.unspecified or any(_heavy(m, c) for c in CATS):
            continue
        out.append(ch)
    return out


def _heavy(model, cat):
    d = model.default(cat)
    nc = model.new_cost(d, cat)
    return bool(nc and nc[1] is not None and nc[1] > P.SCALE.get(d, {}).get("cheap", 10**9))


def eval_roundtrip(case, acc=None, tmpdir=None):
    out = []
    try:
        return _eval_roundtrip(case, out, acc, tmpdir)
    except (core.HarnessError, M.Invalid):
        raise
    except Exception as e:  # noqa: BLE001 - an export / import step of the real context blew up
        import traceback

        where = [f.name for f in traceback.extract_tb(e.__traceback__) if "passlib" in f.filename or "configparser" in f.filename]
        if not where:
            raise core.HarnessError(f"round-trip harness failed: {e!r}") from e
        out.append((f"C10|roundtrip|{case['route']}:raises:{type(e).__name__}", f"route {case['route']} of CryptContext(**{case['base']!r}) raised {e!r} in {where[-3:]}"))
        return out


def _eval_roundtrip(case, out, acc=None, tmpdir=None):
    from passlib.context import CryptContext

    acc = acc if acc is not None else Acc()
    cfg, seed = case["base"], case.get("seed", 0)
    route = case["route"]
    own_tmp = None
    try:
        table = probe_table(cfg, seed)
        ctx, _ = build(cfg)
    except M.Invalid as e:
        raise core.HarnessError(f"round-trip base is invalid: {e.args} {cfg!r}") from None
    custom = has_custom(cfg)
    before = fingerprint(ctx, table, seed)
    d0 = ctx.to_dict(resolve=custom)
    s0 = ctx.to_string()

    group = {"dict": "dict", "string": "ini", "path": "ini", "copy": "copy", "noop": "noop"}.get(route, route)

    def cmp(other, label):
        acc.ev()
        acc.cls("roundtrip", case.get("cls"), label)
        if other is None:
            return
        after = fingerprint(other, table, seed)
        if after[0] != before[0]:  # exported dictionaries differ: one finding per option name
            od, nd = ctx.to_dict(), other.to_dict()
            for opt in sorted({k.split("__")[-1] for k in set(od) | set(nd) if od.get(k, _MISSING) != nd.get(k, _MISSING) or type(od.get(k)) is not type(nd.get(k))}):
                out.append((f"C10|roundtrip|{group}:to_dict:{opt}", f"after {label} of CryptContext(**{cfg!r}) to_dict() differs in {opt}: {od!r} became {nd!r}"))
        diff = first_diff(before[1:], after[1:])
        if diff:
            comp = diff[0] if diff[0] == "to_string" else f"decisions:{diff[0]}"
            out.append((f"C10|roundtrip|{group}:{comp}", f"after {label} of CryptContext(**{cfg!r}): {diff[1]}"))

    def guarded(label, f):
        st, r = P.call(f)
        if st != "ok":
            acc.ev()
            out.append((f"C10|roundtrip|{group}:raises:{r}", f"{label} of CryptContext(**{cfg!r}) raised {r}"))
            return None
        return r

    if route == "dict":
        cmp(guarded("to_dict->constructor", lambda: CryptContext(**d0)), "to_dict->constructor")
        o = CryptContext()
        if guarded("load(dict)", lambda: o.load(d0)) is None:
            cmp(o, "load(dict)")
        o2, _ = build(cfg)
        if guarded("load(own dict)", lambda: o2.load(d0)) is None:
            cmp(o2, "load(own dict)")
    elif route == "string" and not custom:
        cmp(guarded("to_string->from_string", lambda: CryptContext.from_string(s0)), "to_string->from_string")
        cmp(guarded("to_string->from_string(bytes)", lambda: CryptContext.from_string(s0.encode("utf-8"))), "to_string->from_string(bytes)")
        o = CryptContext()
        if guarded("load(string)", lambda: o.load(s0)) is None:
            cmp(o, "load(string)")
        o2, _ = build(cfg)
        if guarded("load(own string)", lambda: o2.load(s0)) is None:
            cmp(o2, "load(own string)")
        s1 = ctx.to_string(section="other")
        cmp(guarded("to_string(section)->from_string(section)", lambda: CryptContext.from_string(s1, section="other")), "to_string(section)->from_string(section)")
    elif route == "path" and not custom:
        tmpdir = tmpdir or (own_tmp := tempfile.mkdtemp(prefix="c10-"))
        path = os.path.join(tmpdir, f"rt-{os.getpid()}.cfg")
        with open(path, "w", encoding="utf-8") as fh:
            fh.write(s0)
        cmp(guarded("from_path", lambda: CryptContext.from_path(path)), "from_path")
        o = CryptContext()
        if guarded("load_path", lambda: o.load_path(path)) is None:
            cmp(o, "load_path")
    elif route == "copy":
        cmp(guarded("copy()", ctx.copy), "copy()")
        cmp(guarded("using()", ctx.using), "using()")
        c2 = ctx.copy()
        # the copy is independent: changing it leaves the original alone
        chs = valid_changes(cfg, M.Policy(materialize(cfg)[0]))
        if chs:
            guarded("copy().update", lambda: c2.update(**(materialize(chs[0])[0] if "schemes" in chs[0] else chs[0])))
            cmp(ctx, "original after copy().update(change)")
        for ch in chs[:3]:
            mch = materialize(ch)[0] if "schemes" in ch else ch
            c3 = guarded("copy(**change)", lambda: ctx.copy(**mch))
            cmp(ctx, "original after copy(**change)")
            if c3 is not None:
                live, _ = build(cfg)
                live.update(**mch)
                if c3.to_dict() != live.to_dict():
                    out.append(("C10|roundtrip|copy:change_not_applied", f"copy(**{ch!r}) of CryptContext(**{cfg!r}) exports {c3.to_dict()!r}, update(**change) gives {live.to_dict()!r}"))
    elif route == "noop":
        if guarded("update()", ctx.update) is None:
            cmp(ctx, "update()")
        if guarded("update({})", lambda: ctx.update({})) is None:
            cmp(ctx, "update({})")
        if guarded("load({}, update=True)", lambda: ctx.load({}, update=True)) is None:
            cmp(ctx, "load({}, update=True)")
        if guarded("load(self)", lambda: ctx.load(ctx)) is None:
            cmp(ctx, "load(self)")
        o = CryptContext()
        if guarded("load(context)", lambda: o.load(ctx)) is None:
            cmp(o, "load(context)")
        # a context OBJECT is a source like a dict: a plain one (above), a lazily configured one that was used
        # before, and one nobody has touched yet (the state the presets of passlib.apps are imported in)
        if not custom:
            from passlib.context import LazyCryptContext

            def lazy_src(state):
                z = LazyCryptContext(**materialize(cfg)[0])
                if state == "used":
                    z.schemes()
                return z

            for state in ("untouched", "used"):
                for how, f in (("load", lambda o, z: o.load(z)), ("update", lambda o, z: o.update(z)),
                               ("load(update=True)", lambda o, z: o.load(z, update=True))):
                    o, z = CryptContext(), lazy_src(state)
                    if guarded(f"{how}({state} lazy context)", lambda: f(o, z)) is None:
                        cmp(o, f"{how}({state} lazy context)")
                        cmp(z, f"the {state} lazy context after being the source of {how}()")
                z = lazy_src(state)
                cmp(guarded(f"copy() of the {state} lazy context", lambda: z.copy()), f"copy() of the {state} lazy context")
                z = lazy_src(state)
                cmp(guarded(f"from_string(to_string()) of the {state} lazy context", lambda: CryptContext.from_string(z.to_string())), f"to_string of the {state} lazy context")
        # ... and the lists the caller passed IN stay the caller's too: editing them after construction changes nothing
        if not custom:
            src = {k: (list(v) if isinstance(v, list) else v) for k, v in materialize(cfg)[0].items()}
            mine = guarded("CryptContext(**source)", lambda: CryptContext(**src))
            if mine is not None:
                for v in src.values():
                    if isinstance(v, list):
                        v.append("no_such_scheme")
                cmp(mine, "in-place edit of the lists passed to the constructor")
        # the exported dict is the caller's: editing it in place (its list values) must not reach into the context,
        # and an update with the edited (now invalid) export must fail without leaving a trace
        if not custom:
            exported = ctx.to_dict()
            for v in exported.values():
                if isinstance(v, list):
                    v.append("no_such_scheme")
            cmp(ctx, "in-place edit of the dict returned by to_dict()")
            st, _r = P.call(lambda: ctx.update(**exported))
            if st != "ok":
                cmp(ctx, "failed update() with an export edited in place")
            st, _r = P.call(lambda: ctx.load(exported))
            if st != "ok":
                cmp(ctx, "failed load() of an export edited in place")
    elif route == "update":
        model = M.Policy(materialize(cfg)[0])
        for ch in valid_changes(cfg, model):
            live, _ = build(cfg)
            P.call(live.verify, PW, None)  # fill the dummy-hash cache before the change
            P.call(live.hash, PW, user="u")
            key = next(iter(ch))
            kind = "schemes" if key == "schemes" else key.split("__")[-1] + (":category" if key.count("__") == 2 else "")
            st, r = P.call(live.update, **(materialize(ch)[0] if "schemes" in ch else ch))
            acc.ev()
            acc.cls("update", case.get("cls"), kind)
            if st != "ok":
                out.append((f"C10|update|valid_change_refused:{kind}:{r}", f"update(**{ch!r}) on CryptContext(**{cfg!r}) raised {r}"))
                continue
            merged = dict(d0)
            merged.update(ch)
            if custom and "schemes" not in ch:
                merged["schemes"] = materialize(cfg)[0]["schemes"]
            elif custom:
                merged = materialize(merged)[0]
            st, fresh = P.call(CryptContext, **merged)
            if st != "ok":
                out.append((f"C10|update|dict_update_of_export_refused:{kind}:{fresh}", f"CryptContext(**dict(exported, **{ch!r})) raised {fresh} although update() accepted the change"))
                continue
            nd, fd = live.to_dict(), fresh.to_dict()
            if nd != fd:
                out.append((f"C10|update|differs_from_dict_update:{kind}", f"update(**{ch!r}) on {cfg!r} exports {nd!r}; dict-update of the export gives {fd!r}"))
            # the change must have taken effect: the exported value of the changed option is the new value (stated
            # independently of the implementation for the scalar options; whatever spelling the old configuration used)
            for k, v in ch.items():
                want = _expected_export(k, v)
                if want is None:
                    continue
                ek, ev_ = want
                got = nd.get(ek, _MISSING)
                if got is _MISSING or got != ev_ or type(got) is not type(ev_):
                    out.append((f"C10|update|change_without_effect:{kind}", f"update(**{ch!r}) on CryptContext(**{cfg!r}): exported {ek} = {'<absent>' if got is _MISSING else repr(got)}, expected {ev_!r}"))
            od = ctx.to_dict()
            touched = {k for k in set(od) | set(nd) if od.get(k, _MISSING) != nd.get(k, _MISSING)}
            # (the un-prefixed global settings are exported in their all__ form)
            allowed = set(ch) | {f"all__{k}" for k in ch if k in ("vary_rounds", "truncate_error")}
            if not touched <= allowed:
                out.append((f"C10|update|other_keys_changed:{kind}", f"update(**{ch!r}) on {cfg!r} also changed {sorted(touched - set(ch))}"))
            t2 = probe_table(merged if not custom else dict(cfg, **ch), seed)
            # a stale dummy hash / stale keyword filtering shows when the scheme list, the default or the deprecation changes
            dg = any(k.split("__")[-1] in ("schemes", "default", "deprecated") for k in ch)
            diff = first_diff(fingerprint(fresh, t2, seed, digests=dg), fingerprint(live, t2, seed, digests=dg))
            if diff:
                out.append((f"C10|update|decisions_differ_from_fresh:{kind}:{diff[0]}", f"update(**{ch!r}) on {cfg!r}: {diff[1]} (fresh context vs updated one)"))
    if own_tmp:
        shutil.rmtree(own_tmp, ignore_errors=True)
    return out


# ---------------------------------------------------------------------------
# fault kinds
# ---------------------------------------------------------------------------
def names_of(cfg):
    sch = cfg["schemes"]
    if isinstance(sch, str):
        sch = [x.strip() for x in sch.split(",")]
    return ["c10custom" if s.startswith("<custom") else s for s in sch]


def fault_kinds(cfg):
    """[(kind, variant, [(key, value)...], expressible as INI text?)]"""
    L = names_of(cfg)
    raw = cfg["schemes"] if isinstance(cfg["schemes"], list) else L
    s0 = L[0]
    rs = [s for s in L if s in P.SCALE]
    fixed = [s for s in L if s in P.POOL and s not in P.SCALE]
    absent = next(s for s in P.POOL if s not in L)
    out = []

    def add(kind, variant, items, ini=True):
        out.append((kind, variant, items, ini and not has_custom(cfg)))

    add("unknown_scheme", "appended", [("schemes", list(raw) + ["no_such_scheme_xyz"])])
    add("unknown_scheme", "only", [("schemes", ["no_such_scheme_xyz"])])
    add("unknown_option", "context", [("bogus_option", "1")])
    add("unknown_option", "category_context", [("admin__context__bogus_option", "1")])
    add("unknown_option", "scheme", [(f"{s0}__bogus_option", "1")])
    add("unknown_option", "schemes_per_category", [("admin__context__schemes", list(L))])
    if fixed:
        add("unknown_option", "rounds_on_fixed_cost_scheme", [(f"{fixed[0]}__min_rounds", 5)])
    add("forbidden_salt", "scheme", [(f"{s0}__salt", "abcd")])
    add("forbidden_salt", "all", [("all__salt", "abcd")])
    add("forbidden_salt", "category", [(f"admin__{s0}__salt", "abcd")])
    add("default_not_in_schemes", "global", [("default", absent)])
    add("default_not_in_schemes", "category", [("admin__context__default", absent)])
    add("default_deprecated", "global", [("default", s0), ("deprecated", [s0])])
    add("default_deprecated", "category", [("admin__context__default", s0), ("admin__context__deprecated", [s0])])
    add("default_deprecated", "all_schemes", [("deprecated", list(L))])
    add("deprecated_unknown", "unregistered", [("deprecated", ["no_such_scheme_xyz"])])
    add("deprecated_unknown", "not_configured", [("deprecated", [absent])])
    add("auto_mixed", "global", [("deprecated", ["auto", s0])])
    add("auto_mixed", "category", [("admin__context__deprecated", ["auto", s0])])
    if rs:
        r0, sc = rs[0], P.SCALE[rs[0]]
        add("min_gt_max", "scheme", [(f"{r0}__min_rounds", sc["b"]), (f"{r0}__max_rounds", sc["a"])])
        add("min_gt_max", "category", [(f"{r0}__max_rounds", sc["a"]), (f"admin__{r0}__min_rounds", sc["b"])])
        add("default_outside_limits", "above", [(f"{r0}__min_rounds", sc["a"]), (f"{r0}__max_rounds", sc["b"]), (f"{r0}__default_rounds", sc["b"] + 1)])
        add("default_outside_limits", "below", [(f"{r0}__min_rounds", sc["a"]), (f"{r0}__max_rounds", sc["b"]), (f"{r0}__default_rounds", sc["a"] - 1)])
        add("bad_value", "vary_negative", [(f"{r0}__vary_rounds", -1)])
        add("bad_value", "vary_above_1", [(f"{r0}__vary_rounds", 1.5)])
        add("bad_value", "all_vary_negative", [("all__vary_rounds", -1)])
        add("bad_value", "rounds_not_a_number", [(f"{r0}__min_rounds", "abc")])
        add("wrong_type", "rounds_list", [(f"{r0}__min_rounds", [1, 2])], False)
    add("wrong_type", "schemes_int", [("schemes", 123)], False)
    add("wrong_type", "scheme_entry_int", [("schemes", [s0, 5])], False)
    add("wrong_type", "default_int", [("default", 5)], False)
    add("wrong_type", "default_list", [("default", [s0])], False)
    add("wrong_type", "default_none", [("default", None)], False)
    add("wrong_type", "deprecated_int", [("deprecated", 5)], False)
    add("wrong_type", "deprecated_none", [("deprecated", None)], False)
    add("wrong_type", "deprecated_entry_int", [("deprecated", [5])], False)
    add("too_many_separators", "", [(f"admin__{s0}__x__min_rounds", 1)])
    add("empty_key_part", "scheme", [("admin____default", s0)])
    add("empty_key_part", "option", [(f"{s0}__", 1)])
    add("empty_key_part", "category", [(f"__{s0}__min_rounds", 1)])
    return out


TEXT_FAULTS = ("no_section_header", "missing_section", "option_without_value", "duplicate_option", "bad_interpolation", "undecodable_bytes")
DICT_FULL = ("load_dict", "ctor")
TEXT_FULL = ("load_string", "load_bytes", "load_path", "from_string", "from_path")
DICT_CHANGE = ("load_update_dict", "update_kw", "update_dict", "copy_kw", "using_kw")
TEXT_CHANGE = ("load_update_string", "load_path_update")
GROUP = {"load_dict": "load", "load_string": "load", "load_bytes": "load", "load_path": "path", "load_update_dict": "load_update",
         "load_update_string": "load_update", "load_path_update": "path", "update_kw": "update", "update_dict": "update",
         "copy_kw": "copy", "using_kw": "copy", "ctor": "constructor", "from_string": "constructor", "from_path": "constructor"}
POSITIONS = ("first", "middle", "last")


def place(valid, bad, pos):
    keys = {k for k, _ in bad}
    valid = [(k, v) for k, v in valid if k not in keys]
    i = {"first": 0, "middle": len(valid) // 2, "last": len(valid)}[pos]
    return valid[:i] + list(bad) + valid[i:]


def fillers(cfg):
    """two changes that are valid on every base"""
    model = M.Policy(materialize(cfg)[0])
    out = [("staff__context__deprecated", []), ("ops__context__default", model.default(None))]
    if PRECONF in (cfg.get("schemes") or ()):
        # valid on its own: an explicit minimum above the window the hasher object brought along lifts that window
        out.insert(0, ("c10custom__min_rounds", 12))
    return out


def text_fault(items, fault, pos, section="passlib"):
    """INI text with one malformed line at the given position among the valid lines -> str or bytes"""
    lines = render_ini(items, section).splitlines()
    head, body = lines[0], lines[1:]
    i = {"first": 0, "middle": len(body) // 2, "last": len(body)}[pos]
    if fault == "no_section_header":
        return "\n".join(body) + "\n"
    if fault == "missing_section":
        return "\n".join(["[other_section]"] + body) + "\n"
    if fault == "option_without_value":
        body = body[:i] + ["bsdi_crypt__max_rounds"] + body[i:]
    elif fault == "duplicate_option":
        body = body[:i] + [body[0]] + body[i:]
    elif fault == "bad_interpolation":
        body = body[:i] + ["all__vary_rounds = 10%"] + body[i:]
    elif fault == "undecodable_bytes":
        return ("\n".join([head] + body[:i]) + "\n").encode() + b"# \xff\xfe\n" + ("\n".join(body[i:]) + "\n").encode()
    return "\n".join([head] + body) + "\n"


def do_entry(ctx, entry, full, change, tmpdir, text=None):
    """perform one configuration attempt; full / change are ordered item lists (or `text` for INI entry points)"""
    from passlib.context import CryptContext

    def mat(items):
        d, _ = materialize(dict(items))
        return d

    def path_of(t):
        p = os.path.join(tmpdir, f"f-{os.getpid()}.cfg")
        with open(p, "wb") as fh:
            fh.write(t if isinstance(t, bytes) else t.encode("utf-8"))
        return p

    if entry == "load_dict":
        return ctx.load(mat(full))
    if entry == "ctor":
        return CryptContext(**mat(full))
    if entry == "load_update_dict":
        return ctx.load(mat(change), update=True)
    if entry == "update_kw":
        return ctx.update(**mat(change))
    if entry == "update_dict":
        return ctx.update(mat(change))
    if entry == "copy_kw":
        return ctx.copy(**mat(change))
    if entry == "using_kw":
        return ctx.using(**mat(change))
    t_full = text if text is not None else render_ini(full)
    t_change = text if text is not None else render_ini(change)
    if entry == "load_string":
        return ctx.load(t_full)
    if entry == "load_bytes":
        return ctx.load(t_full if isinstance(t_full, bytes) else t_full.encode("utf-8"))
    if entry == "from_string":
        return CryptContext.from_string(t_full)
    if entry == "load_path":
        return ctx.load_path(path_of(t_full))
    if entry == "from_path":
        return CryptContext.from_path(path_of(t_full))
    if entry == "load_update_string":
        return ctx.load(t_change, update=True)
    if entry == "load_path_update":
        return ctx.load_path(path_of(t_change), update=True)
    raise core.HarnessError(f"unknown entry point {entry}")


class Live:
    """a base context kept alive across attempts (rebuilt after a violation changed it)"""

    def __init__(self, cfg, seed):
        self.cfg, self.seed = cfg, seed
        self.table = probe_table(cfg, seed)
        self.rebuild()

    def rebuild(self):
        self.ctx, _ = build(self.cfg)
        self.before = fingerprint(self.ctx, self.table, self.seed)


def eval_fault(case, live=None, tmpdir=None):
    """one attempt: must raise, and must leave the original context exactly as it was"""
    cfg, seed = case["base"], case.get("seed", 0)
    own_tmp = None
    if tmpdir is None:
        tmpdir = own_tmp = tempfile.mkdtemp(prefix="c10-")
    live = live or Live(cfg, seed)
    base_items = list(cfg.items())
    entry, pos = case["entry"], case["pos"]
    out = []
    text = None
    if case["kind"] == "malformed_text":
        src = base_items if entry in TEXT_FULL else fillers(cfg)
        text = text_fault(src, case["variant"], pos)
        full = change = None
        what = f"{case['variant']} INI text"
    else:
        bad = [tuple(x) for x in case["items"]]
        full = place(base_items, bad, pos)
        change = place(fillers(cfg), bad, pos)
        what = f"{case['kind']}/{case['variant']} {bad!r}"
    st, r = P.call(do_entry, live.ctx, entry, full, change, tmpdir, text)
    grp = GROUP[entry]
    if st == "ok" and not case.get("must_raise", True):
        # the documentation does not make this an error here (e.g. an option no configured scheme ever sees):
        # accepting it is fine, a legitimate change of state -- start over from a fresh context
        if entry not in ("copy_kw", "using_kw", "ctor", "from_string", "from_path"):
            live.rebuild()
        if own_tmp:
            shutil.rmtree(own_tmp, ignore_errors=True)
        return out, ("ok", "accepted_unspecified")
    if st == "ok":
        out.append((f"C10|invalid_accepted|{case['kind']}:{case['variant']}:{grp}",
                    f"{entry} accepted the invalid change {what} (position {pos}) on CryptContext(**{cfg!r})"))
    after = fingerprint(live.ctx, live.table, seed)
    diff = first_diff(live.before, after)
    if diff:
        out.append((f"C10|failed_change|{grp}:{'accepted' if st == 'ok' else 'raised'}:state_changed:{diff[0]}",
                    f"after {entry} with {what} at position {pos} ({'accepted' if st == 'ok' else 'raised ' + str(r)}) the ORIGINAL context changed: {diff[1]}  [base {cfg!r}]"))
        live.rebuild()
    if own_tmp:
        shutil.rmtree(own_tmp, ignore_errors=True)
    return out, (st, r)


def using_fault_cases(cfg, seed):
    """custom hasher whose using() raises at call k, for every k of the clean load, x list position x entry point"""
    from passlib.context import CryptContext

    L = list(cfg["schemes"]) if isinstance(cfg["schemes"], list) else names_of(cfg)
    L = [s for s in L if not s.startswith("<custom")]
    extra = [("c10custom__max_rounds", 9), ("admin__c10custom__min_rounds", 3), ("staff__context__deprecated", ["c10custom"])]
    cases = []
    for pos in POSITIONS:
        i = {"first": 0, "middle": len(L) // 2, "last": len(L)}[pos]
        # clean load: count the using() calls on the custom hasher
        clean = dict(cfg)
        clean.update([("schemes", L[:i] + ["<custom!0>"] + L[i:])] + extra)
        d, gates = materialize(clean)
        CryptContext(**d)
        n = gates[0].calls
        if n < 2:
            raise core.HarnessError(f"clean load called using() only {n} times")
        for k in range(1, n + 1):
            bad = [("schemes", L[:i] + [f"<custom!{k}>"] + L[i:])] + extra
            for entry in DICT_FULL + DICT_CHANGE:
                cases.append({"part": "fault", "base": cfg, "seed": seed, "kind": "using_fault", "variant": f"call{k}of{n}", "items": bad,
                              "pos": pos, "entry": entry, "k": k, "n": n})
    return cases


def model_refuses(cfg, bad):
    """does the reference model (the documentation) make base + bad an error?"""
    merged = dict(place(list(cfg.items()), bad, "last"))
    try:
        M.Policy(materialize(merged)[0])
    except M.Invalid:
        return True
    return False


def fault_cases(cfg, seed):
    cases = []
    for kind, variant, items, ini in fault_kinds(cfg):
        must = model_refuses(cfg, items)
        for pos in POSITIONS:
            for entry in DICT_FULL + DICT_CHANGE + ((TEXT_FULL + TEXT_CHANGE) if ini else ()):
                cases.append({"part": "fault", "base": cfg, "seed": seed, "kind": kind, "variant": variant, "items": items, "pos": pos, "entry": entry, "must_raise": must})
    if not has_custom(cfg):
        for tf in TEXT_FAULTS:
            for pos in POSITIONS:
                for entry in TEXT_FULL + TEXT_CHANGE:
                    cases.append({"part": "fault", "base": cfg, "seed": seed, "kind": "malformed_text", "variant": tf, "items": [], "pos": pos, "entry": entry})
        cases += using_fault_cases(cfg, seed)
    return cases


# ---------------------------------------------------------------------------
# lazy context with a failing onload
# ---------------------------------------------------------------------------
def eval_lazy(case):
    from passlib.context import CryptContext, LazyCryptContext

    cfg, seed, k = case["base"], case.get("seed", 0), case["k"]
    out = []
    table = probe_table(cfg, seed)
    want = fingerprint(CryptContext(**cfg), table, seed)
    # (the configuration comes FROM the callback: the keywords given to the constructor are only its arguments, so a
    #  callback that is skipped, or run on other arguments, after the failed attempt shows in the loaded context)
    gate = env.FailAt(lambda **kw: dict(cfg) if kw == {"token": "c10"} else {"schemes": ["des_crypt"]}, k, RuntimeError("injected onload fault"))
    lazy = LazyCryptContext(onload=gate, token="c10")
    results = []
    for attempt in range(k + 1):
        results.append(P.call(lambda: lazy.schemes()))
    for i, (st, r) in enumerate(results):
        should_fail = i + 1 == k
        if should_fail and st == "ok":
            out.append(("C10|lazy_onload|fault_swallowed", f"access {i + 1} succeeded although onload raised (k={k})"))
        if not should_fail and st != "ok" and i + 1 > k:
            out.append((f"C10|lazy_onload|stuck_after_failure:{r}", f"access {i + 1} after the failed onload (call {k}) raised {r}: the lazy context did not stay in its unloaded state"))
    if results[-1][0] == "ok":
        diff = first_diff(want, fingerprint(lazy, table, seed))
        if diff:
            out.append((f"C10|lazy_onload|state_differs:{diff[0]}", f"lazy context loaded after a failed onload differs from a plain one: {diff[1]}"))
    return out


def eval_lazy_iter(case):
    """a lazily configured context whose scheme list is a ONE-SHOT iterator (as passlib.apps.ldap_context's is) and whose
    first initialisation fails half-way (a listed hasher's using() raises once): the failed attempt leaves no trace --
    the next access loads the complete context"""
    from passlib.context import CryptContext, LazyCryptContext

    k = case["k"]
    out = []
    H = make_custom(k)
    names = ["md5_crypt", H, "des_crypt"]
    lazy = LazyCryptContext(iter(names), c10custom__max_rounds=9)
    results = [P.call(lambda: tuple(lazy.schemes())) for _ in range(3)]
    failed = [i for i, (st, _r) in enumerate(results) if st != "ok"]
    want = ("md5_crypt", "c10custom", "des_crypt")
    for i, (st, r) in enumerate(results):
        if st == "ok" and r != want:
            out.append(("C10|lazy_iter|partial_context_after_failure", f"access {i + 1} (the custom hasher's using() failed at call {k}; failed accesses: {[j + 1 for j in failed]}) returned the schemes {r!r}, expected {want!r}"))
            break
    if results[-1][0] != "ok":
        out.append((f"C10|lazy_iter|stuck_after_failure:{results[-1][1]}", f"third access still raises {results[-1][1]} (using() fails at call {k} only)"))
    return out


# ---------------------------------------------------------------------------
# histories of valid / failing changes
# ---------------------------------------------------------------------------
def history_events(cfg):
    """[(label, entry, items)] -- 6 valid and 5 failing changes through different entry points"""
    L = names_of(cfg)
    rs = [s for s in L if s in P.SCALE]
    absent = next(s for s in P.POOL if s not in L)
    cheap = lambda names: [(f"{s}__max_rounds", P.SCALE[s]["b"]) for s in names if s in P.SCALE]  # noqa: E731 - keep new hashes cheap
    ev = [
        ("v:default", "update_kw", [("default", L[-1])]),
        ("v:deprecated_auto", "load_update_dict", [("deprecated", "auto")]),
        ("v:category", "load_update_string", [("staff__context__deprecated", [L[0]] if len(L) > 1 else [])]),
        ("v:vary", "update_dict", [("all__vary_rounds", "5%")]),
        ("v:reload_reordered", "load_dict", [("schemes", list(reversed(L)))] + cheap(L)),
        ("v:first_scheme_only", "load_dict", [("schemes", [L[0]])] + cheap(L[:1])),
        ("f:unknown_option", "update_kw", [("bogus_option", 1)]),
        ("f:default_absent", "load_dict", [("schemes", list(L)), ("default", absent)]),
        ("f:salt", "load_update_string", [(f"{L[0]}__salt", "abcd")]),
        ("f:using_fault", "update_kw", [("schemes", list(L) + ["<custom!1>"])]),
        ("f:malformed_file", "load_path", None),
    ]
    if rs:
        ev[3] = ("v:rounds", "update_dict", [(f"{rs[0]}__rounds", P.SCALE[rs[0]]["r"])])
    return ev


def run_history(cfg, events, seq, tmpdir):
    """apply the events of seq to a fresh context; returns (ctx, [raised?])"""
    ctx, _ = build(cfg)
    raised = []
    for i in seq:
        label, entry, items = events[i]
        if items is None:
            st, r = P.call(do_entry, ctx, entry, None, None, tmpdir, "schemes = des_crypt\n")
        else:
            st, r = P.call(do_entry, ctx, entry, items, items, tmpdir)
        raised.append(st != "ok")
    return ctx, raised


def eval_history(case, memo=None, tmpdir=None):
    cfg, seed, seq = case["base"], case.get("seed", 0), case["seq"]
    own_tmp = None
    if tmpdir is None:
        tmpdir = own_tmp = tempfile.mkdtemp(prefix="c10-")
    events = history_events(cfg)
    out = []
    table = probe_table(cfg, seed)
    ctx, raised = run_history(cfg, events, seq, tmpdir)
    for i, bad in zip(seq, raised):
        if events[i][0].startswith("f:") and not bad:
            out.append((f"C10|history|failing_change_accepted:{events[i][0][2:]}", f"history {[events[j][0] for j in seq]} on {cfg!r}: {events[i][0]} did not raise"))
    reduced = tuple(i for i, bad in zip(seq, raised) if not bad)
    key = (repr(cfg), reduced)
    if memo is not None and key in memo:
        want, rraised = memo[key]
    else:
        rctx, rraised = run_history(cfg, events, reduced, tmpdir)
        want = fingerprint(rctx, table, seed, digests=False)
        if memo is not None:
            memo[key] = (want, rraised)
    if any(rraised):
        out.append(("C10|history|reduced_history_raises", f"history {[events[j][0] for j in seq]} on {cfg!r}: with the failing changes removed, a change that had succeeded now raises -- the failed changes had altered the state"))
    diff = first_diff(want, fingerprint(ctx, table, seed, digests=False))
    if diff:
        out.append((f"C10|history|state_differs:{diff[0]}", f"history {[events[j][0] for j in seq]} on {cfg!r} ends in a different state than the same history without its failing changes: {diff[1]}"))
    # the reached state behaves like a context freshly built from its own export (no stale caches / leftovers)
    from passlib.context import CryptContext

    st, d = P.call(ctx.to_dict)
    if st == "ok":
        try:
            fkey = (repr(cfg), "fresh", repr(sorted(d.items(), key=repr)))
            t2 = probe_table(d, seed) if d.get("schemes") else []
            if memo is not None and fkey in memo:
                fwant = memo[fkey]
            else:
                fwant = fingerprint(CryptContext(**d), t2, seed)
                if memo is not None:
                    memo[fkey] = fwant
        except core.HarnessError:
            raise
        except Exception as e:  # noqa: BLE001 - the export of a reached state must be loadable
            out.append((f"C10|history|export_not_loadable:{type(e).__name__}", f"history {[events[j][0] for j in seq]} on {cfg!r}: to_dict() = {d!r} cannot be loaded again ({e!r})"))
            fwant = None
        if fwant is not None:
            diff = first_diff(fwant, fingerprint(ctx, t2, seed))
            if diff:
                out.append((f"C10|history|differs_from_fresh_context:{diff[0]}", f"history {[events[j][0] for j in seq]} on {cfg!r}: the context answers differently from CryptContext(**its to_dict()): {diff[1]}"))
    else:
        out.append((f"C10|history|to_dict_raises:{d}", f"history {[events[j][0] for j in seq]} on {cfg!r}: to_dict() raised {d}"))
    if own_tmp:
        shutil.rmtree(own_tmp, ignore_errors=True)
    return out


def replay(case):
    with env.scripted_rng(P.EndRng("hi", case.get("seed", 0))):  # no call may reach the process-wide random source
        return _replay(case)


def _replay(case):
    part = case["part"]
    if part == "roundtrip":
        return eval_roundtrip(case)
    if part == "fault":
        return eval_fault(case)[0]
    if part == "lazy":
        return eval_lazy(case)
    if part == "history":
        return eval_history(case)
    if part == "options":
        return eval_option(case)
    if part == "lazy_iter":
        return eval_lazy_iter(case)
    raise core.HarnessError(part)


# ---------------------------------------------------------------------------
# part "options": every scalar option of every registered hasher travels through every export route with its type
# ---------------------------------------------------------------------------
#: names a using() keyword can have (documented options of HasRounds / HasSalt / the individual hashers)
OPTION_NAMES = ("min_rounds", "max_rounds", "default_rounds", "rounds", "min_desired_rounds", "max_desired_rounds", "vary_rounds",
                "salt_size", "default_salt_size", "truncate_error", "version", "block_size", "parallelism", "memory_cost", "time_cost",
                "max_threads", "digest_size", "checksum_size", "hash_len", "salt_len", "ident", "default_ident", "marker", "type", "algs",
                "default_algs")
OPTION_CATS = (None, "admin", "Admin")


def option_values(H, opt):
    """candidate values for option opt of hasher H, read off its public metadata; the first that H.using() takes silently is used"""
    g = lambda a, d=None: getattr(H, a, d)  # noqa: E731
    if opt in ("min_rounds", "max_rounds", "default_rounds", "rounds", "min_desired_rounds", "max_desired_rounds", "time_cost"):
        return [v for v in (g("default_rounds"), g("min_rounds"), 12, 3) if isinstance(v, int)]
    if opt == "vary_rounds":
        return [0.125, 1]
    if opt in ("salt_size", "default_salt_size", "salt_len"):
        return [v for v in (g("default_salt_size"), g("min_salt_size"), g("max_salt_size"), 16) if isinstance(v, int)]
    if opt == "truncate_error":
        return [True]
    if opt == "version":
        return [1, 2, 19]
    if opt in ("ident", "default_ident"):
        return list(g("ident_values") or ())[-1:]
    if opt == "type":
        return ["ID", "id", "i"]
    if opt in ("algs", "default_algs"):
        return ["sha-1,sha-256"]
    if opt == "marker":
        return ["*LK*"]
    return [2, 8, 24, 1024]


def option_cases():
    """(hasher name, option, value) triples the plain hasher accepts without a warning -- admissibility is read off the hasher
    itself, never off CryptContext"""
    from passlib import registry

    out = []
    for name in sorted(registry.list_crypt_handlers()):
        H = registry.get_crypt_handler(name)
        for opt in OPTION_NAMES:
            for v in option_values(H, opt):
                with warnings.catch_warnings():
                    warnings.simplefilter("error")
                    warnings.simplefilter("ignore", DeprecationWarning)
                    try:
                        H.using(**{opt: v})
                    except Exception:  # noqa: BLE001 - not an option of this hasher / not a value it takes
                        continue
                out.append((name, opt, v))
                break
    return out


def eval_option(case, tmpdir=None):
    """one context carrying one option (optionally per category): to_dict() keeps value and type through every route"""
    from passlib.context import CryptContext

    name, opt, v, cat = case["hasher"], case["option"], case["value"], case["cat"]
    key = f"{cat}__{name}__{opt}" if cat else f"{name}__{opt}"
    if case.get("bare"):
        key = opt  # the un-prefixed spelling of a context-wide setting
    out = []
    tag = f"{opt}{':category' if cat else ''}"
    try:
        with warnings.catch_warnings():
            warnings.simplefilter("ignore")
            ctx = CryptContext(schemes=[name], **{key: v})
    except Exception as e:  # noqa: BLE001
        return [(f"C10|options|refused:{tag}:{type(e).__name__}", f"{name}.using({opt}={v!r}) is accepted, CryptContext(schemes=[{name!r}], {key}={v!r}) raised {e!r}")]
    d0 = ctx.to_dict()
    if case.get("nullish"):
        # a string that reads as "not set" ('none', ''): stored or not -- what is exported must be exportable everywhere
        pass
    elif opt in ("algs", "default_algs") and isinstance(v, str):
        # (a comma separated string is the INI spelling of a list of names: exported as the list)
        if d0.get(key) != [x.strip() for x in v.split(",")]:
            out.append((f"C10|options|to_dict:{tag}", f"CryptContext(schemes=[{name!r}], {key}={v!r}).to_dict() = {d0!r}"))
    elif d0.get(key, _MISSING) != v or type(d0.get(key)) is not type(v):
        out.append((f"C10|options|to_dict:{tag}", f"CryptContext(schemes=[{name!r}], {key}={v!r}).to_dict() = {d0!r}"))

    def same(label, make):
        try:
            with warnings.catch_warnings():
                warnings.simplefilter("ignore")
                other = make()
                d1 = other.to_dict()
        except Exception as e:  # noqa: BLE001
            out.append((f"C10|options|{label}:raises:{tag}:{type(e).__name__}", f"{label} of CryptContext(schemes=[{name!r}], {key}={v!r}) raised {e!r}"))
            return
        if d1 != d0 or any(type(d1[k]) is not type(d0[k]) for k in d0):
            out.append((f"C10|options|{label}:to_dict:{tag}", f"{label} of CryptContext(schemes=[{name!r}], {key}={v!r}): to_dict() {d0!r} became {d1!r}"))

    same("ini", lambda: CryptContext.from_string(ctx.to_string()))
    same("dict", lambda: CryptContext(**ctx.to_dict()))
    same("copy", ctx.copy)

    def via_path():
        path = os.path.join(tmpdir or tempfile.gettempdir(), f"c10-opt-{os.getpid()}.cfg")
        with open(path, "w", encoding="utf-8") as fh:
            fh.write(ctx.to_string())
        try:
            return CryptContext.from_path(path)
        finally:
            os.unlink(path)

    same("path", via_path)

    def via_update():
        o = CryptContext(schemes=[name])
        o.update(**{key: v})
        return o

    same("update", via_update)

    # update() with a value that COMPARES equal to the stored one and means something else (vary_rounds 1 = one round,
    # 1.0 = 100 %; True == 1): the new value and its type are what the context exports afterwards
    if opt == "vary_rounds" and not case.get("nullish") and v is not None:
        for a, b in ((1, 1.0), (1.0, 1)):
            try:
                with warnings.catch_warnings():
                    warnings.simplefilter("ignore")
                    o = CryptContext(schemes=[name], **{key: a})
                    o.update(**{key: b})
                    ek, ev_ = _expected_export(key, b)
                    got = o.to_dict().get(ek, _MISSING)
            except Exception as e:  # noqa: BLE001
                out.append((f"C10|options|update_equal_valued:raises:{tag}:{type(e).__name__}", f"CryptContext(schemes=[{name!r}], {key}={a!r}).update({key}={b!r}) raised {e!r}"))
                continue
            if got is _MISSING or got != ev_ or type(got) is not type(ev_):
                out.append((f"C10|options|update_equal_valued:not_applied:{tag}", f"CryptContext(schemes=[{name!r}], {key}={a!r}).update({key}={b!r}) exports {ek} = {got!r}, expected {ev_!r}"))
    # update(key=None) UNSETS the key, whatever spelling it was given under (bare / all__ for the context-wide settings)
    if not case.get("nullish") and v is not None:
        pairs = [(key, key)]
        if opt in ("vary_rounds", "truncate_error") and not cat:
            # the context-wide settings: set and unset under the bare and the all__ spelling, in every combination
            pairs += [(a, b) for a in (opt, f"all__{opt}") for b in (opt, f"all__{opt}")]
        # (truncate_error also reads the strings 'none' / '' as "not set": the same through update())
        nulls = (None, "none", "") if opt == "truncate_error" else (None,)
        for set_key, unset_key in pairs:
            for null in nulls:
                ntag = tag if null is None else f"{tag}:{null!r}"
                try:
                    with warnings.catch_warnings():
                        warnings.simplefilter("ignore")
                        o = CryptContext(schemes=[name], **{set_key: v})
                        o.update(**{unset_key: null})
                        d2 = o.to_dict()
                except Exception as e:  # noqa: BLE001
                    out.append((f"C10|options|unset:raises:{ntag}:{type(e).__name__}", f"CryptContext(schemes=[{name!r}], {set_key}={v!r}).update({unset_key}={null!r}) raised {e!r}"))
                    continue
                if d2 != {"schemes": [name]}:
                    out.append((f"C10|options|unset:still_set:{ntag}", f"CryptContext(schemes=[{name!r}], {set_key}={v!r}).update({unset_key}={null!r}) still exports {d2!r}"))
    return out


# ---------------------------------------------------------------------------
# enumeration
# ---------------------------------------------------------------------------
EXTRAS = [
    {"schemes": ["sha256_crypt", "md5_crypt", "des_crypt"], "deprecated": "md5_crypt, des_crypt", "sha256_crypt__min_rounds": "1010",
     "sha256_crypt__max_rounds": "1400", "sha256_crypt__default_rounds": "1200", "sha256_crypt__vary_rounds": "5%"},
    {"schemes": "pbkdf2_sha256, bsdi_crypt", "all__vary_rounds": 0.25, "pbkdf2_sha256__min_rounds": 100, "pbkdf2_sha256__max_rounds": 300,
     "bsdi_crypt__rounds": "201", "admin__context__default": "bsdi_crypt"},
    {"schemes": ["md5_crypt", CUSTOM, "pbkdf2_sha256"], "c10custom__max_rounds": 9, "admin__c10custom__min_rounds": 3,
     "staff__context__deprecated": ["c10custom"], "pbkdf2_sha256__rounds": 200},
    {"schemes": ["pbkdf2_sha256", "postgres_md5", "des_crypt"], "deprecated": ["postgres_md5"], "pbkdf2_sha256__rounds": 200},
    {"schemes": ["phpass", "ldap_md5_crypt"], "default": "ldap_md5_crypt", "deprecated": "auto", "phpass__max_rounds": 10,
     "phpass__vary_rounds": 1, "admin__context__default": "phpass"},
    {"schemes": ["des_crypt", "postgres_md5", "bsdi_crypt"], "truncate_error": True, "bsdi_crypt__max_rounds": 301, "bsdi_crypt__vary_rounds": "12.5%"},
    {"schemes": ["md5_crypt", "des_crypt", "unix_disabled"], "unix_disabled__marker": "!%locked%", "deprecated": ["des_crypt"]},
    # an EMPTY per-category deprecated list shadows the global one (nothing is deprecated for that category)
    {"schemes": ["sha256_crypt", "md5_crypt", "des_crypt"], "deprecated": ["md5_crypt", "des_crypt"], "admin__context__deprecated": [],
     "sha256_crypt__rounds": 1100},
    {"schemes": ["pbkdf2_sha256", "md5_crypt"], "deprecated": "md5_crypt", "admin__context__deprecated": "", "pbkdf2_sha256__rounds": 150,
     "all__vary_rounds": 0.1, "all__truncate_error": False},
    # integer settings of individual schemes other than the cost (they travel through INI text as strings)
    {"schemes": ["bcrypt_sha256", "md5_crypt"], "bcrypt_sha256__version": 1, "bcrypt_sha256__rounds": 4},
    {"schemes": ["scrypt", "md5_crypt"], "scrypt__block_size": 2, "scrypt__parallelism": 2, "scrypt__rounds": 4, "deprecated": ["md5_crypt"]},
    # vary_rounds at the top of its range (1.0 = 100%) and as a whole-number float
    {"schemes": ["pbkdf2_sha256", "md5_crypt"], "pbkdf2_sha256__default_rounds": 200, "pbkdf2_sha256__vary_rounds": 1.0},
    {"schemes": ["sha256_crypt"], "sha256_crypt__default_rounds": 2000, "sha256_crypt__max_rounds": 4000, "all__vary_rounds": "100%"},
    # the default scheme takes a context keyword (user=), the others do not: a dummy hash or a keyword filter left over
    # from before a change of the default shows as TypeError / a refused keyword
    {"schemes": ["postgres_md5", "md5_crypt", "des_crypt"]},
    {"schemes": ["md5_crypt", "postgres_md5"], "default": "postgres_md5", "admin__context__default": "md5_crypt"},
    # categories are application strings ("any string the application wishes to use"): capitals must survive every route
    {"schemes": ["sha256_crypt", "md5_crypt"], "Admin__context__default": "md5_crypt", "sha256_crypt__rounds": 1100,
     "STAFF__sha256_crypt__rounds": 1300, "Admin__context__deprecated": ["sha256_crypt"]},
    {"schemes": ["pbkdf2_sha256", "md5_crypt"], "pbkdf2_sha256__rounds": 150, "admin__pbkdf2_sha256__rounds": 170, "Admin__pbkdf2_sha256__rounds": 190,
     "aDmin__context__default": "md5_crypt"},
    {"schemes": ["sha256_crypt", "md5_crypt"], "sha256_crypt__rounds": 1100, "ü b-1__context__default": "md5_crypt", "ü b-1__sha256_crypt__rounds": 1200,
     "42__context__deprecated": "md5_crypt"},
    # a LIST-valued hasher option (scram's algorithms): the caller's list stays the caller's, and the list survives INI
    {"schemes": ["md5_crypt", "scram"], "scram__algs": ["sha-1", "sha-256"], "scram__rounds": 10, "deprecated": ["scram"]},
    # an option explicitly given as None ("not set")
    {"schemes": ["sha256_crypt", "md5_crypt"], "sha256_crypt__max_rounds": None, "sha256_crypt__rounds": 1100},
    {"schemes": ["pbkdf2_sha256", "md5_crypt"], "pbkdf2_sha256__rounds": 150, "admin__pbkdf2_sha256__min_rounds": None, "all__vary_rounds": None},
]
#: bases of the fault enumeration only (their inherited settings are outside the reference model)
FAULT_EXTRAS = [
    {"schemes": ["md5_crypt", PRECONF, "pbkdf2_sha256"], "pbkdf2_sha256__rounds": 200, "deprecated": ["md5_crypt"]},
    {"schemes": [PRECONF, "sha256_crypt"], "sha256_crypt__min_rounds": 1000, "sha256_crypt__max_rounds": 1500, "default": "sha256_crypt"},
]
ROUTES = ("dict", "string", "path", "copy", "noop", "update")


def cheap_valid_bases(quick, seed):
    """valid configurations of the C04 space whose new hashes are cheap, in enumeration order"""
    out = []
    for sp in P.gen_specs(True, seed):
        cfg = P.build_cfg(sp)
        try:
            m = M.Policy(cfg)
        except M.Invalid:
            continue
        if m.unspecified or any(_heavy(m, c) for c in CATS):
            continue
        out.append((sp, cfg))
    return out


def base_cls(sp):
    return f"n{len(sp['schemes'])}:{'d' if sp.get('default') else '-'}:{'auto' if sp.get('dep') == 'auto' else 'unset' if sp.get('dep') is None else len(sp['dep'])}:r{sp.get('rk', 0)}:{sp.get('vary')}:{sp.get('cat')}"


def work(task):
    with env.scripted_rng(P.EndRng("hi", task.get("seed", 0))):  # ambient: no call may reach the real random source
        return _work(task)


def _work(task):
    acc = Acc()
    tmpdir = tempfile.mkdtemp(prefix="c10-")
    try:
        kind = task["kind"]
        if kind == "roundtrip":
            for case in task["cases"]:
                vs = eval_roundtrip(case, acc, tmpdir)
                acc.axis("route", case["route"])
                for key, desc in vs:
                    acc.violation(key, desc, case)
                if acc.evaluations % 501 == 1:
                    acc.sample(case)
        elif kind == "fault":
            cfg, seed = task["base"], task["seed"]
            live = Live(cfg, seed)
            for case in fault_cases(cfg, seed):
                vs, (st, r) = eval_fault(case, live, tmpdir)
                acc.ev()
                acc.cls("fault", task["cls"], case["kind"], case["variant"], case["pos"], case["entry"])
                acc.axis("kind", case["kind"])
                acc.axis("position", case["pos"])
                acc.axis("entry_point", case["entry"])
                if case["kind"] == "using_fault":
                    acc.axis("using_fault_point", f"k={case['k']}/{case['n']}")
                    acc.count("using_fault_points")
                acc.outcome((case["kind"], r if st != "ok" or r == "accepted_unspecified" else "ACCEPTED"))
                for key, desc in vs:
                    acc.violation(key, desc, case)
                if acc.evaluations % 997 == 1:
                    acc.sample(case)
            for k in (1,):
                case = {"part": "lazy", "base": cfg, "seed": seed, "k": k}
                if not has_custom(cfg):
                    acc.ev()
                    acc.cls("lazy", task["cls"], k)
                    acc.axis("kind", "onload_fault")
                    for key, desc in eval_lazy(case):
                        acc.violation(key, desc, case)
        elif kind == "lazy_iter":
            for k in (1, 2, 3, 4):
                case = {"part": "lazy_iter", "k": k}
                acc.ev()
                acc.cls("lazy_iter", k)
                for key, desc in eval_lazy_iter(case):
                    acc.violation(key, desc, case)
        elif kind == "options":
            for case in task["cases"]:
                acc.ev()
                acc.cls("options", case["hasher"], case["option"], case["cat"])
                acc.axis("option", case["option"])
                acc.axis("option_category", str(case["cat"]))
                for key, desc in eval_option(case, tmpdir):
                    acc.violation(key, desc, case)
                if acc.evaluations % 211 == 1:
                    acc.sample(case)
        elif kind == "history":
            cfg, seed = task["base"], task["seed"]
            memo = {}
            nev = len(history_events(cfg))
            for n in (1, 2, 3):
                for seq in itertools.product(range(nev), repeat=n):
                    case = {"part": "history", "base": cfg, "seed": seed, "seq": list(seq)}
                    acc.ev()
                    acc.cls("history", task["cls"], seq)
                    acc.count("histories")
                    acc.count("history_transitions", n)
                    acc.axis("history_length", n)
                    for key, desc in eval_history(case, memo, tmpdir):
                        acc.violation(key, desc, case)
                    if seq == (0, 5, 1):
                        acc.sample(case)
    finally:
        shutil.rmtree(tmpdir, ignore_errors=True)
    return acc


def run(ctx):
    seed = ctx.seed
    bases = cheap_valid_bases(ctx.quick, seed)
    q = 18 if ctx.quick else 4
    rt = [(base_cls(sp), cfg) for sp, cfg in bases[::q]] + [(f"extra{i}", cfg) for i, cfg in enumerate(EXTRAS)]
    per = 2 if ctx.quick else 12
    hper = 1 if ctx.quick else 3
    fb, hb = [], []
    for n in (1, 2, 3):
        sized = [(base_cls(sp), cfg) for sp, cfg in bases if len(sp["schemes"]) == n]
        step = max(1, len(sized) // per)
        fb += sized[::step][:per]
        hstep = max(1, len(sized) // hper)
        if n > 1 or not ctx.quick:
            hb += sized[5::hstep][:hper]
    fb += [(f"extra{i}", cfg) for i, cfg in enumerate(EXTRAS)]
    fb += [(f"fault_extra{i}", cfg) for i, cfg in enumerate(FAULT_EXTRAS)]
    hb += [(f"extra{i}", cfg) for i, cfg in enumerate(EXTRAS) if not has_custom(cfg)][:2 if ctx.quick else 5]
    tasks = []
    rcases = [{"part": "roundtrip", "base": cfg, "seed": seed, "route": route, "cls": cls} for cls, cfg in rt for route in ROUTES]
    tasks += [{"kind": "history", "base": cfg, "seed": seed, "cls": cls} for cls, cfg in hb]
    tasks += [{"kind": "fault", "base": cfg, "seed": seed, "cls": cls} for cls, cfg in fb]
    ocases = [{"part": "options", "hasher": n, "option": o, "value": v, "cat": c} for n, o, v in option_cases() for c in OPTION_CATS]
    ocases += [{"part": "options", "hasher": n, "option": "truncate_error", "value": v, "cat": c, "nullish": True}
               for n in ("bcrypt", "des_crypt") for v in ("none", "None", "") for c in OPTION_CATS]
    ocases += [{"part": "options", "hasher": n, "option": o, "value": v, "cat": None, "nullish": True, "bare": True}
               for n in ("bcrypt", "sha256_crypt") for o, v in (("truncate_error", "none"), ("vary_rounds", None))]
    # (vary_rounds is not a using() option of its own any more, but a documented context option: scheme- and category-level)
    ocases += [{"part": "options", "hasher": n, "option": "vary_rounds", "value": v, "cat": c}
               for n in ("sha256_crypt", "pbkdf2_sha256") for v in (1, 0.5) for c in OPTION_CATS]
    tasks += [{"kind": "options", "cases": ocases[i::16]} for i in range(16)]
    ctx.cov["option_cases"] = len(ocases)
    tasks.append({"kind": "lazy_iter"})
    nsh = 96 if ctx.quick else 256
    tasks += [{"kind": "roundtrip", "cases": rcases[i::nsh]} for i in range(nsh) if rcases[i::nsh]]
    ctx.log(f"{len(rt)} round-trip bases x {len(ROUTES)} routes, {len(fb)} fault bases, {len(hb)} history bases")
    acc = core.pmap(work, tasks)
    ctx.merge(acc)
    ctx.cov["fault_bases"] = len(fb)
    ctx.cov["roundtrip_bases"] = len(rt)
    ctx.cov["history_bases"] = len(hb)
    ctx.cov["histories"] = acc.counters["histories"]
    ctx.cov["history_transitions"] = acc.counters["history_transitions"]
    ctx.cov["using_fault_points"] = acc.counters["using_fault_points"]
    ctx.assume("bases are restricted to configurations whose new hashes are cheap (the fingerprint hashes with an unused user= keyword)")
    ctx.assume("exception classes are not compared: any exception counts as 'the change failed'")
