"""C19 -- first use from several threads behaves like first use from one.

Engine E3 (mc.sched): every schedule with <= B preemptions of 2-3 real threads
making their first calls on freshly reset lazy objects, schedule points at every
line (thorough: also every bytecode for the two smallest harnesses) of the
lazy-initialisation code.  Oracle: every thread's observation must be one that
some sequential order of the same calls produces; a follow-up call after the
threads finished must behave like after sequential use; no deadlock.
"""
from __future__ import annotations

import itertools

from mc import core, sched
from mc.core import Acc

ID = "C19"
LEVEL = "model_checking"
RULE = (
    "stateless DFS over all thread schedules with <= B preemptions (iterative preemption bounding) of each "
    "harness (2-3 threads x first-use operations on freshly reset lazy state); an execution is non-trivial when "
    "at least one context switch happened inside the instrumented initialisation code; distinct class = "
    "harness|ops|level|choice vector"
)

PW = "pw"


# ---------------------------------------------------------------------------
# harness definitions
# ---------------------------------------------------------------------------
def _known():
    """fixed hashes used as probes (made sequentially, before any scheduling)"""
    global _KNOWN
    try:
        return _KNOWN
    except NameError:
        pass
    from passlib.hash import bcrypt, des_crypt, md5_crypt, sha1_crypt, sha256_crypt

    _KNOWN = {
        "md5_crypt": md5_crypt.using(salt="abcdefgh").hash(PW),
        "sha256_crypt": sha256_crypt.using(salt="abcdefgh", rounds=1000).hash(PW),
        "sha1_crypt": sha1_crypt.using(salt="abcdefgh", rounds=10).hash(PW),
        "des_crypt": des_crypt.using(salt="ab").hash(PW),
        "bcrypt": bcrypt.using(salt="abcdefghijklmnopqrstuu", rounds=4).hash(PW),
    }
    return _KNOWN


def obs(result):
    """normalise a thread result into a hashable, seed-independent observation"""
    kind, val = result
    if kind == "exc":
        msg = str(val)
        # keep only identifier-like words of the message (attribute names etc.), no addresses
        import re

        words = re.findall(r"'([A-Za-z_][A-Za-z0-9_]*)'", msg)
        return ("exc", type(val).__name__, ",".join(words[:3]))
    if kind == "aborted":
        return ("aborted",)
    return ("ok", val)


class Harness:
    name = ""
    ops = ()

    def codes(self):
        raise NotImplementedError

    def fresh(self):
        raise NotImplementedError

    def body(self, st, op):
        raise NotImplementedError

    def post(self, st):
        return None

    def locks(self, s):
        """replace EVERY real lock the library owns (module globals and class attributes of passlib.* / libpass.*)
        by a scheduler-aware lock; returns the undo list"""
        import sys
        import threading

        lock_types = (type(threading.Lock()), type(threading.RLock()))
        undo = []
        for modname, mod in sorted(sys.modules.items()):
            if mod is None or not (modname.split(".")[0] in ("passlib", "libpass")):
                continue
            owners = [(mod, modname)]
            for k, v in list(vars(mod).items()):
                if isinstance(v, type) and getattr(v, "__module__", None) == modname:
                    owners.append((v, f"{modname}.{k}"))
            for owner, oname in owners:
                for k, v in list(vars(owner).items()):
                    if isinstance(v, lock_types):
                        undo.append((owner, k, v))
                        setattr(owner, k, s.make_lock(f"{oname}.{k}"))
        return undo


def _hash_obs(handler_or_ctx, h):
    """observation for a freshly made hash: scheme + it verifies"""
    try:
        ok = handler_or_ctx.verify(PW, h)
    except Exception as e:  # noqa: BLE001
        ok = f"verify-raised-{type(e).__name__}"
    ident = h[:3] if isinstance(h, str) else repr(type(h))
    return ("hash", ident, ok)


def _own_instance_locks(obj):
    """locks an object keeps in its own instance dict (created per instance, so Harness.locks() cannot see them) are
    replaced by scheduler-aware ones too"""
    import threading

    s = _CUR.get("sched")
    if s is None:
        return
    lock_types = (type(threading.Lock()), type(threading.RLock()))
    d = object.__getattribute__(obj, "__dict__")
    for k, v in list(d.items()):
        if isinstance(v, lock_types):
            d[k] = s.make_lock(f"instance.{k}")


class LazyTwo(Harness):
    """two lazily configured contexts.  The onload callback of the first waits (on a scheduler-aware gate) for the thread
    that makes the first use of the SECOND context: a single thread never waits for anything here, so two threads must
    not wait for each other either -- the initialisation of one context may not hold up the first use of another"""

    name = "lazy_two_contexts"

    def __init__(self, ops):
        self.ops = ops

    def codes(self):
        from passlib.context import CryptContext, LazyCryptContext

        return [LazyCryptContext._lazy_init, LazyCryptContext.__getattribute__, CryptContext.__init__]

    def fresh(self):
        import threading

        from passlib.context import LazyCryptContext

        s = _CUR.get("sched")
        gate = s.make_lock("harness.gate") if s is not None else threading.RLock()

        def onload(**kwds):
            with gate:  # "wait until the other thread is done with its part"
                pass
            return kwds

        a = LazyCryptContext(["sha256_crypt", "md5_crypt"], onload=onload, sha256_crypt__rounds=1000)
        b = LazyCryptContext(["md5_crypt", "des_crypt"])
        _own_instance_locks(a)
        _own_instance_locks(b)
        return {"a": a, "b": b, "gate": gate}

    def body(self, st, op):
        a, b, gate = st["a"], st["b"], st["gate"]
        K = _known()
        if op == "first_use_a":
            return lambda: (tuple(a.schemes()), a.verify(PW, K["md5_crypt"]))
        if op == "gate_first_use_b":
            def f():
                with gate:
                    return (tuple(b.schemes()), b.verify(PW, K["md5_crypt"]))
            return f
        raise KeyError(op)

    def post(self, st):
        return (type(st["a"]).__name__, type(st["b"]).__name__, tuple(st["a"].schemes()), tuple(st["b"].schemes()))


class LazyContext(Harness):
    def __init__(self, onload, ops):
        self.onload = onload
        self.ops = ops
        self.name = "lazy_context_onload" if onload else "lazy_context"

    def codes(self):
        from passlib.context import CryptContext, LazyCryptContext

        return [LazyCryptContext._lazy_init, LazyCryptContext.__getattribute__, CryptContext.__init__, CryptContext.load]

    def fresh(self):
        from passlib.context import LazyCryptContext

        kw = dict(sha256_crypt__rounds=1000, deprecated=["md5_crypt"])
        calls = []
        if self.onload:
            def onload(**kwds):
                # (a callback that does one-time deferred work: it is run once, as from a single thread)
                calls.append(1)
                kwds["sha256_crypt__rounds"] = 1000
                return kwds

            ctx = LazyCryptContext(["sha256_crypt", "md5_crypt"], onload=onload, deprecated=["md5_crypt"])
        else:
            ctx = LazyCryptContext(["sha256_crypt", "md5_crypt"], **kw)
        _own_instance_locks(ctx)
        return {"ctx": ctx, "calls": calls}

    def body(self, st, op):
        ctx = st["ctx"]
        K = _known()
        if op == "hash":
            return lambda: _hash_obs(ctx, ctx.hash(PW))
        if op == "verify":
            return lambda: ctx.verify(PW, K["md5_crypt"])
        if op == "identify":
            return lambda: ctx.identify(K["sha256_crypt"])
        if op == "needs_update":
            return lambda: ctx.needs_update(K["md5_crypt"])
        raise KeyError(op)

    def post(self, st):
        ctx = st["ctx"]
        K = _known()
        return (type(ctx).__name__, ctx.verify(PW, K["sha256_crypt"]), ctx.needs_update(K["md5_crypt"]), tuple(ctx.schemes()), len(st.get("calls", ())))


class LazyB64(Harness):
    name = "lazy_b64"

    def __init__(self, ops):
        self.ops = ops

    def codes(self):
        from passlib.utils.binary import Base64Engine, LazyBase64Engine

        return [LazyBase64Engine._lazy_init, LazyBase64Engine.__getattribute__, Base64Engine.__init__]

    def fresh(self):
        from passlib.utils.binary import HASH64_CHARS, LazyBase64Engine

        return {"eng": LazyBase64Engine(HASH64_CHARS, big=True)}

    def body(self, st, op):
        e = st["eng"]
        if op == "encode":
            return lambda: e.encode_bytes(b"abc")
        if op == "decode":
            return lambda: e.decode_bytes(b"abcd")
        if op == "int":
            return lambda: e.encode_int12(77)
        raise KeyError(op)

    def post(self, st):
        e = st["eng"]
        return (type(e).__name__, e.encode_bytes(b"xyz"), e.big)


def reset_backend(cls, keep_workarounds=False):
    """put a multi-backend hasher class back into its never-used state
    (keep_workarounds: keep the bcrypt mixins' cached self-test verdicts, which are constants of the host)"""
    import passlib.utils.handlers as uh

    owner = cls._get_backend_owner() if hasattr(cls, "_get_backend_owner") else cls
    # (the two _pending_* attributes are scratch state of set_backend(); an execution that went wrong may leave
    # them behind, and the next execution must not start from them)
    for c in {owner, cls}:
        for k in ("_BackendMixin__backend", "_calc_checksum_backend", "_pending_backend", "_pending_dry_run"):
            if k in c.__dict__:
                delattr(c, k)
    if issubclass(owner, uh.SubclassBackendMixin):
        mm = owner._backend_mixin_map
        bases = [b for b in owner.__bases__ if b not in mm.values()]
        # _NoBackend goes first (as in the class statement)
        owner.__bases__ = (mm[None],) + tuple(bases)
        for m in ([] if keep_workarounds else mm.values()):
            for k in ("_workrounds_initialized", "_has_2a_wraparound_bug", "_lacks_20_support", "_lacks_2y_support",
                      "_lacks_2b_support", "_fallback_ident"):
                if k in m.__dict__ and m.__name__ != "_BcryptCommon":
                    delattr(m, k)


class Backend(Harness):
    def __init__(self, hname, ops):
        self.hname = hname
        self.name = f"backend_{hname}"
        self.ops = ops

    def handler(self):
        import passlib.hash as PH

        return getattr(PH, self.hname)

    def codes(self):
        import passlib.utils as U
        import passlib.utils.handlers as uh

        H = self.handler()
        cs = [
            uh.BackendMixin.get_backend, uh.BackendMixin.set_backend, uh.BackendMixin.has_backend,
            uh.BackendMixin._set_backend, uh.BackendMixin._stub_requires_backend, uh.BackendMixin._get_backend_owner,
            uh.HasManyBackends._calc_checksum, uh.HasManyBackends._calc_checksum_backend,
            uh.HasManyBackends._get_backend_loader, uh.HasManyBackends._set_calc_checksum_backend,
            uh.SubclassBackendMixin._set_backend, uh.SubclassBackendMixin._get_backend_owner,
            uh.SubclassBackendMixin._get_backend_loader, U.update_mixin_classes,
        ]
        for k, v in vars(H).items():
            if k.startswith("_load_backend_"):
                cs.append(v)
        if self.hname == "bcrypt":
            from passlib.handlers import bcrypt as B

            cs += [B._NoBackend._calc_checksum, B._BcryptBackend._load_backend_mixin, B._OsCryptBackend._load_backend_mixin,
                   B._BuiltinBackend._load_backend_mixin, B._BcryptCommon._finalize_backend_mixin]
        return cs

    def fresh(self):
        H = self.handler()
        reset_backend(H)
        return {"H": H}

    def body(self, st, op):
        H = st["H"]
        K = _known()
        kw = {"md5_crypt": dict(salt="abcdefgh"), "sha256_crypt": dict(salt="abcdefgh", rounds=1000),
              "sha1_crypt": dict(salt="abcdefgh", rounds=10), "des_crypt": dict(salt="ab"),
              "bcrypt": dict(salt="abcdefghijklmnopqrstuu", rounds=4)}[self.hname]
        if op == "hash":
            return lambda: H.using(**kw).hash(PW)
        if op == "verify":
            return lambda: H.verify(PW, K[self.hname])
        if op == "has_backend":
            # (bcrypt: the pure-python backend's self-test costs seconds; its dry run is probed with os_crypt)
            last = "os_crypt" if self.hname == "bcrypt" else H.backends[-1]
            return lambda: H.has_backend(last)
        if op == "get_backend":
            return lambda: H.get_backend()
        if op == "set_builtin":
            # the application's explicit choice: whatever the other thread's first use does, it is in force afterwards
            return lambda: H.set_backend("builtin")
        raise KeyError(op)

    def post(self, st):
        H = st["H"]
        K = _known()
        return (H.get_backend(), H.verify(PW, K[self.hname]), H.verify("x", K[self.hname]))


class Registry(Harness):
    name = "registry"

    def __init__(self, ops):
        self.ops = ops

    def codes(self):
        import passlib.registry as R

        return [R.get_crypt_handler, R.register_crypt_handler, R._PasslibRegistryProxy.__getattr__, R.list_crypt_handlers,
                R._PasslibRegistryProxy.__dir__]

    def fresh(self):
        import passlib.handlers.fshp  # noqa: F401  (module stays imported: import is atomic)
        import passlib.registry as R

        R._handlers.pop("fshp", None)
        return {}

    def body(self, st, op):
        import passlib.handlers.fshp as F
        import passlib.hash as PH
        import passlib.registry as R

        if op == "get":
            return lambda: R.get_crypt_handler("fshp") is F.fshp
        if op == "attr":
            return lambda: PH.fshp is F.fshp
        if op == "get_default":
            return lambda: R.get_crypt_handler("fshp", None) is F.fshp
        if op == "list":
            # the listing of every known name while another thread registers one: complete, and it does not fail
            return lambda: (lambda names: ("fshp" in names, "md5_crypt" in names, len(names) == len(set(names)), names == sorted(names)))(R.list_crypt_handlers())
        if op == "list_loaded":
            # loaded-only listing: 'fshp' may or may not be in it yet, everything else is stable
            return lambda: (lambda names: ("md5_crypt" in names or "md5_crypt" not in R._handlers, len(names) == len(set(names)), names == sorted(names)))(R.list_crypt_handlers(loaded_only=True))
        if op == "dir":
            return lambda: "fshp" in dir(PH)
        raise KeyError(op)

    def post(self, st):
        import passlib.handlers.fshp as F
        import passlib.registry as R

        return (R._handlers.get("fshp") is F.fshp, "fshp" in R.list_crypt_handlers(True))


class RegistryImport(Harness):
    """first lookups of registry names whose handler module has NOT been imported yet: the threads go through the
    real import system.  The per-module import lock (importlib._bootstrap._ModuleLock) is replaced by a
    scheduler-aware lock and `_load_unlocked` is instrumented, so a second thread can be scheduled between
    "module object placed in sys.modules" and "module body finished" -- the window the import lock exists for."""

    name = "registry_import"
    MOD = "passlib.handlers.roundup"
    NAMES = ("roundup_plaintext", "ldap_hex_md5", "ldap_hex_sha1")

    def __init__(self, ops):
        self.ops = ops

    def codes(self):
        import importlib._bootstrap as B

        import passlib.registry as R

        return [R.get_crypt_handler, R.register_crypt_handler, R._PasslibRegistryProxy.__getattr__, B._load_unlocked]

    def locks(self, s):
        import importlib._bootstrap as B

        undo = super().locks(s)

        class SchedModuleLock:
            def __init__(self, name):
                self.name = name
                self._lock = s.make_lock(f"import:{name}")

            def acquire(self):
                self._lock.acquire()
                return True

            def release(self):
                self._lock.release()

            def __repr__(self):
                return f"SchedModuleLock({self.name!r})"

        undo.append((B, "_ModuleLock", B._ModuleLock))
        B._ModuleLock = SchedModuleLock
        return undo

    def fresh(self):
        import importlib._bootstrap as B
        import sys

        import passlib.handlers as HP
        import passlib.registry as R

        for n in self.NAMES:
            R._handlers.pop(n, None)
        sys.modules.pop(self.MOD, None)
        vars(HP).pop(self.MOD.rsplit(".", 1)[1], None)
        B._module_locks.pop(self.MOD, None)
        return {}

    def body(self, st, op):
        import passlib.hash as PH
        import passlib.registry as R

        kind, n = op.split(":")
        if kind == "get":
            return lambda: R.get_crypt_handler(n).name
        if kind == "attr":
            return lambda: getattr(PH, n).name
        if kind == "get_default":
            return lambda: getattr(R.get_crypt_handler(n, None), "name", None)
        raise KeyError(op)

    def post(self, st):
        import sys

        import passlib.registry as R

        mod = sys.modules.get(self.MOD)
        return tuple((n, n in R._handlers, mod is not None and R._handlers.get(n) is getattr(mod, n, None)) for n in self.NAMES)


class RegistryImportDirect(RegistryImport):
    """one thread imports a handler module DIRECTLY (`import passlib.handlers.django`, as application code and
    passlib.ext.django do) while another looks a name of that module up through the registry.  The module body itself
    resolves other hashers through the registry (`from passlib.hash import pbkdf2_sha1, ...`), one of which is not
    registered yet: a lock taken by the registry around its import would be acquired in the opposite order by the two
    threads (import lock -> registry lock / registry lock -> import lock)."""

    name = "registry_import_direct"
    MOD = "passlib.handlers.django"
    NAMES = ("django_salted_sha1", "django_salted_md5", "django_des_crypt", "django_disabled", "django_bcrypt",
             "django_bcrypt_sha256", "django_pbkdf2_sha256", "django_pbkdf2_sha1", "django_argon2")
    NEEDS = ("pbkdf2_sha1",)  # looked up by the module body; un-registered (its module stays imported) before every run

    def fresh(self):
        import passlib.registry as R

        st = super().fresh()
        for n in self.NEEDS:
            R._handlers.pop(n, None)
        return st

    def body(self, st, op):
        if op == "import":
            import importlib

            return lambda: importlib.import_module(self.MOD).django_salted_sha1.name
        return super().body(st, op)


class RegistrySameName(Harness):
    """two threads make the first lookup of the SAME registry name (module already imported, entry not registered yet).
    Every plain function of the handler module is instrumented, whatever it is called -- a module that builds its
    hashers on demand (module-level __getattr__, factory helpers) gets its schedule points without being named here;
    where the module can re-create a hasher object on demand, the object is dropped too before every execution"""

    name = "registry_same_name"

    def __init__(self, ops):
        self.ops = ops
        self.names = sorted({op.split(":")[1] for op in ops})

    def _mods(self):
        import importlib

        import passlib.registry as R

        mods = []
        for n in self.names:
            loc = R._locations.get(n)
            if loc:
                mods.append(importlib.import_module(loc if isinstance(loc, str) else loc[0]))
        return mods

    def codes(self):
        import types

        import passlib.registry as R
        import passlib.utils.handlers as uh

        cs = [R.get_crypt_handler, R.register_crypt_handler, R._PasslibRegistryProxy.__getattr__, uh.PrefixWrapper.__init__]
        for m in self._mods():
            cs += [v for v in vars(m).values() if isinstance(v, types.FunctionType) and v.__module__ == m.__name__]
        return cs

    def fresh(self):
        import passlib.registry as R

        for m in self._mods():
            lazy = "__getattr__" in vars(m)
            for n in self.names:
                R._handlers.pop(n, None)
                if lazy:
                    vars(m).pop(n, None)
        for n in self.names:
            R._handlers.pop(n, None)
        return {}

    def body(self, st, op):
        import passlib.hash as PH
        import passlib.registry as R

        kind, n = op.split(":")
        if kind == "get":
            return lambda: R.get_crypt_handler(n).name
        if kind == "attr":
            return lambda: getattr(PH, n).name
        raise KeyError(op)

    def post(self, st):
        import passlib.registry as R

        out = []
        for n in self.names:
            h = R._handlers.get(n)
            out.append((n, getattr(h, "name", None), all(getattr(m, n, h) is h for m in self._mods())))
        return tuple(out)


class TotpThreads(Harness):
    """after initialisation, concurrent generate() / match() calls on DIFFERENT TOTP objects are independent of each other:
    every plain function and method of passlib.totp is instrumented (whatever it is called), so module-level scratch state
    shared between two calls gets a schedule point in between"""

    name = "totp_threads"
    KEYS = {"a": bytes(range(1, 21)), "b": bytes(range(101, 133))}

    def __init__(self, ops):
        self.ops = ops

    def codes(self):
        import types

        import passlib.totp as T

        cs = [v for v in vars(T).values() if isinstance(v, types.FunctionType) and v.__module__ == T.__name__]
        for cls in (T.TOTP, T.TotpToken, T.TotpMatch):
            for v in vars(cls).values():
                f = getattr(v, "__func__", v)
                if isinstance(f, types.FunctionType):
                    cs.append(f)
        return cs

    def fresh(self):
        import passlib.totp as T

        objs = {"a": T.TOTP(self.KEYS["a"], format="raw", digits=6, period=30),
                "b": T.TOTP(self.KEYS["b"], format="raw", alg="sha256", digits=8, period=30)}
        for o in objs.values():
            o.generate(0)  # (initialised: the keyed HMAC of each object is built)
        return objs

    def body(self, st, op):
        kind, which, t = op.split(":")
        o, t = st[which], int(t)
        if kind == "gen":
            return lambda: (lambda tok: (tok.token, tok.counter))(o.generate(t))
        if kind == "match":
            code = o.generate(t).token
            return lambda: (lambda m: (m.counter, m.time))(o.match(code, t, window=30))
        raise KeyError(op)

    def post(self, st):
        return tuple((k, st[k].generate(59).token) for k in sorted(st))


class ScramThreads(Harness):
    """after initialisation, concurrent hash() / verify() calls on the shared scram hasher with DIFFERENT passwords are
    independent: saslprep() and every function / method of the scram handler module are instrumented, so scratch
    state kept between two calls (a module-level table one call edits while another reads it) gets a schedule point"""

    name = "scram_threads"
    PWS = {"ltr": "pä", "rtl": "\u05d0\u05d1", "ascii": "pl"}

    def __init__(self, ops):
        self.ops = ops

    def codes(self):
        import types

        import passlib.handlers.scram as S
        import passlib.utils as U

        cs = [U.saslprep]
        cs += [v for v in vars(S).values() if isinstance(v, types.FunctionType) and v.__module__ == S.__name__]
        for v in vars(S.scram).values():
            f = getattr(v, "__func__", v)
            if isinstance(f, types.FunctionType):
                cs.append(f)
        return cs

    def fresh(self):
        from passlib.hash import scram

        H = scram.using(rounds=1, salt=b"saltsalt", algs="sha-1")
        known = {k: H.hash(p) for k, p in self.PWS.items()}  # (initialised: tables built, digests looked up)
        return {"H": H, "known": known}

    def body(self, st, op):
        kind, which = op.split(":")
        H, pw = st["H"], self.PWS[which]
        if kind == "hash":
            return lambda: H.hash(pw)
        if kind == "verify":
            h = st["known"][which]
            return lambda: H.verify(pw, h)
        if kind == "prep":
            from passlib.utils import saslprep

            return lambda: saslprep(pw)
        raise KeyError(op)

    def post(self, st):
        return tuple(sorted((k, st["H"].hash(p)) for k, p in self.PWS.items()))


class ContextRecords(Harness):
    name = "context_records"

    def __init__(self, ops):
        self.ops = ops

    def codes(self):
        from passlib.context import CryptContext, _CryptConfig
        from passlib.utils.decor import memoized_property

        import types

        cs = [_CryptConfig.get_record, _CryptConfig._get_record_list, _CryptConfig.identify_record,
              vars(_CryptConfig)["disabled_record"].__func__, memoized_property.__get__,
              CryptContext._get_or_identify_record, CryptContext.dummy_verify, CryptContext.verify]
        # whatever the dummy-verify machinery consists of (methods, memoized / plain properties): by name
        for k, v in vars(CryptContext).items():
            if "dummy" in k:
                for f in (v, getattr(v, "__func__", None), getattr(v, "fget", None)):
                    if isinstance(f, types.FunctionType) and f not in cs:
                        cs.append(f)
        return cs

    def fresh(self):
        from passlib.context import CryptContext

        ctx = CryptContext(schemes=["sha256_crypt", "md5_crypt", "unix_disabled"], deprecated=["md5_crypt"],
                           sha256_crypt__rounds=1000, admin__sha256_crypt__min_rounds=2000,
                           admin__sha256_crypt__max_rounds=3000, admin__sha256_crypt__default_rounds=2000)
        return {"ctx": ctx}

    def body(self, st, op):
        ctx = st["ctx"]
        K = _known()
        if op == "verify_admin":
            return lambda: ctx.verify(PW, K["sha256_crypt"], category="admin")
        if op == "needs_update_admin":
            return lambda: ctx.needs_update(K["sha256_crypt"], category="admin")
        if op == "identify":
            return lambda: ctx.identify(K["md5_crypt"])
        if op == "hash_admin":
            return lambda: _hash_obs(ctx, ctx.hash(PW, category="admin"))[:2] + (True,)
        if op == "verify_none":
            return lambda: ctx.verify(PW, None)
        if op == "vau_none":
            return lambda: ctx.verify_and_update(PW, None)
        if op == "dummy":
            return lambda: ctx.dummy_verify()
        if op == "disable":
            return lambda: ctx.is_enabled(ctx.disable(K["md5_crypt"]))
        raise KeyError(op)

    def post(self, st):
        ctx = st["ctx"]
        K = _known()
        return (ctx.needs_update(K["sha256_crypt"], category="admin"), ctx.needs_update(K["sha256_crypt"]),
                ctx.identify(K["md5_crypt"]), ctx.verify(PW, None), ctx.verify_and_update(PW, None))


class PostInit(Harness):
    """after initialisation: concurrent hash and verify on shared hasher + context are independent"""

    name = "post_init"

    def __init__(self, ops):
        self.ops = ops

    def codes(self):
        import passlib.utils.handlers as uh
        from passlib.context import CryptContext, _CryptConfig

        import types

        import passlib.hash as PH

        cs = [uh.GenericHandler.hash, uh.GenericHandler.verify, uh.GenericHandler.__init__, uh.HasSalt.__init__,
              uh.HasRounds.__init__, uh.HasManyBackends._calc_checksum, CryptContext.hash, CryptContext.verify,
              _CryptConfig.get_record, _CryptConfig.identify_record, uh.GenericHandler.identify,
              uh.MinimalHandler.using, uh.HasSalt.using, uh.HasRounds.using]
        if any(op.startswith("static:") for op in self.ops):
            # hashers without settings (the whole state of a call is the password): every method of the generic bases
            # and of the hasher itself, so that an object shared between two calls gets a schedule point in between
            owners = [uh.GenericHandler, uh.StaticHandler] + [getattr(PH, op.split(":")[1]) for op in self.ops if op.startswith("static:")]
            for cls in owners:
                for klass in (cls.__mro__ if cls not in (uh.GenericHandler, uh.StaticHandler) else (cls,)):
                    if klass.__module__.startswith("passlib"):
                        for v in vars(klass).values():
                            f = getattr(v, "__func__", v)
                            if isinstance(f, types.FunctionType) and f not in cs:
                                cs.append(f)
        return cs

    def fresh(self):
        from passlib.context import CryptContext
        from passlib.hash import md5_crypt

        ctx = CryptContext(schemes=["md5_crypt", "sha256_crypt"], sha256_crypt__rounds=1000)
        ctx.hash(PW)
        md5_crypt.hash(PW)
        return {"ctx": ctx, "H": md5_crypt}

    def body(self, st, op):
        ctx, H = st["ctx"], st["H"]
        K = _known()
        if op == "hash":
            return lambda: _hash_obs(H, H.hash(PW))
        if op == "verify":
            return lambda: H.verify(PW, K["md5_crypt"])
        if op == "verify_bad":
            return lambda: H.verify("other", K["md5_crypt"])
        if op == "ctx_hash":
            return lambda: _hash_obs(ctx, ctx.hash(PW))
        if op == "ctx_verify":
            return lambda: ctx.verify(PW, K["sha256_crypt"])
        if op == "using_hash":
            return lambda: _hash_obs(H, H.using(salt_size=4).hash(PW))
        if op.startswith("static:"):
            import passlib.hash as PH

            _k, hname, pw = op.split(":")
            S = getattr(PH, hname)
            return lambda: S.hash("password-of-" + pw)  # (no salt: the hash itself is the observation)
        raise KeyError(op)

    def post(self, st):
        return (st["H"].verify(PW, _known()["md5_crypt"]), st["ctx"].verify(PW, _known()["sha256_crypt"]))


class LazyWrapper(Harness):
    """a lazily resolved PrefixWrapper (the kind passlib.handlers.ldap_digests creates for ldap_*_crypt): the wrapped
    hasher and the derived ident / ident_values are worked out on first access"""

    name = "lazy_wrapper"

    def __init__(self, ops):
        self.ops = ops

    def codes(self):
        import passlib.utils.handlers as uh

        W = uh.PrefixWrapper
        cs = [W._get_wrapped, W._wrap_hash, W._unwrap_hash, W.identify, W.hash, W.verify]
        for n in ("ident", "ident_values", "wrapped"):
            p = vars(W).get(n)
            if isinstance(p, property) and p.fget is not None:
                cs.append(p.fget)
        return cs

    def fresh(self):
        import passlib.utils.handlers as uh

        return {"W": uh.PrefixWrapper("c19_lazy_md5", "md5_crypt", "{X}", lazy=True)}

    def body(self, st, op):
        W = st["W"]
        K = _known()
        if op == "ident":
            return lambda: W.ident
        if op == "ident_values":
            return lambda: W.ident_values
        if op == "identify":
            return lambda: W.identify("{X}" + K["md5_crypt"])
        if op == "verify":
            return lambda: W.verify(PW, "{X}" + K["md5_crypt"])
        raise KeyError(op)

    def post(self, st):
        W = st["W"]
        return (W.ident, W.ident_values, W.wrapped.name)


class LazyTables(Harness):
    """lazily built module-level tables, first use from two threads: the DES permutation tables
    (passlib.crypto.des._load_tables, checked through ONE of the four globals) and the digest-info cache of
    passlib.crypto.digest.lookup_hash.  Only the initialisation code is instrumented: a thread can be preempted
    inside it, the other thread's use of the tables runs atomically."""

    name = "lazy_tables"

    def __init__(self, ops):
        self.ops = ops

    def codes(self):
        import passlib.crypto.des as D
        import passlib.crypto.digest as G

        import passlib.crypto._blowfish.base as BB

        return [D._load_tables, G.lookup_hash, BB._init_constants]

    def fresh(self):
        import passlib.crypto._blowfish.base as BB
        import passlib.crypto.des as D
        import passlib.crypto.digest as G

        D.PCXROT = D.IE3264 = D.SPE = D.CF6464 = None
        G._hash_info_cache.clear()
        BB.BLOWFISH_P = BB.BLOWFISH_S = None
        return {}

    def body(self, st, op):
        kind, _, arg = op.partition(":")
        if kind == "desint":
            from passlib.crypto.des import des_encrypt_int_block

            key = int.from_bytes((arg.encode() * 8)[:8], "big")
            return lambda: des_encrypt_int_block(key, 0x0123456789ABCDEF, salt=0x00A5F1, rounds=1)
        if kind == "desblock":
            from passlib.crypto.des import des_encrypt_block

            return lambda: des_encrypt_block((arg.encode() * 7)[:7], b"KGS!@#$%").hex()
        if kind == "blowfish":
            from passlib.crypto._blowfish.base import BlowfishEngine

            def f():
                e = BlowfishEngine()  # copies the lazily built constant tables
                return (len(e.P), len(e.S), e.P[0], e.S[3][255])

            return f
        if kind == "lookup":
            from passlib.crypto.digest import lookup_hash

            return lambda: (lookup_hash(arg).name, lookup_hash(arg).digest_size)
        if kind == "hmac":
            from passlib.crypto.digest import compile_hmac

            return lambda: compile_hmac(arg, b"key")(b"msg").hex()
        raise KeyError(op)

    def post(self, st):
        from passlib.crypto.des import des_encrypt_int_block
        from passlib.crypto.digest import lookup_hash

        # (object identity of the cached records is not an observable result: names and sizes are)
        return (des_encrypt_int_block(0x0101010101010101, 0), lookup_hash("sha256").name, lookup_hash("sha-256").name,
                lookup_hash("sha-256").digest_size, lookup_hash("sha256").iana_name)


class PurePython(Harness):
    """after initialisation: two threads hashing DIFFERENT passwords through the pure-python primitives
    (built-in MD4, DES, scrypt, salsa) must not disturb each other (no shared scratch state)"""

    name = "pure_python"

    def __init__(self, ops):
        self.ops = ops

    def codes(self):
        import passlib.crypto._md4 as M
        import passlib.crypto.des as D
        import passlib.crypto.scrypt._builtin as SB
        import passlib.crypto.scrypt._salsa as SS

        return [M, D, SB, SS]

    def fresh(self):
        return {}

    def body(self, st, op):
        kind, _, pw = op.partition(":")
        if kind == "md4":
            from passlib.crypto._md4 import md4

            return lambda: md4(pw.encode() * 9).hexdigest()
        if kind == "md4split":
            from passlib.crypto._md4 import md4

            def f():
                h = md4(pw.encode() * 3)
                h.update(pw.encode() * 25)
                g = h.copy()
                g.update(b"tail")
                return h.hexdigest() + g.hexdigest()

            return f
        if kind == "des":
            from passlib.crypto.des import des_encrypt_int_block

            key = int.from_bytes((pw.encode() * 8)[:8], "big")
            return lambda: des_encrypt_int_block(key, 0x0123456789ABCDEF, salt=0x00A5F1, rounds=2)
        if kind == "desblock":
            from passlib.crypto.des import des_encrypt_block

            return lambda: des_encrypt_block((pw.encode() * 7)[:7], b"KGS!@#$%").hex()
        if kind == "scrypt":
            from passlib.crypto.scrypt._builtin import ScryptEngine

            return lambda: ScryptEngine.execute(pw.encode(), b"salt" + pw.encode(), 2, 1, 1, 16).hex()
        if kind == "scrypt2":
            from passlib.crypto.scrypt._builtin import ScryptEngine

            return lambda: ScryptEngine.execute(pw.encode(), b"NaCl", 2, 2, 1, 24).hex()
        raise KeyError(op)

    def post(self, st):
        from passlib.crypto._md4 import md4
        from passlib.crypto.des import des_encrypt_int_block

        return (md4(b"abc").hexdigest(), des_encrypt_int_block(0x0101010101010101, 0))


def make_harness(spec):
    kind, ops = spec["harness"], tuple(spec["ops"])
    if kind == "lazy_context":
        return LazyContext(False, ops)
    if kind == "lazy_context_onload":
        return LazyContext(True, ops)
    if kind == "lazy_two_contexts":
        return LazyTwo(ops)
    if kind == "lazy_b64":
        return LazyB64(ops)
    if kind.startswith("backend_"):
        return Backend(kind[len("backend_"):], ops)
    if kind == "registry":
        return Registry(ops)
    if kind == "registry_import":
        return RegistryImport(ops)
    if kind == "registry_import_direct":
        return RegistryImportDirect(ops)
    if kind == "registry_same_name":
        return RegistrySameName(ops)
    if kind == "totp_threads":
        return TotpThreads(ops)
    if kind == "scram_threads":
        return ScramThreads(ops)
    if kind == "context_records":
        return ContextRecords(ops)
    if kind == "post_init":
        return PostInit(ops)
    if kind == "pure_python":
        return PurePython(ops)
    if kind == "lazy_tables":
        return LazyTables(ops)
    if kind == "lazy_wrapper":
        return LazyWrapper(ops)
    raise core.HarnessError(f"unknown harness {kind}")


# ---------------------------------------------------------------------------
# running
# ---------------------------------------------------------------------------
_CUR = {}


def get_sched(h, level):
    key = (h.name, level)
    if _CUR.get("key") != key:
        if _CUR.get("sched") is not None:
            _CUR["sched"].uninstall()
            for mod, attr, val in _CUR.get("undo", []):
                setattr(mod, attr, val)
        _known()
        s = sched.Scheduler(h.codes(), level)
        s.install()
        _CUR.update(key=key, sched=s, undo=h.locks(s))
    return _CUR["sched"]


def canonical_state():
    """global library state every task starts from, whatever ran before in this worker process:
    every multi-backend hasher used by the harnesses has its default backend loaded (a Backend harness resets
    only its own hasher, per execution), the registry entry used by the Registry harness is present"""
    import passlib.hash as PH
    import passlib.registry as R
    from passlib.handlers import fshp as F

    for n in ("md5_crypt", "sha256_crypt", "sha512_crypt", "sha1_crypt", "des_crypt", "bsdi_crypt", "bcrypt", "bcrypt_sha256"):
        H = getattr(PH, n)
        try:
            H.get_backend()
        except Exception:  # noqa: BLE001
            reset_backend(H)
            H.get_backend()
    R._handlers.setdefault("fshp", F.fshp)


def sequential(h):
    """allowed observations: per thread, over every sequential order; allowed post states"""
    allowed = [set() for _ in h.ops]
    posts = set()
    for perm in itertools.permutations(range(len(h.ops))):
        st = h.fresh()
        bodies = [h.body(st, op) for op in h.ops]
        for i in perm:
            try:
                r = ("ok", bodies[i]())
            except Exception as e:  # noqa: BLE001
                r = ("exc", e)
            allowed[i].add(obs(r))
        try:
            posts.add(("ok", h.post(st)))
        except Exception as e:  # noqa: BLE001
            posts.add(obs(("exc", e)))
    return allowed, posts


def judge(h, x, st, allowed, posts):
    """-> list of (key, desc) for one finished execution"""
    out = []
    if x.deadlock:
        out.append((f"C19|{h.name}|{'+'.join(h.ops)}|deadlock", f"deadlock: {x.deadlock}"))
        return out
    for i, r in enumerate(x.results):
        o = obs(r)
        if o not in allowed[i]:
            what = ":".join(str(p) for p in o[:3]) if o[0] == "exc" else f"wrong_result"
            out.append((f"C19|{h.name}|{'+'.join(h.ops)}|t{i}.{h.ops[i]}:{what}",
                        f"thread {i} ({h.ops[i]}) observed {o!r}; sequential orders give {sorted(allowed[i], key=repr)!r}"))
    try:
        p = ("ok", h.post(st))
    except Exception as e:  # noqa: BLE001
        p = obs(("exc", e))
    if p not in posts:
        what = ":".join(str(q) for q in p[:3]) if p[0] == "exc" else "wrong_state"
        out.append((f"C19|{h.name}|{'+'.join(h.ops)}|post:{what}",
                    f"follow-up after the threads finished observed {p!r}; sequential use gives {sorted(posts, key=repr)!r}"))
    return out


def run_one(h, s, choices, allowed, posts, expect=None):
    st = h.fresh()
    bodies = [h.body(st, op) for op in h.ops]
    x = s.run(bodies, choices, expect)
    return x, judge(h, x, st, allowed, posts)


def work(task):
    """explore one subtree (prefix) of one harness"""
    acc = Acc()
    h = make_harness(task)
    level = task["level"]
    s = get_sched(h, level)
    canonical_state()
    allowed, posts = sequential(h)
    bound = task["bound"]
    spec = {"harness": h.name, "ops": list(h.ops), "level": level}

    holder = {}

    def make():
        st = h.fresh()
        holder["st"] = st
        return [h.body(st, op) for op in h.ops], st

    def check(x, st):
        acc.ev()
        switches = sum(1 for (_r, _w, _n, _re, c) in x.points if c)
        if switches:
            # the class of an execution is its choice vector; stored as the positions of the non-default choices
            acc.cls(h.name, "+".join(h.ops), level, ",".join(f"{i}:{c}" for i, c in enumerate(x.choices) if c))
        acc.outcome((h.name,) + tuple(obs(r) for r in x.results))
        acc.count("schedule_points", len(x.points))
        acc.count(f"preemptions={x.preemptions}")
        for key, desc in judge(h, x, st, allowed, posts):
            acc.violation(key, desc + f" [preemptions={x.preemptions}]", dict(spec, choices=list(x.choices), preemptions=x.preemptions))
        if acc.evaluations <= 1:
            acc.sample(dict(spec, choices=list(x.choices), results=[repr(obs(r)) for r in x.results]))

    stats = {"executions": 0, "points": 0, "by_preemptions": {}, "capped": False}
    if task.get("root"):
        subs, x = sched.first_level(s, make, bound, check, stats)
        acc.notes.append({"subtrees": subs})
    else:
        zeros, alt = task["subtree"]
        prefix = [0] * zeros + [alt]
        try:
            sched.explore(s, make, bound, check, prefix=prefix, expect=None, stats=stats, max_exec=task.get("max_exec"))
        except core.HarnessError as e:
            raise core.HarnessError(f"{h.name} {h.ops} level={level} bound={bound} subtree={task['subtree']}: {e}") from e
        if stats["capped"]:
            acc.count("capped_subtrees")
        if stats.get("divergence_retries"):
            acc.count("replay_divergence_retries", stats["divergence_retries"])
    acc.axis("harness", h.name)
    acc.axis("ops", "+".join(h.ops))
    acc.axis("level", level)
    return acc


def _fix_expect(expect):
    if expect is None:
        return None
    out = []
    for running, where, n in expect:
        where = tuple(where) if isinstance(where, (list, tuple)) else where
        out.append((running, where, n))
    return out


def harness_specs(quick):
    specs = []

    def add(harness, ops, bound, level="line"):
        specs.append({"harness": harness, "ops": list(ops), "bound": bound, "level": level})

    b2 = 2
    add("lazy_context", ("verify", "identify"), b2)
    add("lazy_context", ("hash", "verify"), b2)
    add("lazy_context_onload", ("verify", "needs_update"), b2)
    add("lazy_two_contexts", ("first_use_a", "gate_first_use_b"), b2)
    add("lazy_b64", ("encode", "decode"), b2)
    add("lazy_b64", ("encode", "decode"), 1 if quick else 2, "instruction")
    add("registry", ("get", "attr"), b2)
    add("registry", ("list", "get"), b2)
    add("registry", ("list", "attr"), 1, "instruction")
    add("registry", ("list_loaded", "get"), b2)
    add("registry", ("dir", "attr"), b2)
    add("registry_import", ("get:ldap_hex_md5", "get:ldap_hex_sha1"), b2)
    add("registry_import", ("attr:roundup_plaintext", "get:roundup_plaintext"), b2)
    add("registry_same_name", ("get:ldap_sha256_crypt", "get:ldap_sha256_crypt"), b2)
    add("registry_same_name", ("attr:ldap_des_crypt", "get:ldap_des_crypt"), b2)
    add("registry_same_name", ("get:ldap_salted_sha1", "attr:ldap_salted_sha1"), b2)
    add("registry_same_name", ("get:django_bcrypt", "get:django_bcrypt"), 1)
    add("totp_threads", ("gen:a:59", "gen:b:1111111109"), 1)
    add("totp_threads", ("gen:a:1234567890", "match:b:2000000000"), 1)
    add("scram_threads", ("prep:rtl", "prep:ltr"), 1 if quick else 2)
    add("scram_threads", ("hash:rtl", "verify:ltr"), 1)
    if not quick:
        add("scram_threads", ("verify:ascii", "hash:rtl"), 1)
    add("registry_import_direct", ("import", "get:django_salted_sha1"), 1)
    add("registry_import_direct", ("import", "attr:django_pbkdf2_sha256"), 1)
    add("context_records", ("verify_admin", "needs_update_admin"), b2)
    add("context_records", ("identify", "verify_none"), b2)
    add("context_records", ("hash_admin", "disable"), 1 if quick else 2)
    add("context_records", ("verify_none", "verify_none"), b2)  # two first uses of the dummy-verify path
    add("context_records", ("verify_none", "vau_none"), 1 if quick else 2)
    add("context_records", ("dummy", "verify_none"), 1 if quick else 2)
    add("post_init", ("hash", "verify"), 1 if quick else 2)
    add("post_init", ("ctx_hash", "ctx_verify"), 1 if quick else 2)
    add("post_init", ("using_hash", "verify_bad"), 1 if quick else 2)
    add("post_init", ("static:nthash:alice", "static:nthash:bob"), 1 if quick else 2)
    add("post_init", ("static:mysql41:alice", "static:mysql41:bob"), 1)
    add("post_init", ("static:hex_sha1:alice", "static:ldap_md5:bob"), 1)
    for hn in ("md5_crypt", "sha256_crypt"):
        add(f"backend_{hn}", ("hash", "verify"), b2)
        add(f"backend_{hn}", ("verify", "has_backend"), b2)
    add("backend_bcrypt", ("hash", "verify"), 1)
    add("backend_md5_crypt", ("set_builtin", "get_backend"), b2)
    add("backend_sha256_crypt", ("set_builtin", "hash"), b2)
    add("lazy_wrapper", ("ident", "ident_values"), b2)
    add("lazy_wrapper", ("ident", "ident"), b2)
    add("lazy_wrapper", ("identify", "ident_values"), b2)
    add("lazy_tables", ("desint:a", "desblock:b"), b2)
    add("lazy_tables", ("blowfish:a", "blowfish:b"), b2)
    add("lazy_tables", ("lookup:sha256", "lookup:sha256"), b2)
    add("lazy_tables", ("lookup:sha512_256", "hmac:sha512_256"), b2)  # a digest hashlib offers only through hashlib.new()
    add("lazy_tables", ("lookup:sha-256", "hmac:sha256"), b2)
    add("pure_python", ("md4:a", "md4:b"), 1)
    add("pure_python", ("md4split:a", "md4split:bb"), 1)
    add("pure_python", ("scrypt:a", "scrypt:b"), 1)
    add("pure_python", ("desblock:a", "desblock:b"), 1)
    if not quick:
        add("pure_python", ("des:a", "des:b"), 1)
        add("pure_python", ("scrypt2:a", "scrypt2:b"), 1)
        add("pure_python", ("md4:a", "md4:b"), 2)
        add("pure_python", ("scrypt:a", "md4:b", "desblock:c"), 1)
    if not quick:
        add("lazy_context", ("hash", "verify", "identify"), 2)
        add("lazy_context_onload", ("hash", "verify", "identify"), 2)
        add("lazy_context", ("verify", "identify"), 1, "instruction")
        add("lazy_b64", ("encode", "decode", "int"), 2)
        add("registry", ("get", "attr", "get_default"), 2)
        add("registry_import", ("get:ldap_hex_md5", "attr:ldap_hex_sha1", "get_default:roundup_plaintext"), 2)
        add("context_records", ("verify_admin", "needs_update_admin", "identify"), 2)
        for hn in ("md5_crypt", "sha256_crypt", "sha1_crypt", "des_crypt"):
            add(f"backend_{hn}", ("hash", "verify", "has_backend"), 2)
            add(f"backend_{hn}", ("get_backend", "verify"), 2)
        add("backend_bcrypt", ("verify", "has_backend"), 1)
        add("backend_bcrypt", ("hash", "verify"), 2)
    return specs


def run(ctx):
    import os

    specs = harness_specs(ctx.quick)
    only = os.environ.get("VERIF_C19_ONLY")
    if only:
        specs = [s for s in specs if any(o in f"{s['harness']}:{'+'.join(s['ops'])}" for o in only.split(","))]
        ctx.cap(f"debug filter VERIF_C19_ONLY={only}")
    # phase 1: root execution of each harness -> subtrees
    roots = core.pmap(work, [dict(s, root=True) for s in specs], fresh=True)
    ctx.merge(roots, part="roots")
    subtrees = [n["subtrees"] for n in roots.notes if isinstance(n, dict) and "subtrees" in n]
    tasks = []
    for spec, subs in zip(specs, subtrees):
        for sub in subs:
            tasks.append(dict(spec, subtree=tuple(sub)))
    ctx.acc.notes = []
    ctx.log(f"{len(specs)} harnesses, {len(tasks)} first-level subtrees")
    # (fresh processes: a subtree is named by a position in its root's execution, which was recorded in another process)
    acc = core.pmap(work, tasks, fresh=True)
    ctx.merge(acc, part="subtrees")
    total = ctx.acc.evaluations
    ctx.cov["states"] = total  # every complete execution is one explored path (stateless search)
    ctx.cov["transitions"] = int(ctx.acc.counters.get("schedule_points", 0))
    ctx.cov["traces_validated_against_impl"] = total
    ctx.cov["schedules"] = total
    ctx.cov["harnesses"] = [f"{s['harness']}:{'+'.join(s['ops'])}@{s['level']}<=p{s['bound']}" for s in specs]
    ctx.cov["explanation"] = (
        "stateless exploration of the real implementation: 'states' = complete executions (schedules) run, "
        "'transitions' = multi-option schedule points crossed; every schedule is executed on the real code"
    )
    ctx.assume("code outside the instrumented functions is atomic w.r.t. the lazily built shared state (one baton)")
    ctx.assume("memory-order effects below the interpreter and free-running OS scheduling are out of scope of a cooperative scheduler")
    if ctx.acc.counters.get("capped_subtrees"):
        ctx.cap(f"{ctx.acc.counters['capped_subtrees']} subtrees capped")


def replay(case):
    h = make_harness(case)
    s = get_sched(h, case["level"])
    canonical_state()
    allowed, posts = sequential(h)
    x1, v1 = run_one(h, s, case["choices"], allowed, posts)
    x2, v2 = run_one(h, s, case["choices"], allowed, posts)
    if [obs(r) for r in x1.results] != [obs(r) for r in x2.results] or x1.sig != x2.sig:
        raise core.HarnessError(f"schedule replay is not deterministic: {x1.results} vs {x2.results}")
    return v1
