"""C18 -- a disabled account can never log in and can be restored intact.

Engine E2 (mc.explore): breadth-first over histories of disable / enable / is_enabled / verify calls made through
a real CryptContext on ONE stored password-field value, next to the reference model of DESIGN Appendix A.5.

  state   = the stored string (or None) + the model triple (kind, embedded original, strong?) (+ number of
            missing-hash verifications made so far, capped at 2: the first one builds the memoised dummy hash)
  events  = reload of the policy at run time (load(dict) / load(other context) / update(): the two real schemes swap
            places, so the default scheme may change; at most once per history),
            disable(stored) and disable() under each scripted random answer, enable(stored), is_enabled(stored),
            verify(p, stored) for p in {"", "x", the stored text itself, the context's marker},
            verify_and_update("x", stored)
  roots   = context (disabled hasher at every list position among two real schemes, custom markers, a scheme whose
            hashes start with a marker character listed before the disabled hasher, a catch-all listed after it,
            both disabled hashers together)  x  initial value (one hash of every usable registered scheme, None, "",
            bare markers, already disabled strings, marker-led hashes, plaintext values containing markers)

Reference model (A.5).  `classify` is the context's first-match rule over the documented prefixes:
unix_disabled claims "" and anything starting with "!" or "*" (embedded original = text after the marker);
django_disabled claims anything starting with "!" (never embeds).  disable(x) is made by the first disabled hasher
of the list: the result is disabled; it embeds x when that hasher is unix_disabled and x is a string the context does
not regard as disabled; re-disabling only has to STAY disabled (whether the embedded original survives is not
demanded: enable may then return it or raise ValueError, nothing else).  enable(disabled with original) returns it
exactly, enable(disabled without) raises ValueError, enable(normal) returns it unchanged.  verify(p, disabled) is
False for every p.  verify(p, None) is False and runs the default scheme's verify exactly once.
"""
from __future__ import annotations

import re
import warnings

from mc import core, env, explore
from mc import hashers as HS
from mc.core import Acc

warnings.filterwarnings("ignore")

ID = "C18"
LEVEL = "model_checking"
RULE = (
    "explicit-state BFS (depth 4 quick / 5 thorough) per root = context layout x initial stored value; every "
    "transition is executed on a fresh real CryptContext by replaying the history; a state is distinct by "
    "(stored string, model triple, dummy-verification count class); a transition is non-trivial when the real "
    "context method was called; distinct class = context|initial-value label|event|model class of the state it "
    "was applied to"
)

PW = "pw-C18"
MARKERS = "!*"
DISABLED = ("unix_disabled", "django_disabled")
PASSWORDS = ("empty", "x", "hash_text", "marker")


# ---------------------------------------------------------------------------
# contexts
# ---------------------------------------------------------------------------
def context_specs():
    out = []
    real = ["sha256_crypt", "md5_crypt"]
    for d in DISABLED:
        for pos in range(3):
            schemes = real[:pos] + [d] + real[pos:]
            out.append({"name": f"{d}@{pos}", "schemes": schemes, "marker": None})
    out.append({"name": "unix_disabled:marker=star", "schemes": real + ["unix_disabled"], "marker": "*"})
    out.append({"name": "unix_disabled:marker=bang", "schemes": real + ["unix_disabled"], "marker": "!"})
    out.append({"name": "unix_disabled:marker=multichar", "schemes": real + ["unix_disabled"], "marker": "*LK*"})
    # a real scheme whose hashes start with a marker character, listed before / after the disabled hasher
    out.append({"name": "mysql41+unix_disabled", "schemes": ["mysql41", "sha256_crypt", "unix_disabled"], "marker": None})
    out.append({"name": "unix_disabled+mysql41", "schemes": ["unix_disabled", "mysql41", "sha256_crypt"], "marker": None})
    # ... and the disabled hasher's own marker IS that character
    out.append({"name": "mysql41+unix_disabled:marker=star", "schemes": ["mysql41", "sha256_crypt", "unix_disabled"], "marker": "*"})
    out.append({"name": "mysql41+django_disabled", "schemes": ["mysql41", "django_disabled"], "marker": None})
    # catch-all after the disabled hasher
    out.append({"name": "unix_disabled+plaintext", "schemes": ["sha256_crypt", "unix_disabled", "plaintext"], "marker": None})
    out.append({"name": "django_disabled+plaintext", "schemes": ["sha256_crypt", "django_disabled", "plaintext"], "marker": None})
    # both disabled hashers
    out.append({"name": "unix+django", "schemes": ["sha256_crypt", "unix_disabled", "django_disabled"], "marker": None})
    out.append({"name": "django+unix", "schemes": ["sha256_crypt", "django_disabled", "unix_disabled"], "marker": None})
    # deprecation policies that cover the disabled hasher itself (deprecated='auto' marks every scheme but the default --
    # the shipped django contexts do; an explicit list may name it): disabling is not "hashing with a deprecated scheme"
    for d in DISABLED:
        out.append({"name": f"{d}:deprecated=auto", "schemes": real + [d], "marker": None, "ctxkw": {"deprecated": "auto"}})
        out.append({"name": f"{d}:deprecated=itself", "schemes": real + [d], "marker": None, "ctxkw": {"deprecated": [d, "md5_crypt"]}})
        out.append({"name": f"{d}:deprecated=auto_by_update", "schemes": real + [d], "marker": None, "ctxkw": {"deprecated": "auto"}, "late": True})
    # a scheme that needs a context keyword (user=) next to the disabled hasher: the login code cannot know whether the
    # stored value is a hash or a marker, so it passes user= on EVERY call; built directly and derived (copy / update /
    # load) from a configuration that had no such scheme
    for d in DISABLED:
        for derive in (None, "copy", "update", "load"):
            out.append({"name": f"{d}+postgres_md5" + (f":derived_by_{derive}" if derive else ""), "schemes": ["sha256_crypt", "postgres_md5", d],
                        "marker": None, "kw": {"user": "joe"}, "derive": derive})
    return out


def claimer(spec, s):
    """the disabled hasher that claims s under the context's first-match rule (None: not claimed by one)"""
    if s is None:
        return None
    for scheme in spec["schemes"]:
        if scheme == "unix_disabled":
            if s == "" or s[0] in MARKERS:
                return scheme
        elif scheme == "django_disabled":
            if s.startswith("!"):
                return scheme
        elif _PREFIX[scheme].match(s):
            return None
    return None


def component(spec, s, disabling=False):
    """coarse component for violation keys: the disabled hasher in charge of s (+ 'multichar_marker' when s carries one)"""
    d = (None if disabling else claimer(spec, s)) or first_disabled(spec)
    m = spec.get("marker")
    if d == "unix_disabled" and m and len(m) > 1 and s is not None and s.startswith(m):
        return "unix_disabled:multichar_marker"
    return d


def make_context(spec):
    from passlib.context import CryptContext

    kw = {}
    if "sha256_crypt" in spec["schemes"]:
        kw["sha256_crypt__rounds"] = 1000
    if spec.get("marker") is not None:
        kw["unix_disabled__marker"] = spec["marker"]
    derive = spec.get("derive")
    if derive:
        # first a configuration without the keyword-taking scheme, then the real one on top
        base = CryptContext(schemes=[x for x in spec["schemes"] if x != "postgres_md5"], **kw)
        if derive == "copy":
            return base.copy(schemes=list(spec["schemes"]))
        if derive == "update":
            base.update(schemes=list(spec["schemes"]))
            return base
        base.load(dict(kw, schemes=list(spec["schemes"])))
        return base
    if spec.get("late"):
        c = CryptContext(schemes=list(spec["schemes"]), **kw)
        c.update(**spec["ctxkw"])
        return c
    return CryptContext(schemes=list(spec["schemes"]), **kw, **(spec.get("ctxkw") or {}))


def first_disabled(spec):
    for s in spec["schemes"]:
        if s in DISABLED:
            return s
    raise core.HarnessError("context without a disabled hasher")


def marker_of(spec):
    if first_disabled(spec) == "django_disabled":
        return "!"
    return spec.get("marker") or "!"


# ---------------------------------------------------------------------------
# reference model
# ---------------------------------------------------------------------------
_PREFIX = {
    "sha256_crypt": re.compile(r"^\$5\$"),
    "md5_crypt": re.compile(r"^\$1\$"),
    "mysql41": re.compile(r"^\*[0-9A-Fa-f]{40}$"),
    "postgres_md5": re.compile(r"^md5[0-9a-f]{32}$"),
    "plaintext": re.compile(r"^", re.S),
}


def classify(spec, s):
    """the context's first-match identification of s by documented prefixes -> model triple"""
    if s is None:
        return ("none", None, True)
    for scheme in spec["schemes"]:
        if scheme == "unix_disabled":
            if s == "" or s[0] in MARKERS:
                m = spec.get("marker")
                if m and len(m) > 1 and s.startswith(m):
                    emb = s[len(m):]
                else:
                    emb = s[1:]
                return ("disabled", emb or None, True)
        elif scheme == "django_disabled":
            if s.startswith("!"):
                return ("disabled", None, True)
        elif _PREFIX[scheme].match(s):
            return ("normal", None, True)
    return ("unknown", None, True)


def model_disable(spec, stored, model):
    kind, emb, _strong = model
    unix = first_disabled(spec) == "unix_disabled"
    if kind == "none":
        return ("disabled", None, True)
    if kind == "disabled":
        # only "stays disabled" is demanded; an embedded original may survive or be dropped
        return ("disabled", emb if unix else None, not (unix and emb is not None))
    return ("disabled", stored if unix and stored else None, True)


def state_class(stored, model, for_key=False):
    """class of the value an event is applied to (for_key: without the history-dependent refinements)"""
    kind, emb, strong = model
    if kind == "none":
        return "none"
    if stored == "":
        return "empty_string"
    if kind == "disabled":
        c = "disabled_bare" if emb is None else "disabled_with_original"
        if emb is not None and emb[0] in MARKERS:
            c += "_marker_led"
        if not strong and not for_key:
            c += "_redisabled"
        return c
    if stored[0] in MARKERS:
        return kind + "_marker_led"
    return kind


# ---------------------------------------------------------------------------
# world
# ---------------------------------------------------------------------------
class FillerRng(env.ScriptedRng):
    """answers a fixed function of (seed, request index): filler salts only"""

    def __init__(self, seed):
        super().__init__()
        self.seed = seed

    def _answer(self, kind, size):
        i = len(self.log)
        self.log.append((kind, size))
        return ((self.seed + 1) * 0x9E3779B97F4A7C15 + i * 0xD1B54A32D192ED03) % size


class World:
    def __init__(self, spec, init):
        self.spec = spec
        self.ctx = make_context(spec)
        self.stored = init
        self.model = classify(spec, init)
        self.ndummy = 0
        self.ndummy_pre = None  # missing-hash verifications made before the policy reload (None: no reload yet)
        self.reloads = 0


def _exc(e):
    return type(e).__name__


def _call(f):
    try:
        return ("ok", f())
    except core.HarnessError:
        raise
    except Exception as e:  # noqa: BLE001
        return ("exc", e)


def password(spec, w, pk):
    if pk == "empty":
        return ""
    if pk == "x":
        return "x"
    if pk == "marker":
        return marker_of(spec)
    return w.stored if w.stored is not None else "None"


def counted_none_verify(w, call):
    """run call() (a verification against hash=None) counting the default scheme's verify() and ctx.dummy_verify()"""
    ctx = w.ctx
    H = ctx.handler()
    counts = {"verify": 0, "dummy": 0}
    orig_v = H.__dict__.get("verify", None)
    bound_v = H.verify
    orig_d = ctx.dummy_verify

    def v(*a, **k):
        counts["verify"] += 1
        return bound_v(*a, **k)

    def d(*a, **k):
        counts["dummy"] += 1
        return orig_d(*a, **k)

    H.verify = staticmethod(v)
    ctx.dummy_verify = d
    try:
        with env.scripted_rng(FillerRng(0)):
            res = _call(call)
    finally:
        if orig_v is None:
            del H.verify
        else:
            H.verify = orig_v
        del ctx.dummy_verify
    return res, counts


def check_disabled_observations(w, tag):
    """the invariant of a state whose model says 'disabled'"""
    out = []
    ctx, s = w.ctx, w.stored
    comp = component(w.spec, s)
    sc = state_class(s, w.model, True).replace("_marker_led", "")
    r = _call(lambda: ctx.is_enabled(s))
    if r[0] == "exc":
        out.append((f"C18|{comp}|is_enabled:{sc}:raises:{_exc(r[1])}", f"{tag}: is_enabled({s!r}) raised {r[1]!r}; the value must be recognised as disabled"))
    elif r[1] is not False:
        out.append((f"C18|{comp}|is_enabled:{sc}:not_false", f"{tag}: is_enabled({s!r}) = {r[1]!r}; the value must be recognised as disabled"))
    for pk in PASSWORDS:
        p = password(w.spec, w, pk)
        ckw = w.spec.get("kw") or {}
        r = _call(lambda: ctx.verify(p, s, **ckw))
        if r[0] == "exc":
            out.append((f"C18|{comp}|verify:{sc}:raises:{_exc(r[1])}", f"{tag}: verify({p!r}, {s!r}{', **' + repr(ckw) if ckw else ''}) raised {r[1]!r}, expected False"))
        elif r[1] is not False:
            out.append((f"C18|{comp}|verify:{sc}:{pk}:accepted", f"{tag}: verify({p!r}, {s!r}) = {r[1]!r}: a disabled value verified"))
    return out


def step(w, ev):
    """apply one event to implementation and model; returns violations"""
    out = _step(w, ev)
    if ev[0].endswith("_bytes"):
        # same keys as the text form (the same defect shows in both representations), the description says which
        out = [(k, d + " [the stored value was given as UTF-8 bytes]") for k, d in out]
    return out


def _step(w, ev):
    out = []
    ctx, spec = w.ctx, w.spec
    s, model = w.stored, w.model
    kind, emb, strong = model
    sc = state_class(s, model, True)
    comp = component(spec, s, ev[0] in ("disable", "disable_none"))
    if comp.endswith("multichar_marker"):
        sc = sc.replace("_marker_led", "")
    osc = sc.replace("_marker_led", "")  # observations: whether the original is marker-led does not define the class
    name = ev[0]
    as_bytes = name.endswith("_bytes")
    if as_bytes:
        name = name[: -len("_bytes")]
        sarg = s.encode("utf-8")
    else:
        sarg = s
    if name == "reload":
        # the application re-reads its policy at run time: same schemes, the two real ones swapped (so the default
        # scheme may change); anything the context memoised from the old policy must not survive
        new = swapped_schemes(spec)
        kw = {"schemes": new}
        if "sha256_crypt" in new:
            kw["sha256_crypt__rounds"] = 1000
        if spec.get("marker") is not None:
            kw["unix_disabled__marker"] = spec["marker"]
        how = ev[1]
        if how == "load":
            r = _call(lambda: ctx.load(kw))
        elif how == "load_ctx":
            from passlib.context import CryptContext

            r = _call(lambda: ctx.load(CryptContext(**kw)))
        else:
            r = _call(lambda: ctx.update(schemes=new))
        if r[0] == "exc":
            out.append((f"C18|reload|{how}:raises:{_exc(r[1])}", f"ctx.{how}(schemes={new}) raised {r[1]!r}"))
            return out
        w.spec = dict(spec, schemes=new)
        w.model = classify(w.spec, s)
        # whether a dummy hash was memoised BEFORE the reload is part of the state: verify(None), reload and
        # reload, verify(None) have different futures if the memo wrongly survives the reload
        w.ndummy_pre, w.ndummy = w.ndummy, 0
        w.reloads += 1
        if w.model[0] == "disabled" and s is not None:
            out.extend(check_disabled_observations(w, f"after {how}(schemes={new})"))
        return out
    if name in ("disable", "disable_none"):
        arg = sarg if name == "disable" else None
        src = model if name == "disable" else ("none", None, True)
        srcc = sc if name == "disable" else "none"
        rng = env.ScriptedRng([ev[1]])
        with env.scripted_rng(rng):
            r = _call(lambda: ctx.disable(arg) if name == "disable" else ctx.disable())
        if r[0] == "exc":
            out.append((f"C18|{comp}|disable:{srcc}:raises:{_exc(r[1])}",
                        f"disable({arg!r}) raised {r[1]!r}; a disabled value is required" + (" (the value was already disabled: it must stay disabled)" if src[0] == "disabled" else "")))
            return out
        d = r[1]
        if not isinstance(d, str):
            out.append((f"C18|{comp}|disable:{srcc}:not_a_string", f"disable({arg!r}) returned {d!r}"))
            return out
        if name == "disable" and src[0] == "normal" and d == s:
            # the enabled hash came back as it went in: the account is NOT disabled.  Reported under the class of the
            # SOURCE (a marker-led original is the recorded finding; any other hash is not), and the search goes on
            # from what the implementation really holds -- an enabled hash -- instead of reporting every consequence
            out.append((f"C18|{comp}|disable:{sc}:returned_unchanged",
                        f"disable({arg!r}) returned its argument unchanged: the account is still enabled (is_enabled = {_call(lambda: ctx.is_enabled(d))[1]!r})"))
            return out
        w.stored = d
        w.model = model_disable(spec, s if name == "disable" else None, src)
        out.extend(check_disabled_observations(w, f"after disable({arg!r}) -> {d!r}"))
        return out
    if name == "enable":
        r = _call(lambda: ctx.enable(sarg))
        if as_bytes and r[0] == "ok" and isinstance(r[1], bytes):
            r = ("ok", r[1].decode("utf-8", "replace"))  # either representation of the same text is fine
        if kind == "normal":
            if r[0] == "exc":
                out.append((f"C18|{comp}|enable:{sc}:raises:{_exc(r[1])}", f"enable({s!r}) of a normal hash raised {r[1]!r}; it must be returned unchanged"))
            elif r[1] != s:
                out.append((f"C18|{comp}|enable:{sc}:changed", f"enable({s!r}) of a normal hash returned {r[1]!r}; it must be returned unchanged"))
            return out
        if kind == "unknown":
            if r[0] == "ok" and isinstance(r[1], str):
                w.stored = r[1]
                w.model = classify(spec, r[1])
            return out
        # disabled
        if r[0] == "exc":
            e = r[1]
            if emb is not None and strong:
                out.append((f"C18|{comp}|enable:{sc}:raises:{_exc(e)}", f"enable({s!r}) raised {e!r}; the embedded original {emb!r} must be returned"))
            elif not isinstance(e, ValueError):
                out.append((f"C18|{comp}|enable:{sc}:raises:{_exc(e)}", f"enable({s!r}) raised {e!r}; a ValueError is required when no original is embedded"))
            return out
        got = r[1]
        if emb is None:
            out.append((f"C18|{comp}|enable:{sc}:returned_something", f"enable({s!r}) returned {got!r} although no original hash is embedded; ValueError required"))
        elif got != emb:
            out.append((f"C18|{comp}|enable:{sc}:wrong_original", f"enable({s!r}) returned {got!r}, the embedded original is {emb!r}"))
        if isinstance(got, str):
            w.stored = got
            w.model = classify(spec, got)
        return out
    if name == "is_enabled":
        r = _call(lambda: ctx.is_enabled(sarg))
        if kind == "disabled":
            if r[0] == "exc":
                out.append((f"C18|{comp}|is_enabled:{osc}:raises:{_exc(r[1])}", f"is_enabled({s!r}) raised {r[1]!r}"))
            elif r[1] is not False:
                out.append((f"C18|{comp}|is_enabled:{osc}:not_false", f"is_enabled({s!r}) = {r[1]!r} for a disabled value"))
        return out
    if name in ("verify", "vau"):
        ckw = spec.get("kw") or {}
        pk = ev[1]
        p = password(spec, w, pk)
        if kind == "none":
            if name == "verify":
                res, counts = counted_none_verify(w, lambda: ctx.verify(p, None, **ckw))
                want = False
            else:
                res, counts = counted_none_verify(w, lambda: ctx.verify_and_update(p, None, **ckw))
                want = (False, None)
            first = "first" if w.ndummy == 0 else "later"
            w.ndummy = min(2, w.ndummy + 1)
            api = "verify" if name == "verify" else "verify_and_update"
            if res[0] == "exc":
                out.append((f"C18|{api}(hash=None)|raises:{_exc(res[1])}", f"{api}({p!r}, None) raised {res[1]!r}, expected {want!r}"))
            else:
                if res[1] != want or (name == "verify" and res[1] is not False):
                    out.append((f"C18|{api}(hash=None)|not_false", f"{api}({p!r}, None) = {res[1]!r}, expected {want!r}"))
                if counts["verify"] != 1:
                    n = counts["verify"]
                    out.append((f"C18|{api}(hash=None)|dummy_verifications:{'none' if n == 0 else 'several'}",
                                f"{api}({p!r}, None) ({first} call on this context, default scheme {ctx.default_scheme()}) ran the default scheme's verify() "
                                f"{n} times (dummy_verify() {counts['dummy']} times); exactly one dummy verification is required"))
            return out
        r = _call(lambda: ctx.verify(p, sarg, **ckw) if name == "verify" else ctx.verify_and_update(p, sarg, **ckw))
        if kind == "disabled":
            want = False if name == "verify" else (False, None)
            api = "verify" if name == "verify" else "verify_and_update"
            if r[0] == "exc":
                out.append((f"C18|{comp}|{api}:{osc}:raises:{_exc(r[1])}", f"{api}({p!r}, {s!r}) raised {r[1]!r}, expected {want!r}"))
            elif r[1] != want or (name == "verify" and r[1] is not False):
                out.append((f"C18|{comp}|{api}:{osc}:{pk}:accepted", f"{api}({p!r}, {s!r}) = {r[1]!r}: a disabled value verified"))
        return out
    raise core.HarnessError(f"unknown event {ev!r}")


def swapped_schemes(spec):
    sch = list(spec["schemes"])
    if "sha256_crypt" in sch and "md5_crypt" in sch:
        i, j = sch.index("sha256_crypt"), sch.index("md5_crypt")
        sch[i], sch[j] = sch[j], sch[i]
        return sch
    return None


def events_for(w, rng_answers):
    evs = []
    kind = w.model[0]
    if swapped_schemes(w.spec) and w.reloads < 1:
        for how in ("load", "load_ctx", "update"):
            evs.append(["reload", how])
    if kind != "none":
        for a in rng_answers:
            evs.append(["disable", a])
    for a in rng_answers:
        evs.append(["disable_none", a])
    if kind != "none":
        evs.append(["enable"])
        evs.append(["is_enabled"])
        # the same stored value in its other representation (UTF-8 bytes, as read back from a file / database column)
        evs.append(["disable_bytes", rng_answers[0]])
        evs.append(["enable_bytes"])
        evs.append(["is_enabled_bytes"])
        evs.append(["verify_bytes", "x"])
    for pk in PASSWORDS:
        if kind == "none" and pk == "hash_text":
            continue
        evs.append(["verify", pk])
    evs.append(["vau", "x"])
    return evs


def canon(w):
    return (w.stored, w.model, w.ndummy, w.ndummy_pre, tuple(w.spec["schemes"]))


def invariant(w):
    if w.model[0] == "disabled" and w.stored is not None:
        return check_disabled_observations(w, "state invariant")
    return []


def builder(spec, init):
    def build(history):
        w = World(spec, init)
        for ev in history:
            step(w, ev)
        return w

    return build


def setup_violation(spec):
    """a context over documented schemes / markers must be constructible"""
    try:
        make_context(spec)
    except core.HarnessError:
        raise
    except Exception as e:  # noqa: BLE001
        return [(f"C18|{first_disabled(spec)}|context_setup:raises:{_exc(e)}",
                 f"CryptContext(schemes={spec['schemes']}, marker={spec.get('marker')!r}) raised {e!r}")]
    return []


def eval_none_default(case):
    """verification against a missing hash, for EVERY usable scheme as the context's default (incl. the ones that
    truncate, with truncate_error on, and the ones that need a user / realm): False, and exactly one dummy
    verification by the default scheme"""
    from passlib.context import CryptContext

    name, te = case["scheme"], case["truncate_error"]
    kw = {"schemes": [name, "unix_disabled"]}
    for k, v in HS.min_cost_kw(name).items():
        kw[f"{name}__{k}"] = v
    if te:
        kw["truncate_error"] = True
    key = f"C18|verify(hash=None)|default_scheme:{name}:"
    try:
        ctx = CryptContext(**kw)
    except Exception as e:  # noqa: BLE001
        return [(key + f"context_setup:raises:{_exc(e)}", f"CryptContext(**{kw!r}) raised {e!r}")]
    out = []

    class W:
        pass

    w = W()
    w.ctx = ctx
    for api, call, want in (("verify", lambda: ctx.verify("pw", None), False), ("verify_and_update", lambda: ctx.verify_and_update("pw", None), (False, None)),
                            ("verify", lambda: ctx.verify("", None), False), ("dummy_verify", lambda: ctx.dummy_verify(), False)):
        res, counts = counted_none_verify(w, call)
        if res[0] == "exc":
            out.append((key + f"{api}:raises:{_exc(res[1])}", f"CryptContext(**{kw!r}).{api}(.., None) raised {res[1]!r}, expected {want!r}"))
        elif res[1] != want:
            out.append((key + f"{api}:not_false", f"CryptContext(**{kw!r}).{api}(.., None) = {res[1]!r}, expected {want!r}"))
        elif counts["verify"] != 1:
            out.append((key + f"{api}:dummy_verifications:{'none' if counts['verify'] == 0 else 'several'}",
                        f"CryptContext(**{kw!r}).{api}(.., None) ran the default scheme's verify() {counts['verify']} times"))
    return out


def replay(case):
    if case.get("part") == "none_default":
        return eval_none_default(case)
    spec, init = case["ctx"], case["init"]["value"]
    if setup_violation(spec):
        return setup_violation(spec)
    hist = [list(e) for e in case["history"]]
    vs = explore.replay_history(builder(spec, init), step, invariant, hist)
    seen, out = set(), []
    for k, d in vs:
        if k not in seen:
            seen.add(k)
            out.append((k, d))
    return out


# ---------------------------------------------------------------------------
# initial values
# ---------------------------------------------------------------------------
def initial_values(seed):
    """[(label, value)] -- built once in the parent; the values travel inside the cases"""
    out = [("none", None), ("empty", ""), ("bare_bang", "!"), ("bare_star", "*"), ("double_bang", "!!"), ("double_star", "**"),
           ("bang_star", "!*"), ("solaris_locked", "*LK*"), ("netbsd_locked", "*LOCKED*"), ("junk", "junk"),
           ("plain_with_bang", "pa!ss"), ("plain_leading_bang", "!bang"), ("plain_leading_star", "*star"),
           ("plain_with_star", "x*y"), ("plain_nonascii", "p\u00e4ssw\u00f6rd"), ("disabled_bang:plain_cyrillic", "!\u043f\u0430\u0440\u043e\u043b\u044c"),
           ("disabled_star:plain_nonascii", "*p\u00e4ssw\u00f6rd\u20ac")]
    hashes = {}
    with env.scripted_rng(FillerRng(seed)):
        for name in HS.usable_names():
            if name in DISABLED:
                continue
            H = HS.handler(name)
            kw = HS.min_cost_kw(name)
            ck = HS.ctx_grid(name)[0]
            try:
                h = (H.using(**kw) if kw else H).hash(PW, **ck)
            except Exception as e:  # noqa: BLE001
                raise core.HarnessError(f"cannot make the initial hash of {name}: {e!r}")
            if isinstance(h, bytes):
                h = h.decode("latin-1")
            hashes[name] = h
            out.append((f"hash:{name}", h))
    for name in ("sha256_crypt", "md5_crypt", "mysql41", "des_crypt"):
        for m, ml in (("!", "bang"), ("*", "star")):
            out.append((f"disabled_{ml}:{name}", m + hashes[name]))
    out.append(("disabled_multichar:sha256_crypt", "*LK*" + hashes["sha256_crypt"]))
    out.append(("disabled_twice:md5_crypt", "!!" + hashes["md5_crypt"]))
    # the listed real schemes first: the first violation kept per key then shows an ordinary hash
    first = ("hash:sha256_crypt", "hash:md5_crypt", "hash:mysql41")
    out.sort(key=lambda lv: (lv[0] not in first,))
    return out


# ---------------------------------------------------------------------------
# shard worker
# ---------------------------------------------------------------------------
def work(task):
    acc = Acc()
    if task.get("part") == "none_default":
        for case in task["cases"]:
            acc.ev()
            acc.cls("none_default", case["scheme"], case["truncate_error"])
            vs = eval_none_default(case)
            acc.outcome(("none_default", "viol" if vs else "ok"))
            for key, desc in vs:
                acc.violation(key, desc, case)
        return acc
    spec = task["ctx"]
    depth = task["depth"]
    answers = task["answers"]
    bad = setup_violation(spec)
    if bad:
        acc.ev()
        for key, desc in bad:
            acc.violation(key, desc, {"ctx": spec, "init": {"label": "none", "value": None}, "history": []})
        return acc
    for label, init in task["inits"]:
        if spec.get("marker") == "*" and "mysql41" in spec["schemes"] and isinstance(init, str) \
                and _PREFIX["mysql41"].match("*" + init.lstrip("!*")):
            # 40 hex digits that are NOT a hash of this context: stamped with this context's marker they ARE, to
            # the letter, a mysql41 hash, and mysql41 is listed first -- an ambiguity of the configuration, not a
            # decision the library could take otherwise (the context's own mysql41 hashes stay in: recorded finding)
            if not label.endswith(":mysql41"):
                acc.count("ambiguous_roots_skipped")
                continue
        build = builder(spec, init)
        seen_cls = set()

        def ev_label(ev):
            return ":".join(str(x) for x in ev)

        def stepper(w, ev):
            sc = state_class(w.stored, w.model)
            acc.ev()
            acc.cls(spec["name"], label, ev_label(ev), sc)
            acc.axis("event", ev[0])
            acc.axis("state_class", sc)
            vs = step(w, ev)
            acc.outcome((ev[0], sc, "viol" if vs else "ok"))
            return vs

        res = explore.bfs(build, lambda w: events_for(w, answers), stepper, canon, invariant, depth, event_label=ev_label)
        acc.count("states", res.states)
        acc.count("transitions", res.transitions)
        acc.count("roots")
        acc.axis("context", spec["name"])
        acc.axis("max_depth_reached", res.max_depth)
        acc.axis("initial_kind", classify(spec, init)[0])
        for key, desc, hist in res.violations:
            acc.violation(key, desc, {"ctx": spec, "init": {"label": label, "value": init}, "history": hist})
        if label in ("hash:sha256_crypt", "none") and spec["name"] in ("unix_disabled@2", "django_disabled@0", "mysql41+unix_disabled"):
            # a deepest explored history of this root when one exists, else a short one that certainly was explored
            hist = res.samples[0] if res.samples else ([["disable", 0], ["enable"]] if init is not None else [["disable_none", 0], ["verify", "x"]])
            acc.sample({"ctx": spec, "init": {"label": label, "value": init}, "history": hist})
    return acc


def run(ctx):
    specs = context_specs()
    inits = initial_values(ctx.seed)
    depth = 4 if ctx.quick else 5
    answers = [0, "max"] if ctx.quick else [0, 1, "max"]
    tasks = []
    for spec in specs:
        for chunk in core.chunked(inits, 12):
            tasks.append({"ctx": spec, "inits": chunk, "depth": depth, "answers": answers})
    nd = [{"part": "none_default", "scheme": n, "truncate_error": te} for n in HS.usable_names() if n not in DISABLED and HS.SLOW.get(n, 0) < 3
          for te in ((False, True) if "truncate_error" in HS.g(n, "setting_kwds", ()) else (False,))]
    for chunk in core.chunked(nd, 8):
        tasks.append({"part": "none_default", "cases": chunk})
    ctx.log(f"{len(specs)} contexts x {len(inits)} initial values = {len(specs) * len(inits)} roots, depth {depth}, {len(tasks)} shards")
    acc = core.pmap(work, tasks)
    ctx.merge(acc)
    ctx.cov["states"] = int(acc.counters["states"])
    ctx.cov["transitions"] = int(acc.counters["transitions"])
    ctx.cov["traces_validated_against_impl"] = int(acc.counters["transitions"])
    ctx.cov["roots"] = int(acc.counters["roots"])
    ctx.cov["depth"] = depth
    ctx.cov["explanation"] = (
        "states = distinct (stored string, model, dummy-count class) per root summed over roots; every transition is one "
        "replay of its whole history on a fresh real CryptContext, so traces_validated_against_impl = transitions"
    )
    ctx.assume("re-disabling an already disabled value only has to stay disabled; enable() afterwards may return the embedded original or raise ValueError")
    ctx.assume("is_enabled()/verify() of values the context does not recognise, and verify() of normal hashes, are observed but not judged here (C01/C04)")
    ctx.assume("the disabling hasher of a context is the first disabled hasher of its scheme list")
