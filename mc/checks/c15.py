"""C15 -- a TOTP configuration survives every serialisation.

Bounded-exhaustive product (engine E1) over the real ``passlib.totp.TOTP``:

* part ``strings``: label x issuer = EVERY string of length <= 2 (thorough: <= 3 on one side, <= 2 on the other)
  over the hostile alphabet  a Z blank @ / % & = + ? # ; ' " < e-acute CJK  (a LABEL with a leading / trailing blank
  only through json / dict: the KeyURI reader strips blanks around the label, as documented; an ISSUER keeps its
  blanks in every format), issuer also absent, x formats {uri, uri with label/issuer passed to to_uri(), json, dict}.
* part ``configs``: keys x algs x digits 6..10 x periods x class defaults set through ``TOTP.using(...)``
  (none / digits / alg / period / issuer / all four) x formats x a few hostile labels and issuers, so that the
  default-elision rules are exercised on the writing AND on the reading side.
* part ``corrupt``: every valid source of a smaller product, corrupted in every listed way (conflicting issuers,
  every URI parameter duplicated -- same value, other value, in front --, secret / key missing, empty or undecodable,
  type missing or unknown, version missing or unknown, label missing, key given twice) and loaded through the direct
  loader and through ``from_source``: must raise ValueError (any subclass), never another exception, never load.
* part ``colon``: every string <= 2 containing ':' must be refused (ValueError) as label and as issuer by the
  constructor, by ``to_uri(label=, issuer=)`` and by ``using(issuer=)``.
* part ``wallet``: encrypted keys under application secrets: written under every tag set x default tag x cost
  (incl. cost 0), read under every tag set x cost; AES from `cryptography` or the pinned pure-Python stand-in.

Oracle: the object loaded back *by the class that wrote it* has equal key / alg / digits / period / label / issuer and
produces equal codes at 4 probe times; ``from_source`` agrees with the direct loader; every URI is additionally read
by the stock ``TOTP`` class (KeyURI defaults) and by an independent urllib-based KeyURI reader (mc.refs.totp_ref).
"""
from __future__ import annotations

import hashlib
import json
import random
import warnings

from mc import core
from mc.core import Acc, HarnessError
from mc.refs import totp_ref as R

ID = "C15"
LEVEL = "exploration"
RULE = (
    "full cartesian products: (strings) every label x every issuer of length <=2 (thorough <=3 x <=2 both ways) over a "
    "17-symbol hostile alphabet x 4 formats; (configs) key length x alg x digits x period x using()-defaults x format x "
    "label x issuer; (corrupt) valid source x corruption x loader; (colon) every <=2 string with ':' x 5 entry points. "
    "A case is non-trivial when a real serialiser and loader ran on it; distinct class = part|format|factory|label "
    "string|issuer string (strings), |key length|alg|digits|period|label|issuer (configs), |format|corruption|loader|"
    "source class (corrupt)"
)

PINNED = 1_000_000_007
ALPHABET = ("a", "Z", " ", "@", "/", "%", "&", "=", "+", "?", "#", ";", "'", '"', "<", "é", "日")
CHAR_NAME = {"a": "letter", "Z": "letter", " ": "blank", "@": "at", "/": "slash", "%": "percent", "&": "amp", "=": "eq",
             "+": "plus", "?": "qmark", "#": "hash", ";": "semi", "'": "apos", '"': "quot", "<": "lt",
             "é": "latin1", "日": "cjk", ":": "colon"}
FORMATS = ("uri", "uri_args", "json", "dict")
FACTORIES = {
    "plain": {},
    "digits8": {"digits": 8},
    "sha256": {"alg": "sha256"},
    "period60": {"period": 60},
    "issuer": {"issuer": "Acme Co"},
    "all4": {"digits": 7, "alg": "sha512", "period": 45, "issuer": "é@/ &"},
}
HARD_DEFAULTS = {"digits": 6, "alg": "sha1", "period": 30}
FIELDS = ("key", "alg", "digits", "period", "label", "issuer")
OTHER_ALGS = tuple(a for a in ("sha224", "sha384", "sha3_256", "sha3_512", "blake2b", "blake2s") if hasattr(hashlib, a))
PROBES = (0, 59, 1111111111, 2**32 + 29)

_FAC = {}


def filler(seed, n, salt=b""):
    out = b""
    i = 0
    while len(out) < n:
        out += hashlib.sha256(b"C15:%d:%d:" % (seed, i) + salt).digest()
        i += 1
    return out[:n]


def factory(name):
    if name not in _FAC:
        import passlib.totp as T

        warnings.simplefilter("ignore")
        if "base" not in _FAC:
            _FAC["base"] = T.TOTP.using(now=lambda: PINNED)
        _FAC[name] = _FAC["base"].using(**FACTORIES[name]) if FACTORIES[name] else _FAC["base"]
    return _FAC[name]


def strings(maxlen):
    out = []
    for n in range(1, maxlen + 1):
        def rec(prefix):
            if len(prefix) == n:
                out.append(prefix)
                return
            for ch in ALPHABET:
                rec(prefix + ch)
        rec("")
    return out


def str_class(s):
    if s is None:
        return "none"
    if len(s) == 1:
        return "char=" + CHAR_NAME.get(s, "other")
    return "multi"


def _hostile(s):
    return s is not None and not all(ch in "aZx" for ch in s)


def tag_of(label, issuer):
    """which of the two strings can be responsible (keeps keys few: one per hostile symbol, one for 'both')"""
    lh, ih = _hostile(label), _hostile(issuer)
    if lh and ih:
        return "label+issuer"
    if lh:
        return "label:" + str_class(label)
    if ih:
        return "issuer:" + str_class(issuer)
    return "plain"


def fields_of(o):
    return {"key": o.key, "alg": o.alg, "digits": o.digits, "period": o.period, "label": o.label, "issuer": o.issuer}


def codes_of(o):
    return [o.generate(t).token for t in PROBES]


# ---------------------------------------------------------------------------
# round trip
# ---------------------------------------------------------------------------
def build(case):
    """-> (writer class, original object, expected fields, serialiser thunk, direct loader)"""
    F = factory(case["factory"])
    fmt = case["format"]
    label, issuer = case["label"], case["issuer"]
    kw = dict(format="raw", alg=case["alg"], digits=case["digits"], period=case["period"])
    if fmt == "uri_args":
        orig = F(case["key"], **kw)
    else:
        orig = F(case["key"], label=label, issuer=issuer, **kw)
    want = {"key": case["key"], "alg": case["alg"], "digits": case["digits"], "period": case["period"],
            "label": label or None, "issuer": issuer or FACTORIES[case["factory"]].get("issuer")}
    if fmt == "uri":
        ser, load = orig.to_uri, F.from_uri
    elif fmt == "uri_args":
        ser, load = (lambda: orig.to_uri(label=label, issuer=issuer)), F.from_uri
    elif fmt == "json":
        ser, load = orig.to_json, F.from_json
    elif fmt == "dict":
        ser, load = orig.to_dict, F.from_dict
    else:
        raise HarnessError(f"unknown format {fmt}")
    return F, orig, want, ser, load


def compare(comp, fmt, want, got, facname, lab_cls, iss_cls, what):
    out = []
    for f in FIELDS:
        if got[f] == want[f] and type(got[f]) is type(want[f]):
            continue
        if f in HARD_DEFAULTS and want[f] == HARD_DEFAULTS[f] and got[f] == FACTORIES[facname].get(f):
            key = f"C15|{comp}|default_elision:{f}"
            why = (f"{what}: {f} was {want[f]!r} (the value the serialiser omits), the loading class default "
                   f"{got[f]!r} came back (factory using({FACTORIES[facname]}))")
        elif f == "label":
            key = f"C15|{comp}|roundtrip:label:{lab_cls}"
            why = f"{what}: label {want[f]!r} came back as {got[f]!r}"
        elif f == "issuer":
            key = f"C15|{comp}|roundtrip:issuer:{iss_cls}"
            why = f"{what}: issuer {want[f]!r} came back as {got[f]!r}"
        else:
            key = f"C15|{comp}|roundtrip:{f}"
            why = f"{what}: {f} {want[f]!r} came back as {got[f]!r}"
        out.append((key, why))
    return out


def eval_roundtrip(case):
    fmt, facname = case["format"], case["factory"]
    comp = "uri" if fmt.startswith("uri") else fmt
    eff_issuer = case["issuer"] or FACTORIES[facname].get("issuer")  # the class default applies when none is given
    lab_cls, iss_cls = str_class(case["label"]), str_class(eff_issuer)
    tag = tag_of(case["label"], eff_issuer)
    try:
        F, orig, want, ser, load = build(case)
    except Exception as e:  # noqa: BLE001
        return [(f"C15|constructor|raises:{type(e).__name__}:{tag}", f"TOTP(label={case['label']!r}, issuer={case['issuer']!r}, ...) raised {e!r}")]
    if fmt != "uri_args":
        got0 = fields_of(orig)
        if got0 != want:
            return [(f"C15|constructor|fields:{tag}", f"constructed object has {got0!r}, expected {want!r}")]
    try:
        src = ser()
    except Exception as e:  # noqa: BLE001
        return [(f"C15|{comp}|serialise:raises:{type(e).__name__}:{tag}", f"{fmt} of label={case['label']!r} issuer={case['issuer']!r} raised {e!r}")]
    out = []
    if comp in ("uri", "json") and not isinstance(src, str):
        out.append((f"C15|{comp}|serialise:type", f"{fmt} returned {type(src).__name__}"))
    if comp == "dict":
        try:
            if not isinstance(src, dict) or json.loads(json.dumps(src)) != src:
                out.append(("C15|dict|serialise:not_json_safe", f"to_dict() = {src!r}"))
        except Exception as e:  # noqa: BLE001
            out.append(("C15|dict|serialise:not_json_safe", f"to_dict() = {src!r}: {e!r}"))
    if comp == "json":
        try:
            if json.loads(src) != orig.to_dict():
                out.append(("C15|json|serialise:differs_from_to_dict", f"to_json() = {src!r}, to_dict() = {orig.to_dict()!r}"))
        except Exception as e:  # noqa: BLE001
            out.append(("C15|json|serialise:not_json", f"to_json() = {src!r}: {e!r}"))
    what = f"{fmt} {src!r} reloaded by the writing class"
    try:
        back = load(src)
        got = fields_of(back)
    except Exception as e:  # noqa: BLE001
        return out + [(f"C15|{comp}|reload:raises:{type(e).__name__}:{tag}", f"loading {src!r} raised {e!r}")]
    found = compare(comp, fmt, want, got, facname, lab_cls, iss_cls, what)
    out.extend(found)
    if not found:
        try:
            c0, c1 = codes_of(orig), codes_of(back)
        except Exception as e:  # noqa: BLE001
            out.append((f"C15|{comp}|codes:raises:{type(e).__name__}", f"generate() on the reloaded object raised {e!r}"))
        else:
            if c0 != c1:
                out.append((f"C15|{comp}|codes_differ", f"{what}: equal fields but codes {c1} != {c0} at times {PROBES}"))
    # from_source must agree with the direct loader
    try:
        via = fields_of(F.from_source(src))
    except Exception as e:  # noqa: BLE001
        out.append((f"C15|from_source|{comp}:raises:{type(e).__name__}", f"from_source({src!r}) raised {e!r}, the direct loader did not"))
    else:
        if via != got:
            out.append((f"C15|from_source|{comp}:differs_from_direct_loader", f"from_source({src!r}) -> {via!r}, direct loader -> {got!r}"))
    if comp == "json":
        try:
            if fields_of(F.from_source(src.encode("ascii"))) != got:
                out.append(("C15|from_source|json_bytes:differs_from_direct_loader", f"from_source({src.encode('ascii')!r})"))
        except Exception as e:  # noqa: BLE001
            out.append((f"C15|from_source|json_bytes:raises:{type(e).__name__}", f"from_source({src!r} as ASCII bytes) raised {e!r}"))
    if comp == "uri":
        # what an authenticator app sees: KeyURI defaults, no knowledge of the writer's class
        try:
            p = R.parse_keyuri(src)
        except R.UriError as e:
            cls = ":" + tag if e.field else ""
            out.append((f"C15|uri|independent_reader:{e.code}{cls}", f"{src!r} is not a readable KeyURI: {e}"))
        except Exception as e:  # noqa: BLE001
            out.append((f"C15|uri|independent_reader:{type(e).__name__}", f"{src!r}: {e!r}"))
        else:
            if p["type"] != "totp":
                out.append(("C15|uri|independent_reader:type", f"{src!r}: type {p['type']!r}"))
            for f in FIELDS:
                if p[f] != want[f]:
                    cls = {"label": ":" + lab_cls, "issuer": ":" + iss_cls}.get(f, "")
                    out.append((f"C15|uri|independent_reader:field:{f}{cls}", f"{src!r}: independent KeyURI reader sees {f}={p[f]!r}, object has {want[f]!r}"))
            if want["issuer"] and (p["prefix"] != want["issuer"] or p["issuer_param"] != want["issuer"]):
                out.append((f"C15|uri|issuer_not_in_prefix_and_parameter:{iss_cls}", f"{src!r}: prefix {p['prefix']!r}, parameter {p['issuer_param']!r}"))
        try:
            # (for the stock class itself this is the reload just made)
            plain = got if facname == "plain" else fields_of(factory("plain").from_uri(src))
        except Exception as e:  # noqa: BLE001
            out.append((f"C15|uri|stock_class_reader:raises:{type(e).__name__}:{tag}", f"TOTP.from_uri({src!r}) raised {e!r}"))
        else:
            for k, why in compare("uri", fmt, want, plain, "plain", lab_cls, iss_cls, f"{fmt} {src!r} read by the stock TOTP class"):
                out.append((k.replace("|uri|", "|uri|stock_class_reader:"), why))
    return out


# ---------------------------------------------------------------------------
# corruptions
# ---------------------------------------------------------------------------
URI_PARAMS = ("secret", "issuer", "algorithm", "digits", "period")
OTHER_VALUE = {"secret": "GEZDGNBVGY3TQOJQ", "issuer": "zz", "algorithm": "SHA256", "digits": "7", "period": "31"}


def uri_corruptions(has_issuer):
    names = ["secret_missing", "secret_empty", "secret_blank", "secret_blank_plus", "secret_padding_only:eq", "secret_padding_only:dash",
             "secret_padding_only:mixed", "secret_undecodable", "secret_bad_char", "no_query",
             "extra_param:cls", "extra_param:self", "extra_param:label",
             "extra_param:Secret", "extra_param:SECRET", "extra_param:Digits", "extra_param:PERIOD", "extra_param:Algorithm",
             "extra_param:Label", "extra_param:Issuer",
             "type_unknown:xotp", "type_unknown:empty", "type_unknown:totp2", "scheme_wrong",
             "label_missing", "label_absent", "label_blank"]
    if has_issuer:
        names += ["issuer_conflict:param", "issuer_conflict:prefix"]
    else:
        names += ["issuer_conflict:added"]
    for k in URI_PARAMS:
        names += [f"dup:{k}:same", f"dup:{k}:other", f"dup:{k}:front", f"dup:{k}:blank_front", f"dup:{k}:blank_back"]
    return names


def corrupt_uri(u, name):
    head, query = u.split("?", 1)
    items = [it.split("=", 1) for it in query.split("&")]
    have = {k: v for k, v in items}

    def join(its, hd=head):
        return hd + "?" + "&".join(f"{k}={v}" for k, v in its)

    lead = "otpauth://totp/"
    assert head.startswith(lead)
    path = head[len(lead):]
    if name == "secret_missing":
        return join([it for it in items if it[0] != "secret"] or [["x", "y"]])
    if name == "secret_empty":
        return join([[k, "" if k == "secret" else v] for k, v in items])
    if name == "secret_blank":
        return join([[k, "%20" if k == "secret" else v] for k, v in items])
    if name == "secret_blank_plus":
        return join([[k, "+%09" if k == "secret" else v] for k, v in items])
    if name.startswith("secret_padding_only:"):
        # nothing but the characters the key-text cleaner strips (padding '=', grouping '-', blanks): no key material
        v2 = {"eq": "%3D%3D%3D", "dash": "-", "mixed": "%3D-%20-%3D"}[name.split(":")[1]]
        return join([[k, v2 if k == "secret" else v] for k, v in items])
    if name.startswith("extra_param:"):
        # a parameter the format does not define, named like something the loader uses internally
        pn = name.split(":")[1]
        # (a differently capitalised twin of a defined parameter carries ANOTHER value: it must not win)
        return join(items + [[pn, {"secret": "GEZDGNBVGY3TQOJQGEZDGNBV", "digits": "7", "period": "31", "algorithm": "SHA512", "label": "mallory", "issuer": "zz"}.get(pn.lower(), "1")]])
    if name == "secret_undecodable":
        return join([[k, "%21%21%21%21" if k == "secret" else v] for k, v in items])
    if name == "secret_bad_char":
        return join([[k, "1" + v[1:] if k == "secret" else v] for k, v in items])
    if name == "no_query":
        return head
    if name.startswith("type_unknown:"):
        t = {"xotp": "xotp", "empty": "", "totp2": "totp2"}[name.split(":")[1]]
        return join(items, "otpauth://" + t + "/" + path)
    if name == "scheme_wrong":
        return join(items, "otpauthx://totp/" + path)
    if name == "label_missing":
        return join(items, lead)
    if name == "label_absent":
        return join(items, "otpauth://totp")
    if name == "label_blank":
        return join(items, lead + "%20")
    if name == "issuer_conflict:param":
        return join([[k, v + "x" if k == "issuer" else v] for k, v in items])
    if name == "issuer_conflict:prefix":
        iss, lab = path.split(":", 1)
        return join(items, lead + iss + "x:" + lab)
    if name == "issuer_conflict:added":
        return join(items + [["issuer", "other"]], lead + "one:" + path)
    kind, k, how = name.split(":")
    assert kind == "dup"
    if how.startswith("blank_"):
        # the parameter given twice, one of the two occurrences with an empty value ('secret=&...&secret=KEY')
        its = items if k in have else items + [[k, OTHER_VALUE[k]]]
        return join([[k, ""]] + its if how == "blank_front" else its + [[k, ""]])
    cur = have.get(k)
    if cur is None:
        # the parameter was elided: give it twice
        v1 = OTHER_VALUE[k]
        v2 = v1 if how != "other" else v1 + ("0" if k in ("digits", "period") else "A")
        if k == "digits":
            v1, v2 = ("7", "7") if how != "other" else ("7", "8")
        extra = [[k, v1], [k, v2]]
        return join(extra + items if how == "front" else items + extra)
    v = cur if how != "other" else OTHER_VALUE[k]
    return join([[k, v]] + items if how == "front" else items + [[k, v]])


DICT_CORRUPTIONS = (
    "type_missing", "type_unknown:xotp", "type_unknown:empty", "type_unknown:none", "type_unknown:int",
    "v_missing", "v_unknown:0", "v_unknown:2", "v_unknown:99", "v_unknown:-1", "v_unknown:none", "v_unknown:str1",
    "v_unknown:str2", "v_unknown:float", "v_unknown:list",
    "key_missing", "key_empty", "key_padding_only:eq", "key_padding_only:dash", "key_padding_only:blank", "key_undecodable", "key_given_twice",
)
NON_DICTS = {"not_a_dict:list": [1], "not_a_dict:str": "abc", "not_a_dict:int": 5, "not_a_dict:none": None}
JSON_TEXTS = {"json_truncated": None, "json_garbage": "nonsense", "json_empty": "", "json_blank": " "}


def corrupt_dict(d, name):
    d = dict(d)
    if name == "type_missing":
        del d["type"]
    elif name.startswith("type_unknown:"):
        d["type"] = {"xotp": "xotp", "empty": "", "none": None, "int": 5}[name.split(":")[1]]
    elif name == "v_missing":
        del d["v"]
    elif name.startswith("v_unknown:"):
        d["v"] = {"0": 0, "2": 2, "99": 99, "-1": -1, "none": None, "str1": "1", "str2": "2", "float": 1.5, "list": [1]}[name.split(":")[1]]
    elif name == "key_missing":
        del d["key"]
    elif name == "key_empty":
        d["key"] = ""
    elif name.startswith("key_padding_only:"):
        d["key"] = {"eq": "====", "dash": "--", "blank": " \t"}[name.split(":")[1]]
    elif name == "key_undecodable":
        d["key"] = "!!!!!!!!"
    elif name == "key_given_twice":
        d["enckey"] = {"v": 1, "c": 4, "t": "1", "s": "AAAAAAAA", "k": d["key"]}
    else:
        raise HarnessError(f"unknown corruption {name}")
    return d


def eval_corrupt(case):
    if case.get("mode") == "O" and __debug__:
        return core.call_in_child("mc.checks.c15", "eval_corrupt", case, optimized=True)
    found = _eval_corrupt(case)
    if not __debug__:
        # (several loaders validate inside assert statements: the same refusals are demanded under python -O)
        found = [(k + ":python-O", d) for k, d in found]
    return found


def _eval_corrupt(case):
    fmt, name, via = case["format"], case["corruption"], case["via"]
    sub = dict(case, format="uri" if fmt == "uri" else "dict")
    try:
        F, orig, want, ser, load = build(sub)
        src = ser()
    except Exception as e:  # noqa: BLE001
        raise HarnessError(f"valid source could not be built for {core.short(case)}: {e!r}")
    if fmt == "uri":
        bad = corrupt_uri(src, name)
        loader = F.from_uri
    else:
        if name in NON_DICTS:
            bad = NON_DICTS[name]
        elif name in JSON_TEXTS:
            bad = None
        else:
            bad = corrupt_dict(src, name)
        loader = F.from_dict
        if fmt == "json":
            if name in JSON_TEXTS:
                bad = JSON_TEXTS[name] if JSON_TEXTS[name] is not None else json.dumps(src)[:-7]
            else:
                bad = json.dumps(bad, sort_keys=True)
            loader = F.from_json
    if via == "from_source":
        loader = F.from_source
    name = {"v_unknown:str1": "v_unknown:str", "v_unknown:str2": "v_unknown:str"}.get(name, name)
    try:
        got = loader(bad)
    except ValueError:
        return []
    except Exception as e:  # noqa: BLE001
        return [(f"C15|{fmt}|corrupt:{name}:raises:{type(e).__name__}", f"{via} loader on {bad!r} raised {e!r}; an inconsistent/incomplete source must be refused with ValueError")]
    if name.startswith("extra_param:") and name != "extra_param:label":
        # an undefined parameter may be ignored (with a warning): then the source must load as if it were absent
        if fields_of(got) == fields_of(load(src)):
            return []
        return [(f"C15|{fmt}|corrupt:{name}:changes_result", f"{via} loader on {bad!r} gives {fields_of(got)!r}, without the extra parameter {fields_of(load(src))!r}")]
    return [(f"C15|{fmt}|corrupt:{name}:accepted", f"{via} loader accepted {bad!r} -> {fields_of(got)!r}")]


def corruptions_for(fmt, has_issuer, via):
    if fmt == "uri":
        return uri_corruptions(has_issuer)
    names = list(DICT_CORRUPTIONS)
    if fmt == "dict" and via == "direct":
        names += list(NON_DICTS)
    if fmt == "json":
        names += [n for n in NON_DICTS] + list(JSON_TEXTS)
    return names


# ---------------------------------------------------------------------------
# ':' must be refused
# ---------------------------------------------------------------------------
COLON_OPS = ("ctor_label", "ctor_issuer", "to_uri_label_arg", "to_uri_issuer_arg", "using_issuer")


def eval_colon(case):
    s, op = case["text"], case["op"]
    F = factory("plain")
    key = case["key"]
    try:
        if op == "ctor_label":
            r = F(key, format="raw", label=s)
        elif op == "ctor_issuer":
            r = F(key, format="raw", label="x", issuer=s)
        elif op == "to_uri_label_arg":
            r = F(key, format="raw").to_uri(label=s)
        elif op == "to_uri_issuer_arg":
            r = F(key, format="raw", label="x").to_uri(issuer=s)
        elif op == "using_issuer":
            r = F.using(issuer=s)
        else:
            raise HarnessError(op)
    except ValueError:
        return []
    except HarnessError:
        raise
    except Exception as e:  # noqa: BLE001
        return [(f"C15|colon|{op}:raises:{type(e).__name__}", f"{op}({s!r}) raised {e!r}, expected ValueError")]
    return [(f"C15|colon|{op}:accepted", f"{op}({s!r}) was accepted ({core.short(r, 80)}); ':' cannot be represented in a KeyURI label/issuer")]


# ---------------------------------------------------------------------------
# encrypted keys (only with AES support)
# ---------------------------------------------------------------------------
WALLET_SECRETS = {"1": "first#secret", "2": "second: secret ;x", "2016-01-01": "dated = secret # 3", "a.b_c-d": "odd\ttag'\"%{["}
WALLET_SETS = (("1",), ("1", "2"), ("2", "1"), ("1", "2016-01-01"), ("a.b_c-d", "1", "2"), ("2",), ("2016-01-01", "a.b_c-d"))


WALLET_FORMS = ("dict", "json", "rows", "path")


def wallet_source(tags, form, tmpdir):
    """the same application secrets in each documented way of listing them: mapping, JSON text, 'tag: value' rows, and a
    file holding either text (secrets_path)"""
    d = {t: WALLET_SECRETS[t] for t in tags}
    if form == "dict":
        return {"secrets": d}
    if form == "json":
        return {"secrets": json.dumps(d)}
    rows = "# application secrets\n\n" + "".join(f"{t}: {v}\n" for t, v in d.items())
    if form == "rows":
        return {"secrets": rows}
    import os

    path = os.path.join(tmpdir, f"secrets-{len(os.listdir(tmpdir))}.txt")
    with open(path, "w", encoding="utf-8") as fh:
        fh.write(rows)
    return {"secrets_path": path}


def wallet_default_tag(tags):
    if all(t.isdigit() for t in tags):
        return max(tags, key=int)
    return max(tags)


REPO_VECTORS = (  # stored ciphertexts from the repository's own tests/test_totp.py (secrets {"1": "abcdef", "2": b"\x00\xff"})
    (dict(v=1, c=13, s="6D7N7W53O7HHS37NLUFQ", k="MHCTEGSNPFN5CGBJ", t="1"), b"\xe0\x1cc\x0c!\x84\xb0v\xce\x99"),
    (dict(v=1, c=13, s="SPZJ54Y6IPUD2BYA4C6A", k="ZGDXXTVQOWYLC2AU", t="1"), b"\xe0\x1cc\x0c!\x84\xb0v\xce\x99"),
    (dict(v=1, c=8, s="FCCTARTIJWE7CPQHUDKA", k="D2DRS32YESGHHINWFFCELKN7Z6NAHM4M", t="2"),
     b"\xee]\xcb9\x870\x06 D\xc8y/\xa54&\xe4\x9c\x13\xc2\x18"),
)


def ensure_aes():
    """the wallet clause needs AES-256-CTR: the `cryptography` package when present, else the pure-Python stand-in
    (mc.refs.aes, pinned to FIPS-197 / SP 800-38A vectors) installed at passlib.totp's two module-level cipher names.
    Returns "cryptography" or "stand-in"."""
    import passlib.totp as T
    from mc.refs import aes

    if T._cg_ciphers is not None and T._cg_ciphers is not aes.standin_ciphers:
        return "cryptography"
    if T._cg_ciphers is None:
        bad = aes.self_check()
        if bad:
            raise HarnessError(f"AES stand-in fails its vectors: {bad}")
        aes.install(T)
    return "stand-in"


def eval_wallet(case):
    """written under `wtags` (+ default tag / cost), read under `rtags`"""
    import passlib.totp as T

    ensure_aes()
    import shutil
    import tempfile

    saved = T.rng
    T.rng = random.Random(case["seed"])
    tmpdir = tempfile.mkdtemp(prefix="c15-wallet-")
    try:
        base = factory("plain")
        wkw = dict(wallet_source(case["wtags"], case.get("wform", "dict"), tmpdir), encrypt_cost=case["wcost"])
        if case.get("wdefault"):
            wkw["default_tag"] = case["wdefault"]
        W = base.using(**wkw)
        RD = base.using(encrypt_cost=case["rcost"], **wallet_source(case["rtags"], case.get("rform", "dict"), tmpdir))
        used_tag = case.get("wdefault") or wallet_default_tag(case["wtags"])
        out = []
        orig = W(case["key"], format="raw", label="lab", digits=case["digits"])
        fmt = case["format"]
        # a live OBJECT handed to from_source() of a class with another wallet (or none): the object holds its key in the
        # clear, so whatever the two wallets are, the result is the same configuration bound to the receiving class
        for rname, RC in (("other_wallet", RD), ("no_wallet", base), ("same_class", W)):
            try:
                got = RC.from_source(orig)
            except Exception as e:  # noqa: BLE001
                out.append((f"C15|wallet|from_source_object:{rname}:raises:{type(e).__name__}", f"{rname}.from_source(<TOTP object made under tags {case['wtags']}>) raised {e!r} (receiver tags {case['rtags']})"))
                continue
            if got.key != case["key"] or got.digits != case["digits"] or got.label != "lab" or codes_of(got) != codes_of(orig):
                out.append((f"C15|wallet|from_source_object:{rname}:differs", f"{rname}.from_source(<object under {case['wtags']}>) has key {got.key!r}, expected {case['key']!r}"))
            elif not isinstance(got, RC):
                out.append((f"C15|wallet|from_source_object:{rname}:class", f"{rname}.from_source(object) returned a {type(got).__name__} that is not bound to the receiving class"))
        src = orig.to_json() if fmt == "json" else orig.to_dict()
        d = json.loads(src) if fmt == "json" else src
        if "key" in d or "enckey" not in d:
            out.append(("C15|wallet|key_not_encrypted", f"{fmt} with application secrets configured = {src!r}"))
            return out
        if d["enckey"].get("t") != used_tag:
            out.append(("C15|wallet|default_tag", f"encrypted under tag {d['enckey'].get('t')!r}, expected {used_tag!r} of {case['wtags']}"))
        listed = d["enckey"].get("t") in case["rtags"]
        try:
            back = (RD.from_json if fmt == "json" else RD.from_dict)(src)
        except Exception as e:  # noqa: BLE001
            if listed:
                out.append((f"C15|wallet|decrypt:raises:{type(e).__name__}", f"tag {used_tag!r} is listed in {case['rtags']} but loading raised {e!r}"))
            return out
        if not listed:
            if back.key == case["key"]:
                out.append(("C15|wallet|decrypts_without_secret", f"tag {used_tag!r} not in {case['rtags']} yet the key came back"))
            return out
        if back.key != case["key"] or back.digits != case["digits"] or back.label != "lab":
            out.append(("C15|wallet|decrypt:wrong_key", f"written under {case['wtags']}, read under {case['rtags']}: key {back.key!r} != {case['key']!r}"))
        elif codes_of(back) != codes_of(orig):
            out.append(("C15|wallet|codes_differ", "decrypted object gives other codes"))
        return out
    finally:
        T.rng = saved
        shutil.rmtree(tmpdir, ignore_errors=True)


EVALS = {"roundtrip": eval_roundtrip, "corrupt": eval_corrupt, "colon": eval_colon, "wallet": eval_wallet}


def replay(case):
    bad = R.self_check()
    if bad:
        raise HarnessError(f"totp reference fails its own vectors: {bad}")
    return EVALS[case["kind"]](case)


# ---------------------------------------------------------------------------
# shard workers
# ---------------------------------------------------------------------------
def outcome_of(found):
    if not found:
        return "ok"
    return "violation:" + found[0][0].split("|", 2)[2].split(":")[0]


def work(task):
    acc = Acc()
    part = task["part"]
    seed = task["seed"]
    if part == "strings":
        key = filler(seed, 20, b"strings")
        facname = task["factory"]
        for label in task["labels"]:
            for issuer in task["issuers"]:
                for fmt in FORMATS:
                    if label is None and fmt.startswith("uri"):
                        continue  # a URI needs a label (documented)
                    if label is not None and label != label.strip(" ") and fmt.startswith("uri"):
                        continue  # the KeyURI reader strips blanks around the LABEL (documented); issuers keep theirs
                    case = {"kind": "roundtrip", "factory": facname, "key": key, "alg": "sha1", "digits": 6, "period": 30,
                            "label": label, "issuer": issuer, "format": fmt}
                    acc.ev()
                    if task.get("coarse"):
                        # 3-symbol strings: one stored class per (long string, class of the short one); every case
                        # is still a distinct input and is counted in bulk_distinct_cases
                        l3 = label if len(label or "") == 3 else issuer
                        other = issuer if l3 is label else label
                        acc.cls("strings3", fmt, facname, "label" if l3 is label else "issuer", l3, str_class(other))
                        acc.count("bulk_distinct_cases")
                    else:
                        acc.cls("strings", fmt, facname, label, issuer)
                    found = eval_roundtrip(case)
                    for k, d in found:
                        acc.violation(k, d, case)
                    acc.outcome(f"strings:{fmt}:{outcome_of(found)}")
                    if label in ("a@", "é日") and issuer in ("/%", "& "[:1] + "="):
                        acc.sample(case)
            acc.axis("label_len", len(label or ""))
            for ch in set(label or ""):
                acc.axis("label_char", CHAR_NAME[ch])
        for issuer in task["issuers"]:
            acc.axis("issuer_len", len(issuer or ""))
    elif part == "configs":
        n, alg = task["keylen"], task["alg"]
        key = filler(seed, n, b"cfg%d" % n)
        for facname in FACTORIES:
            fac_issuer = FACTORIES[facname].get("issuer")
            for digits in (6, 7, 8, 9, 10):
                for period in task["periods"]:
                    for label in task["labels"]:
                        for issuer in (None, "Ex@mple/Co &=1", fac_issuer or "日本"):
                            for fmt in FORMATS:
                                if label is None and fmt.startswith("uri"):
                                    continue
                                case = {"kind": "roundtrip", "factory": facname, "key": key, "alg": alg, "digits": digits,
                                        "period": period, "label": label, "issuer": issuer, "format": fmt}
                                acc.ev()
                                acc.cls("configs", fmt, facname, n, alg, digits, period, label, issuer)
                                found = eval_roundtrip(case)
                                for k, d in found:
                                    acc.violation(k, d, case)
                                acc.outcome(f"configs:{fmt}:{facname}:{outcome_of(found)}")
                                if n == 20 and digits == 8 and period == 30 and fmt == "uri" and issuer and label:
                                    acc.sample(case)
                    acc.axis("period", period)
                acc.axis("digits", digits)
            acc.axis("factory", facname)
        acc.axis("alg", alg)
        acc.axis("key_len", n)
    elif part == "corrupt":
        n, alg = task["keylen"], task["alg"]
        key = filler(seed, n, b"cor%d" % n)
        for facname in task["factories"]:
            for digits, period in task["dp"]:
                for label, issuer in task["li"]:
                    has_issuer = bool(issuer or FACTORIES[facname].get("issuer"))
                    for fmt in ("uri", "json", "dict"):
                        for via in ("direct", "from_source"):
                            for name in corruptions_for(fmt, has_issuer, via):
                                case = {"kind": "corrupt", "factory": facname, "key": key, "alg": alg, "digits": digits,
                                        "period": period, "label": label, "issuer": issuer, "format": fmt,
                                        "corruption": name, "via": via, "mode": "default" if __debug__ else "O"}
                                acc.ev()
                                acc.cls("corrupt", fmt, name, via, facname, n, alg, digits, period, str_class(issuer), case["mode"])
                                found = eval_corrupt(case)
                                for k, d in found:
                                    acc.violation(k, d, case)
                                res = "refused" if not found else "accepted" if found[0][0].endswith(":accepted") else "raises:" + found[0][0].rsplit(":", 1)[-1]
                                acc.outcome(f"corrupt:{fmt}:{name.split(':')[0]}:{res}")
                                acc.axis("corruption", f"{fmt}:{name}")
                                if digits == 8 and name in ("dup:digits:other", "v_unknown:2", "issuer_conflict:param") and via == "direct":
                                    acc.sample(case)
    elif part == "colon":
        key = filler(seed, 20, b"colon")
        for s in task["texts"]:
            for op in COLON_OPS:
                case = {"kind": "colon", "text": s, "op": op, "key": key}
                acc.ev()
                acc.cls("colon", op, s)
                found = eval_colon(case)
                for k, d in found:
                    acc.violation(k, d, case)
                acc.outcome(f"colon:{op}:{'refused' if not found else 'violation'}")
    elif part == "wallet":
        for case in task["cases"]:
            acc.ev()
            acc.cls("wallet", case["format"], case["wtags"], case.get("wdefault"), case["rtags"], case["wcost"], case["rcost"], len(case["key"]),
                    case.get("wform", "dict"), case.get("rform", "dict"))
            found = eval_wallet(case)
            for k, d in found:
                acc.violation(k, d, case)
            acc.outcome(f"wallet:{outcome_of(found)}")
    else:
        raise HarnessError(f"unknown part {part}")
    acc.count(f"{part}_evaluations", acc.evaluations)
    return acc


def wallet_cases(seed, quick):
    cases = []
    for n in (10, 20) if quick else (1, 10, 20, 32, 64):
        key = filler(seed, n, b"wal%d" % n)
        for wtags in WALLET_SETS:
            for wdefault in (None,) + tuple(wtags):
                for rtags in WALLET_SETS:
                    for wcost, rcost in ((4, 4), (4, 5), (6, 4), (0, 0), (0, 3), (3, 0), (1, 0)):
                        for fmt in ("json", "dict"):
                            cases.append({"kind": "wallet", "key": key, "digits": 6 if n != 20 else 8, "wtags": list(wtags),
                                          "wdefault": wdefault, "rtags": list(rtags), "wcost": wcost, "rcost": rcost,
                                          "format": fmt, "seed": seed})
    # every documented way of listing the secrets (mapping / JSON text / 'tag: value' rows / secrets_path file), on the
    # writing and on the reading side, with secrets that contain '#', ':', '=', blanks, quotes, '%', brackets
    key = filler(seed, 20, b"walform")
    for wform in WALLET_FORMS:
        for rform in WALLET_FORMS:
            for tags in WALLET_SETS if not quick else (("1",), ("2", "1"), ("1", "2016-01-01"), ("a.b_c-d", "1", "2")):
                for fmt in ("json", "dict"):
                    cases.append({"kind": "wallet", "key": key, "digits": 6, "wtags": list(tags), "wdefault": None, "rtags": list(tags),
                                  "wcost": 3, "rcost": 3, "format": fmt, "seed": seed, "wform": wform, "rform": rform})
    return cases


def child_run(payload):
    """entry point inside a `python -O` child: the corrupt part again, with assertions disabled"""
    return core.pmap(work, payload["tasks"])


def run(ctx):
    bad = R.self_check()
    if bad:
        raise HarnessError(f"totp reference fails its own vectors: {bad}")
    import passlib.totp as T

    seed = ctx.seed
    s2 = strings(2)
    tasks = []
    # ---- strings
    short = [None] + s2
    if ctx.quick:
        plans = [("plain", s2 + [None], short)]
    else:
        s3 = strings(3)
        only3 = [s for s in s3 if len(s) == 3]
        plans = [("plain", s2 + [None], short), ("plain", only3, short), ("plain", s2, only3),
                 ("all4", s2 + [None], short)]
    for facname, labels, issuers in plans:
        step = 8 if len(issuers) < 1000 else 1
        for i in range(0, len(labels), step):
            tasks.append({"part": "strings", "factory": facname, "labels": labels[i : i + step], "issuers": issuers, "seed": seed,
                          "coarse": any(len(x or "") == 3 for x in (labels[0], issuers[-1]))})
    # ---- configs
    keylens = (1, 10, 16, 20, 21, 32, 64) if ctx.quick else (1, 2, 5, 9, 10, 11, 15, 16, 19, 20, 21, 25, 32, 33, 40, 63, 64)
    periods = (1, 29, 30, 31, 60, 3600) if ctx.quick else (1, 2, 15, 29, 30, 31, 45, 59, 60, 61, 90, 300, 3600, 86400)
    labels = (None, "a", "john doe@ex/%41&b=c+d?#;'\"<é日")
    for n in keylens:
        for alg in R.ALGS:
            tasks.append({"part": "configs", "keylen": n, "alg": alg, "periods": periods, "labels": labels, "seed": seed})
    # every key length 1..64 (every residue of the 5-byte base32 group and of the hex pair) on a thin config grid
    for n in range(1, 65):
        if n in keylens:
            continue
        tasks.append({"part": "configs", "keylen": n, "alg": R.ALGS[n % len(R.ALGS)], "periods": (30, 60), "labels": ("a",), "seed": seed})
    # the digests beyond the usual three that the constructor takes (any digest of at least 20 bytes the host offers):
    # the object is written and read back in every format like any other
    for alg in OTHER_ALGS:
        tasks.append({"part": "configs", "keylen": 20, "alg": alg, "periods": (30, 60), "labels": ("a",), "seed": seed})
    # ---- corruptions
    dp = ((6, 30), (8, 30), (6, 60), (10, 1)) if ctx.quick else ((6, 30), (7, 30), (8, 30), (6, 60), (10, 1), (9, 3600))
    li = (("a", None), ("u@h", "I s/%"), ("é", "日"))
    for n in (10, 20) if ctx.quick else (1, 10, 20, 64):
        for alg in R.ALGS:
            for facs in (("plain", "digits8"), ("issuer", "all4"), ("sha256", "period60")):
                tasks.append({"part": "corrupt", "keylen": n, "alg": alg, "factories": facs, "dp": dp, "li": li, "seed": seed})
    # ---- colon
    colon = []
    for s in [":"] + [a + ":" for a in ALPHABET + (":",)] + [":" + a for a in ALPHABET]:
        if s == s.strip(" "):
            colon.append(s)
    tasks.append({"part": "colon", "texts": colon, "seed": seed})
    # ---- wallet
    provider = ensure_aes()
    w = T.AppWallet({"1": "abcdef", "2": b"\x00\xff"})
    for enc, want in REPO_VECTORS:
        if w.decrypt_key(dict(enc))[0] != want:
            raise HarnessError(f"AES provider {provider} does not decrypt the repository's stored vector {enc}")
    wc = wallet_cases(seed, ctx.quick)
    for chunk in core.chunked(wc, 64):
        tasks.append({"part": "wallet", "cases": chunk, "seed": seed})
    ctx.cov["wallet_clause"] = f"enumerated; AES-256-CTR provided by: {provider}"
    if provider == "stand-in":
        ctx.assume("package 'cryptography' is missing on this host: AES-256-CTR is supplied at passlib.totp._cg_ciphers / "
                   "_cg_default_backend by a pure-Python implementation (mc/refs/aes.py) pinned to FIPS-197 C.1/C.3 and SP 800-38A F.5.5 "
                   "and to the three stored ciphertexts of tests/test_totp.py; the wallet bookkeeping (tags, costs, salts, secrets) "
                   "is the library's own code")
    tasks.sort(key=lambda t: t["part"] != "strings")
    ctx.log(f"{len(tasks)} shards")
    import concurrent.futures

    otasks = [t for t in tasks if t["part"] == "corrupt"]
    with concurrent.futures.ThreadPoolExecutor(1) as ex:
        fut = ex.submit(core.call_in_child, "mc.checks.c15", "child_run", {"tasks": otasks}, True)
        acc = core.pmap(work, tasks)
        acc_o = fut.result()
    ctx.merge(acc)
    ctx.merge(acc_o, part="corrupt-python-O")
    if acc.counters.get("bulk_distinct_cases"):
        ctx.cov["bulk_enumerated_distinct_cases"] = acc.counters["bulk_distinct_cases"]
        ctx.cov["explanation"] = (
            "distinct_nontrivial counts stored class strings; for the 3-symbol label/issuer products one class is stored "
            "per (3-symbol string, class of the other string, format) and bulk_enumerated_distinct_cases counts the cases, "
            "each a distinct (label, issuer, format) input by construction")
    ctx.assume("labels / issuers with leading or trailing blanks are not enumerated: the KeyURI specification lets the reader strip them")
    ctx.assume("reload is demanded for the class that wrote the source (same using() defaults); URIs are additionally read with the "
               "KeyURI defaults by the stock class and by an independent reader; cross-class reload of json/dict is not demanded")
