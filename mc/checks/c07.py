"""C07 -- hash strings parse and re-render without loss.

E1 product: hashers x settings grid x passwords -> generated hash -> from_string/to_string, parsed attributes
== generating settings, parsehash, str/bytes input; accepted alternate encodings (implicit/explicit default
rounds, hex case, config-only strings, dirty bcrypt padding) re-render to a canonical, idempotent, verify-
equivalent form; prefix wrappers wrap/unwrap; libpass inspect_* and PHC records over generated field alphabets.
"""
from __future__ import annotations

import itertools
import warnings

from mc import core
from mc import hashers as HS
from mc.core import Acc

warnings.filterwarnings("ignore")

ID = "C07"
LEVEL = "exploration"
RULE = (
    "product hasher x settings grid (metadata-derived: rounds incl. elided defaults, every salt size, idents, "
    "variants) x 2 passwords x {str, ascii bytes} for generated hashes, plus accepted alternate encodings of each; "
    "libpass inspectors over generated field alphabets; non-trivial = a parser really accepted and re-rendered the "
    "string; distinct class = hasher|settings#|form"
)

HEXISH = ("hex_md4", "hex_md5", "hex_sha1", "hex_sha256", "hex_sha512", "lmhash", "nthash", "msdcc", "msdcc2",
          "mysql41", "mysql323", "oracle10", "oracle11", "mssql2000", "mssql2005", "postgres_md5", "htdigest",
          "ldap_hex_md5", "ldap_hex_sha1", "django_salted_md5", "django_salted_sha1", "cisco_type7", "bsd_nthash", "grub_pbkdf2_sha512")


def is_wrapper(name):
    return type(HS.handler(name)).__name__ == "PrefixWrapper"


def canon_ident(H, ident):
    if ident is None:
        return None
    al = getattr(H, "ident_aliases", None) or {}
    if ident in al:
        return al[ident]
    return ident


def attr_checks(name, H, rec, settings):
    """compare the parsed record with the settings the hash was generated with"""
    out = []
    for k, v in settings.items():
        if k == "salt":
            got = getattr(rec, "salt", None)
            if name == "scrypt" and settings.get("ident") == "$7$":
                pass
            if got != v:
                out.append(("salt", f"parsed salt {got!r} != generating salt {v!r}"))
        elif k == "rounds":
            got = getattr(rec, "rounds", None)
            want = v
            if HS.base_name(name) == "bsdi_crypt" and v % 2 == 0:
                continue
            if got != want:
                out.append(("rounds", f"parsed rounds {got!r} != generating rounds {want!r}"))
        elif k == "ident":
            got = getattr(rec, "ident", None)
            want = canon_ident(H, v)
            if got != want and canon_ident(H, got) != want:
                out.append(("ident", f"parsed ident {got!r} != generating ident {want!r}"))
        elif k in ("variant", "version", "block_size", "parallelism", "marker"):
            got = getattr(rec, k, None)
            if k == "variant" and got != v:
                # aliases allowed (fshp variant names)
                if str(got) != str(v):
                    out.append((k, f"parsed {k} {got!r} != generating {v!r}"))
            elif k != "variant" and k != "marker" and got != v:
                out.append((k, f"parsed {k} {got!r} != generating {v!r}"))
        elif k == "algs":
            got = getattr(rec, "algs", None)
            want = sorted(a.strip() for a in v.split(","))
            if got is None or sorted(got) != want:
                out.append((k, f"parsed algs {got!r} != generating {want!r}"))
    return out


def eval_generated(case):
    name, settings, p, form = case["hasher"], dict(case["settings"] or {}), case["password"], case["form"]
    ctx = dict(case.get("ctx") or {})
    H = HS.handler(name)
    out = []
    key = f"C07|{name}|"
    try:
        Hc = H.using(**settings) if settings else H
        h = Hc.hash(p, **ctx)
    except Exception:  # noqa: BLE001
        return []  # generation problems belong to C01
    inp = h if form == "str" else h.encode("ascii") if h.isascii() else None
    if inp is None:
        return []
    # the update check reads the same settings out of the string: it must answer for both input forms, alike
    if hasattr(H, "needs_update"):
        try:
            a, b = Hc.needs_update(h), Hc.needs_update(inp)
            if bool(a) != bool(b):
                out.append((key + f"needs_update:differs:{form}", f"needs_update({h!r}) = {a!r} but needs_update({inp!r}) = {b!r}"))
            elif a:
                out.append((key + "needs_update:own_fresh_hash", f"{name}.using(**{settings!r}).needs_update() is True for the hash it has just made: {h!r}"))
        except Exception as e:  # noqa: BLE001
            out.append((key + f"needs_update_raises:{type(e).__name__}:{form}", f"needs_update({inp!r}) raised {e!r} for a hash the hasher just made"))
    if is_wrapper(name):
        W = H.wrapped
        try:
            u = H._unwrap_hash(h)
            back = H._wrap_hash(u)
        except Exception as e:  # noqa: BLE001
            return [(key + f"wrapper:unwrap_raises:{type(e).__name__}", f"_unwrap_hash({h!r}) raised {e!r}")]
        if back != h:
            out.append((key + "wrapper:wrap_unwrap", f"wrap(unwrap({h!r})) = {back!r}"))
        try:
            if not W.identify(u):
                out.append((key + "wrapper:inner_identify", f"wrapped hasher does not identify the unwrapped string {u!r}"))
            if not hasattr(W, "from_string"):
                if W.verify(p, u, **ctx) is not True or H.verify(p, inp, **ctx) is not True or not H.identify(inp):
                    out.append((key + "wrapper:verify", f"wrapper / wrapped hasher disagree on {h!r}"))
                return out
            rec = W.from_string(u)
            if rec.to_string() != u:
                out.append((key + "wrapper:inner_roundtrip", f"{W.name}.from_string({u!r}).to_string() = {rec.to_string()!r}"))
            inner_settings = dict(settings)
            for a, d in attr_checks(W.name, W, rec, inner_settings):
                out.append((key + f"wrapper:attr:{a}", d + f" (hash {h!r})"))
            if W.verify(p, u, **ctx) is not True:
                out.append((key + "wrapper:inner_verify", f"wrapped hasher does not verify the unwrapped string {u!r}"))
            if not H.identify(inp):
                out.append((key + f"wrapper:identify:{form}", f"identify({inp!r}) False"))
            if H.verify(p, inp, **ctx) is not True:
                out.append((key + f"wrapper:verify:{form}", f"verify(p, {inp!r}) not True"))
        except Exception as e:  # noqa: BLE001
            out.append((key + f"wrapper:raises:{type(e).__name__}", f"raised {e!r} on {h!r}"))
        return out
    if not hasattr(H, "from_string"):
        # no record API (plaintext family, htdigest, unix_disabled): identify/verify/genhash-level round trip only
        try:
            if not H.identify(inp):
                out.append((key + f"identify:{form}", f"identify({inp!r}) False"))
        except Exception as e:  # noqa: BLE001
            out.append((key + f"identify_raises:{type(e).__name__}", f"raised {e!r}"))
        return out
    try:
        rec = H.from_string(inp)
    except Exception as e:  # noqa: BLE001
        return [(key + f"from_string_raises:{type(e).__name__}:{form}", f"from_string({inp!r}) raised {e!r} on a hash the hasher just made")]
    try:
        s = rec.to_string()
    except Exception as e:  # noqa: BLE001
        return [(key + f"to_string_raises:{type(e).__name__}", f"from_string({inp!r}).to_string() raised {e!r}")]
    if s != h:
        out.append((key + f"roundtrip:{form}", f"from_string({inp!r}).to_string() = {s!r}"))
    if rec.checksum is None:
        out.append((key + "checksum_lost", f"parsed record of {h!r} has no checksum"))
    for a, d in attr_checks(name, H, rec, settings):
        out.append((key + f"attr:{a}", d + f" (hash {h!r})"))
    # parsehash agrees with the record
    try:
        ph = H.parsehash(inp)
        for k, v in ph.items():
            if k == "checksum":
                if v != rec.checksum:
                    out.append((key + "parsehash:checksum", f"parsehash checksum {v!r} != record {rec.checksum!r}"))
            elif getattr(rec, k, None) != v:
                out.append((key + f"parsehash:{k}", f"parsehash[{k}]={v!r} != record attribute {getattr(rec, k, None)!r}"))
        for k in ("salt", "rounds", "ident"):
            if k in settings and k in getattr(H, "setting_kwds", ()) and k not in ph:
                dv = getattr(H, k, getattr(H, "default_" + k, None))
                if getattr(rec, k) != dv:
                    out.append((key + f"parsehash:missing:{k}", f"parsehash omits {k} although {getattr(rec, k)!r} is not the class default"))
    except Exception as e:  # noqa: BLE001
        out.append((key + f"parsehash_raises:{type(e).__name__}", f"parsehash({inp!r}) raised {e!r}"))
    # same verdicts through the re-rendered string
    try:
        for q in (p, "other" if p != "other" else "other2"):
            a, b = H.verify(q, h, **ctx), H.verify(q, s, **ctx)
            if a != b:
                out.append((key + "verdict_changed", f"verify({q!r}) differs between {h!r} and re-rendered {s!r}"))
    except Exception as e:  # noqa: BLE001
        out.append((key + f"verify_raises:{type(e).__name__}", f"raised {e!r}"))
    return out


# ---------------------------------------------------------------------------
# alternate encodings of a generated hash
# ---------------------------------------------------------------------------
def alternates(name, h, settings):
    """[(label, alt, documented_canonical or None)] well-formed alternates the docs say are accepted"""
    b = HS.base_name(name)
    alts = []
    if name in ("sha256_crypt", "sha512_crypt"):
        pre = h[:3]
        rest = h[3:]
        if rest.startswith("rounds=5000$"):
            alts.append(("implicit5000", pre + rest[len("rounds=5000$"):], None))
        elif not rest.startswith("rounds="):
            alts.append(("explicit5000", pre + "rounds=5000$" + rest, None))
    if name in HEXISH and not is_wrapper(name):
        up, lo = h.upper(), h.lower()
        # only the hex digest part may change case: derive by swapping case of hex letters after the last separator
        for sep in ("$", ":", "}", "*", None):  # ('*' leads a mysql41 hash)
            if sep is None:
                head, tail = "", h
            elif sep in h:
                i = h.rindex(sep) + 1
                head, tail = h[:i], h[i:]
            else:
                continue
            if tail and all(c in "0123456789abcdefABCDEF" for c in tail):
                sw = head + (tail.upper() if tail != tail.upper() else tail.lower())
                if sw != h:
                    alts.append(("hexcase", sw, None))
                break
    if b == "bcrypt" and name == "bcrypt":
        # dirty padding bits in the last salt char: documented to be repaired
        i = h.rindex("$") + 1 + 21
        ch = h[i]
        from mc.refs import b64 as R

        v = R.BCRYPT.index(ch)
        alts.append(("dirty_padding", h[:i] + R.BCRYPT[v | 1] + h[i + 1 :], "repair"))
        # ... and in the last DIGEST char (31 chars = 186 bits for 184: two unused bits)
        v2 = R.BCRYPT.index(h[-1])
        alts.append(("dirty_padding", h[:-1] + R.BCRYPT[v2 | 1], "repair"))
        alts.append(("dirty_padding", h[:i] + R.BCRYPT[v | 2] + h[i + 1 : -1] + R.BCRYPT[v2 | 3], "repair"))
    return alts


def eval_alternate(case):
    name, settings, p = case["hasher"], dict(case["settings"] or {}), case["password"]
    ctx = dict(case.get("ctx") or {})
    H = HS.handler(name)
    out = []
    key = f"C07|{name}|alt:"
    try:
        Hc = H.using(**settings) if settings else H
        h = Hc.hash(p, **ctx)
    except Exception:  # noqa: BLE001
        return []
    for label, alt, doc in alternates(name, h, settings):
        try:
            if not H.identify(alt):
                continue  # not accepted: nothing to round-trip
            rec = H.from_string(alt)
            s = rec.to_string()
        except ValueError:
            continue
        except Exception as e:  # noqa: BLE001
            out.append((key + f"{label}:raises:{type(e).__name__}", f"from_string({alt!r}) raised {e!r}"))
            continue
        try:
            s2 = H.from_string(s).to_string()
            if s2 != s:
                out.append((key + f"{label}:not_idempotent", f"{alt!r} -> {s!r} -> {s2!r}"))
            if label in ("implicit5000", "explicit5000") and s != alt:
                out.append((key + f"{label}:form_lost", f"from_string({alt!r}).to_string() = {s!r}"))
            if label == "hexcase" and s.lower() != alt.lower():
                out.append((key + f"{label}:changed", f"{alt!r} re-rendered as {s!r}"))
            if label == "dirty_padding" and s != h:
                out.append((key + f"{label}:repair", f"{alt!r} re-rendered as {s!r}, canonical is {h!r}"))
            if label == "dirty_padding" and hasattr(H, "normhash"):
                # the documented helper for exactly this normalisation, text and bytes
                for form, a in (("str", alt), ("bytes", alt.encode("ascii"))):
                    n = H.normhash(a)
                    n = n.decode("ascii") if isinstance(n, bytes) else n
                    if n != h:
                        out.append((key + f"{label}:normhash:{form}", f"normhash({a!r}) = {n!r}, canonical is {h!r}"))
            for q in (p, "other"):
                va, vs = H.verify(q, alt, **ctx), H.verify(q, s, **ctx)
                if va != vs:
                    out.append((key + f"{label}:verdict_changed", f"verify({q!r}) differs between {alt!r} and {s!r}"))
            if label in ("implicit5000", "explicit5000", "hexcase", "dirty_padding") and H.verify(p, alt, **ctx) is not True:
                out.append((key + f"{label}:own_false", f"documented equivalent encoding {alt!r} of {h!r} does not verify its password"))
        except Exception as e:  # noqa: BLE001
            out.append((key + f"{label}:raises2:{type(e).__name__}", f"raised {e!r} on {alt!r}"))
    # config-only string (settings without digest): parse -> render keeps the settings
    if hasattr(H, "from_string") and not is_wrapper(name) and hasattr(H, "genconfig"):
        try:
            rec = H.from_string(h)
            rec.checksum = None
            cfg = rec.to_string()
        except Exception:  # noqa: BLE001
            cfg = None
        if cfg and cfg != h:
            try:
                ok = H.identify(cfg)
                rec2 = H.from_string(cfg) if ok else None
            except ValueError:
                rec2 = None
            except Exception as e:  # noqa: BLE001
                out.append((key + f"config:raises:{type(e).__name__}", f"from_string({cfg!r}) raised {e!r}"))
                rec2 = None
            if rec2 is not None:
                if rec2.checksum is not None:
                    out.append((key + "config:phantom_checksum", f"config string {cfg!r} parsed with a checksum {rec2.checksum!r}"))
                s = rec2.to_string()
                if s != cfg:
                    out.append((key + "config:roundtrip", f"from_string({cfg!r}).to_string() = {s!r}"))
                for a, d in attr_checks(name, H, rec2, settings):
                    out.append((key + f"config:attr:{a}", d + f" (config {cfg!r})"))
    return out


# ---------------------------------------------------------------------------
# special forms not reachable through hash(): sun_md5_crypt, dlitz, cta hex rounds ...
# ---------------------------------------------------------------------------
def special_strings():
    out = []
    from passlib.hash import dlitz_pbkdf2_sha1, sun_md5_crypt

    # sun_md5_crypt: $md5$salt$chk, $md5$salt$$chk (bare_salt False/True), with ,rounds=
    for rounds in (0, 1, 5):
        for salt in ("", "a", "abcdefgh", "a.b/cdEFGH12"):
            for bare in (False, True):
                try:
                    rec = sun_md5_crypt(salt=salt, rounds=rounds, bare_salt=bare, use_defaults=False,
                                        checksum="x" * 22)
                    rec.checksum = sun_md5_crypt(salt=salt, rounds=rounds, bare_salt=bare)._calc_checksum("pw")
                    out.append(("sun_md5_crypt", f"bare={bare},rounds={'0' if not rounds else 'n'},salt={'empty' if not salt else 'set'}",
                                rec.to_string(), "pw", {"salt": salt, "rounds": rounds, "bare_salt": bare}))
                except Exception:  # noqa: BLE001
                    continue
    for rounds in (400, 1, 1000):
        for salt in ("", "ab", "abcdefgh"):
            try:
                h = dlitz_pbkdf2_sha1.using(rounds=rounds, salt=salt).hash("pw")
                out.append(("dlitz_pbkdf2_sha1", f"rounds={'400' if rounds == 400 else 'n'},salt={'empty' if not salt else 'set'}", h, "pw",
                            {"salt": salt, "rounds": rounds}))
            except Exception:  # noqa: BLE001
                continue
    return out


def eval_special(case):
    name, h, p, settings = case["hasher"], case["hash"], case["password"], case["settings"]
    H = HS.handler(name)
    key = f"C07|{name}|special:{case['label']}:"
    out = []
    try:
        if not H.identify(h):
            return [(key + "identify", f"identify({h!r}) False for a string rendered by the hasher's own record")]
        rec = H.from_string(h)
        s = rec.to_string()
        if s != h:
            out.append((key + "roundtrip", f"from_string({h!r}).to_string() = {s!r}"))
        for k, v in settings.items():
            if getattr(rec, k, None) != v:
                out.append((key + f"attr:{k}", f"parsed {k}={getattr(rec, k, None)!r}, rendered from {v!r} ({h!r})"))
        if H.verify(p, h) is not True:
            out.append((key + "verify", f"verify({p!r}, {h!r}) not True"))
        if H.verify(p + "x", h):
            out.append((key + "verify_wrong", f"verify(wrong, {h!r}) True"))
    except Exception as e:  # noqa: BLE001
        out.append((key + f"raises:{type(e).__name__}", f"raised {e!r} on {h!r}"))
    return out


# ---------------------------------------------------------------------------
# libpass inspectors
# ---------------------------------------------------------------------------
def libpass_strings(quick, seed):
    """well-formed strings over generated field alphabets: (kind, label, string)"""
    out = []
    h64 = "./0123456789ABCDEFGHIJKLMNOPQRSTUVWXYZabcdefghijklmnopqrstuvwxyz"

    def walk(n, off=0, alpha=h64):
        return "".join(alpha[(seed + off + i * 7) % len(alpha)] for i in range(n))

    for pre, dl in (("5", 43), ("6", 86)):
        for saltn in range(1, 17):
            for rounds in (None, 1000, 5000, 5001, 999999999, 535000):
                r = "" if rounds is None else f"rounds={rounds}$"
                out.append((f"sha{pre}", f"rounds={'none' if rounds is None else 'set'}", f"${pre}${r}{walk(saltn, saltn)}${walk(dl, 3)}"))
    b64c = "./ABCDEFGHIJKLMNOPQRSTUVWXYZabcdefghijklmnopqrstuvwxyz0123456789"
    for pre in ("2a", "2b", "2y"):
        for rounds in (4, 5, 9, 10, 12, 31):
            for k in range(4):
                out.append(("bcrypt", f"prefix={pre}", f"${pre}${rounds:02d}${walk(21, k, b64c)}{'.Oeu'[k]}{walk(31, k + 5, b64c)}"))
    ab64 = "ABCDEFGHIJKLMNOPQRSTUVWXYZabcdefghijklmnopqrstuvwxyz0123456789./"
    for dg, dl in (("pbkdf2-sha256", 43), ("pbkdf2-sha512", 86)):
        for rounds in (1, 10, 29000, 600000, 4294967295):
            for saltn in (2, 3, 11, 22, 43):
                out.append((dg, "std", f"${dg}${rounds}${walk(saltn, saltn, ab64)}${walk(dl, 1, ab64)}"))
    for t in ("2a", "2b"):
        for r in (4, 5, 12, 31):
            for k in range(3):
                out.append(("phc-bcrypt-sha256", f"t={t}", f"$bcrypt-sha256$v=2,t={t},r={r}${walk(21, k, b64c)}{'.Oeu'[k]}${walk(31, k + 2, b64c)}"))
    for idn in ("argon2id", "argon2i", "argon2d"):
        for m, t, p in ((8, 1, 1), (65536, 3, 4), (19456, 2, 1)):
            for saltn in (11, 22, 43):
                out.append(("phc-argon2", f"id={idn}", f"${idn}$v=19$m={m},t={t},p={p}${walk(saltn, 1, ab64[:62])}${walk(43, 9, ab64[:62])}"))
    # the optional PHC version segment: elided, and every other value than the definition's.  These strings are
    # well-formed PHC; whether a definition accepts them is its business, but IF it does, it must give them back
    # unchanged (a version-less Argon2 string denotes v=0x10, not v=19)
    for idn in ("argon2id", "argon2i", "argon2d"):
        for ver in ("", "$v=16", "$v=18", "$v=20", "$v=1"):
            for m, t, p in ((8, 1, 1), (65536, 3, 4)):
                out.append(("phc-maybe-argon2", f"id={idn},v={ver[3:] or 'none'}", f"${idn}{ver}$m={m},t={t},p={p}${walk(22, 1, ab64[:62])}${walk(43, 9, ab64[:62])}"))
    for ver in ("$v=2", "$v=1", "$v=19"):
        for t in ("2a", "2b"):
            out.append(("phc-maybe-bcrypt-sha256", f"t={t},v={ver[3:]}", f"$bcrypt-sha256{ver}$v=2,t={t},r=12${walk(21, 2, b64c)}O${walk(31, 4, b64c)}"))
    return out


def eval_libpass(case):
    kind, s = case["kind"], case["string"]
    from libpass.inspect import bcrypt as IB
    from libpass.inspect import pbkdf2 as IP
    from libpass.inspect import sha_crypt as IS
    from libpass.inspect.phc import inspect_phc
    from libpass.inspect.phc.defs import Argon2PHC, BcryptSHA256PHCV2

    key = f"C07|libpass_inspect:{kind}|{case['label']}:"
    try:
        if kind == "sha5":
            info = IS.inspect_sha_crypt(s, IS.SHA256CryptInfo)
        elif kind == "sha6":
            info = IS.inspect_sha_crypt(s, IS.SHA512CryptInfo)
        elif kind == "bcrypt":
            info = IB.inspect_bcrypt_hash(s)
        elif kind == "pbkdf2-sha256":
            info = IP.inspect_pbkdf2_hash(s, IP.PBKDF2SHA256CryptInfo)
        elif kind == "pbkdf2-sha512":
            info = IP.inspect_pbkdf2_hash(s, IP.PBKDF2SHA512CryptInfo)
        elif kind == "phc-bcrypt-sha256":
            info = inspect_phc(s, BcryptSHA256PHCV2)
        elif kind == "phc-argon2":
            info = inspect_phc(s, Argon2PHC)
        elif kind.startswith("phc-maybe"):
            infos = [inspect_phc(s, d) for d in (Argon2PHC, BcryptSHA256PHCV2, [Argon2PHC, BcryptSHA256PHCV2], [BcryptSHA256PHCV2, Argon2PHC])]
            out = []
            for info in infos:
                if info is None:
                    continue
                back = info.as_str()
                if back != s:
                    out.append((key + "roundtrip", f"inspect_phc({s!r}) is accepted as {type(info).__name__} but as_str() = {back!r}"))
                    break
            return out
        else:
            raise core.HarnessError(kind)
    except core.HarnessError:
        raise
    except Exception as e:  # noqa: BLE001
        return [(key + f"raises:{type(e).__name__}", f"inspecting {s!r} raised {e!r}")]
    if info is None:
        return [(key + "rejected", f"well-formed string {s!r} is not recognised by its inspector")]
    try:
        back = info.as_str()
    except Exception as e:  # noqa: BLE001
        return [(key + f"as_str_raises:{type(e).__name__}", f"as_str() raised {e!r} for {s!r}")]
    out = []
    if back != s:
        out.append((key + "roundtrip", f"inspect({s!r}).as_str() = {back!r}"))
    # field equality with the generating fields
    parts = s.split("$")
    if kind in ("sha5", "sha6"):
        has_r = parts[2].startswith("rounds=")
        want_r = int(parts[2][7:]) if has_r else None
        salt, dg = (parts[3], parts[4]) if has_r else (parts[2], parts[3])
        if info.rounds != want_r or info.salt != salt or info.hash != dg:
            out.append((key + "fields", f"fields {info!r} differ from the generating fields of {s!r}"))
    elif kind == "bcrypt":
        if info.prefix != parts[1] or info.rounds != int(parts[2]) or info.salt + info.hash != parts[3]:
            out.append((key + "fields", f"fields {info!r} differ from {s!r}"))
    elif kind.startswith("pbkdf2"):
        if info.rounds != int(parts[2]) or info.salt != parts[3] or info.hash != parts[4]:
            out.append((key + "fields", f"fields {info!r} differ from {s!r}"))
    return out


# ---------------------------------------------------------------------------
# synthetic records: integer settings swept across the digit boundaries of their text encodings
# (no digest is computed: the seed's checksum is kept, only parse/render symmetry is examined)
# ---------------------------------------------------------------------------
INT_BOUNDARIES = sorted({0, 1, 2, 7, 8, 9, 10, 15, 16, 31, 32, 63, 64, 65, 99, 100, 255, 256, 999, 1000, 4095, 4096, 4097,
                         5000, 9999, 10000, 65535, 65536, 99999, 100000, 262143, 262144, 999999, 1000000,
                         (1 << 24) - 1, 1 << 24, (1 << 24) + 5, 99999999, (1 << 30) - 1, (1 << 31) - 1, (1 << 32) - 1,
                         999999999, 266240})


def int_attrs(name):
    H = HS.handler(name)
    out = []
    sk = getattr(H, "setting_kwds", ())
    if "rounds" in sk:
        mn, mx = H.min_rounds, H.max_rounds
        out.append(("rounds", [v for v in INT_BOUNDARIES if mn <= v <= (mx if mx is not None else v)]))
    if name == "scrypt":
        vals = [v for v in INT_BOUNDARIES if 1 <= v < (1 << 30)]
        out.append(("block_size", vals))
        out.append(("parallelism", vals))
    if name == "cisco_type7":
        out.append(("salt", list(range(0, 53))))
    return out


def eval_synthetic(case):
    name, settings, attr, v = case["hasher"], dict(case["settings"] or {}), case["attr"], case["value"]
    H = HS.handler(name)
    key = f"C07|{name}|synthetic:{attr}:"
    try:
        Hc = H.using(**settings) if settings else H
        h = Hc.hash("pw", **(case.get("ctx") or {}))
        rec = H.from_string(h)
    except Exception:  # noqa: BLE001
        return []
    if name == "scrypt":
        # keep r*p within the format's limit while one of them is swept
        other = "parallelism" if attr == "block_size" else "block_size"
        if attr in ("block_size", "parallelism"):
            setattr(rec, other, 1)
    try:
        setattr(rec, attr, v)
        s = rec.to_string()
    except Exception:  # noqa: BLE001
        return []  # the record refuses the value: nothing rendered, nothing to round-trip
    out = []
    try:
        if not H.identify(s):
            return []
        rec2 = H.from_string(s)
    except ValueError:
        return []  # rendered but not accepted back: no claim about unaccepted strings
    except Exception as e:  # noqa: BLE001
        return [(key + f"raises:{type(e).__name__}", f"from_string({s!r}) raised {e!r}")]
    got = getattr(rec2, attr, None)
    if got != v:
        out.append((key + "value", f"{attr}={v} rendered as {s!r} parses back as {attr}={got!r}"))
    try:
        s2 = rec2.to_string()
        if s2 != s:
            out.append((key + "roundtrip", f"from_string({s!r}).to_string() = {s2!r}"))
    except Exception as e:  # noqa: BLE001
        out.append((key + f"to_string_raises:{type(e).__name__}", f"raised {e!r}"))
    for a in ("salt", "checksum", "rounds", "block_size", "parallelism", "ident"):
        if a != attr and hasattr(rec, a) and getattr(rec2, a, None) != getattr(rec, a):
            out.append((key + f"other:{a}", f"sweeping {attr}={v} changed parsed {a}: {getattr(rec, a)!r} -> {getattr(rec2, a, None)!r} ({s!r})"))
    return out


# ---------------------------------------------------------------------------
# the PHC field codec exported next to the PHC records (libpass.inspect.phc.phc_b64_encode / phc_b64_decode):
# unpadded URL-safe base64 (RFC 4648 section 5) of the UTF-8 octets of a text value, and back without loss
# ---------------------------------------------------------------------------
_URLSAFE = "ABCDEFGHIJKLMNOPQRSTUVWXYZabcdefghijklmnopqrstuvwxyz0123456789-_"
PHC_B64_ALPHABET = ("a", "Z", "0", "~", "?", ">", "\u00ff", "\u00e9", "\u20ac", "\u5bc6", "\U0001d11e", "\x00", " ", "=")


def _urlsafe_ref(data):
    bits = "".join(f"{b:08b}" for b in data)
    bits += "0" * (-len(bits) % 6)
    return "".join(_URLSAFE[int(bits[i:i + 6], 2)] for i in range(0, len(bits), 6))


def phc_b64_values(quick):
    import itertools

    vals = [""]
    for n in (1, 2) if quick else (1, 2, 3):
        vals += ["".join(t) for t in itertools.product(PHC_B64_ALPHABET, repeat=n)]
    vals += ["x" * n for n in range(3, 20)] + ["\u00e9" * n for n in range(2, 9)] + ["t\u00e1ble", "\u5bc6\u7801", "\u20ac100", "na\u00efve caf\u00e9"]
    return vals


def eval_phc_b64(case):
    from libpass.inspect import phc as P

    v = case["string"]
    out = []
    try:
        enc = P.phc_b64_encode(v)
    except Exception as e:  # noqa: BLE001
        return [(f"C07|phc_b64|encode:raises:{type(e).__name__}", f"phc_b64_encode({v!r}) raised {e!r}")]
    want = _urlsafe_ref(v.encode("utf-8"))
    if enc != want:
        out.append(("C07|phc_b64|encode:value", f"phc_b64_encode({v!r}) = {enc!r}; unpadded URL-safe base64 of its UTF-8 octets is {want!r}"))
    try:
        back = P.phc_b64_decode(want)
    except Exception as e:  # noqa: BLE001
        out.append((f"C07|phc_b64|decode:raises:{type(e).__name__}", f"phc_b64_decode({want!r}) [= encoding of {v!r}] raised {e!r}"))
        return out
    if back != v:
        out.append(("C07|phc_b64|roundtrip:" + ("ascii" if v.isascii() else "non_ascii"), f"phc_b64_decode(phc_b64_encode({v!r})) = {back!r}"))
    return out


EVALS = {"phc_b64": eval_phc_b64, "synthetic": eval_synthetic, "generated": eval_generated, "alternate": eval_alternate, "special": eval_special, "libpass": eval_libpass}


def eval_configured_reader(case):
    """a hasher customised with using() still READS every well-formed hash of its format: a hash made under settings A,
    parsed by the hasher configured with settings B, re-renders to itself, reports A's settings and verifies"""
    name, A, B, p = case["hasher"], dict(case["made_with"] or {}), dict(case["reader"] or {}), case["password"]
    ctx = dict(case.get("ctx") or {})
    H = HS.handler(name)
    key = f"C07|{name}|configured_reader:"
    out = []
    try:
        h = (H.using(**A) if A else H).hash(p, **ctx)
        R = H.using(**B) if B else H
    except Exception:  # noqa: BLE001
        return []
    diff = "+".join(sorted(k for k in set(A) | set(B) if A.get(k) != B.get(k))) or "same"
    for form, inp in (("str", h), ("bytes", h.encode("ascii") if h.isascii() else None)):
        if inp is None:
            continue
        try:
            if not R.identify(inp):
                out.append((key + f"identify:{diff}", f"{name}.using(**{B!r}).identify({inp!r}) is False (made with {A!r})"))
            ok, bad = R.verify(p, inp, **ctx), R.verify(p + "x", inp, **ctx)
            if (ok is not True and name not in HS.DISABLED) or bad is not False:
                out.append((key + f"verify:{diff}", f"{name}.using(**{B!r}).verify(right / wrong, {inp!r}) = {ok!r} / {bad!r} (made with {A!r})"))
            if hasattr(R, "from_string") and not is_wrapper(name):
                rec = R.from_string(inp)
                s2 = rec.to_string()
                if s2 != h:
                    out.append((key + f"roundtrip:{diff}", f"{name}.using(**{B!r}).from_string({inp!r}).to_string() = {s2!r}"))
                for a, d in attr_checks(name, H, rec, A):
                    out.append((key + f"attr:{a}:{diff}", d + f" (hash {h!r} read by using(**{B!r}))"))
                if hasattr(R, "genhash"):
                    g = R.genhash(p, inp, **ctx)
                    if g != h:
                        out.append((key + f"genhash:{diff}", f"{name}.using(**{B!r}).genhash(p, {inp!r}) = {g!r}"))
        except Exception as e:  # noqa: BLE001
            out.append((key + f"raises:{type(e).__name__}:{diff}", f"{name}.using(**{B!r}) on {inp!r} (made with {A!r}) raised {e!r}"))
    return out


def config_candidates(H, h):
    """strings that may be the config-only form of hash h: h without the text of its digest, with and without the
    separator in front of it (read off the string; the parser under test only says which of them it ACCEPTS)"""
    try:
        chk = H.from_string(h).checksum
    except Exception:  # noqa: BLE001
        return []
    cands = []
    if isinstance(chk, str) and chk and h.endswith(chk):
        cands.append(h[: -len(chk)])
    else:
        # ('.' separates fields in the grub format only; elsewhere it is a base64 symbol)
        for sep in "$,:|}" + ("." if h.startswith("grub.") else ""):
            if sep in h:
                cands.append(h[: h.rindex(sep) + 1])
    cands += [c[:-1] for c in list(cands) if c and c[-1] in "$,:|" + ("." if h.startswith("grub.") else "")]
    prim = [c for c in dict.fromkeys(cands) if c and c != h]
    # secondary candidates: every prefix that ends at (or just before) a field separator -- shorter config forms such as
    # 'crypt$ab' of 'crypt$ab$abDIGEST'.  They may drop more than the digest, so only stability is demanded of them
    sec = []
    for i, ch in enumerate(h):
        if ch in "$,:|}" + ("." if h.startswith("grub.") else ""):
            sec += [h[:i], h[: i + 1]]
    return prim + [("secondary", c) for c in dict.fromkeys(sec) if c and c != h and c not in prim]


def eval_config_only(case):
    """a config-only string the hasher accepts (settings without a digest) re-renders to a config-only string that it
    accepts again, with the same settings and the same genhash() result -- never to the text 'None', never an error"""
    name, st, p = case["hasher"], dict(case["settings"] or {}), case["password"]
    ctx = dict(case.get("ctx") or {})
    H = HS.handler(name)
    key = f"C07|{name}|config_only:"
    out = []
    try:
        h = (H.using(**st) if st else H).hash(p, **ctx)
    except Exception:  # noqa: BLE001
        return []
    for c in config_candidates(H, h):
        secondary = isinstance(c, tuple)
        if secondary:
            c = c[1]
        for form, inp in (("str", c), ("bytes", c.encode("ascii") if c.isascii() else None)):
            if inp is None:
                continue
            try:
                rec = H.from_string(inp)
            except Exception:  # noqa: BLE001 - not accepted as a config string: nothing to demand
                continue
            if rec.checksum is not None:
                continue
            try:
                s2 = rec.to_string()
            except Exception as e:  # noqa: BLE001
                out.append((key + f"to_string_raises:{type(e).__name__}", f"{name}.from_string({inp!r}).to_string() raised {e!r}"))
                continue
            try:
                rec2 = H.from_string(s2)
            except Exception as e:  # noqa: BLE001
                out.append((key + "rerendered_not_accepted", f"{name}.from_string({inp!r}).to_string() = {s2!r}, which from_string() refuses ({e!r})"))
                continue
            if rec2.checksum is not None or rec2.to_string() != s2:
                out.append((key + "rerendered_unstable", f"{name}: {inp!r} -> {s2!r} -> {rec2.to_string()!r} (digest {rec2.checksum!r})"))
            for a in ("salt", "rounds", "ident", "variant", "version", "block_size", "parallelism", "algs", "bare_salt"):
                if getattr(rec2, a, None) != getattr(rec, a, None):
                    out.append((key + f"attr:{a}", f"{name}: {inp!r} parses to {a}={getattr(rec, a, None)!r}, its re-rendering {s2!r} to {getattr(rec2, a, None)!r}"))
            if hasattr(H, "genhash"):
                try:
                    g1, g2 = H.genhash(p, inp, **ctx), H.genhash(p, s2, **ctx)
                    if g1 != g2 or (g1 != h and not secondary):
                        out.append((key + "genhash", f"{name}.genhash(p, {inp!r}) = {g1!r}, genhash(p, {s2!r}) = {g2!r}, hash() under the same settings {h!r}"))
                except Exception as e:  # noqa: BLE001
                    out.append((key + f"genhash_raises:{type(e).__name__}", f"{name}.genhash(p, {inp!r} / {s2!r}) raised {e!r}"))
    return out


def eval_libpass_produced(case):
    """what a libpass hasher PRODUCES -- also from a salt crypt(3) itself would not write (blanks, ':' ...) -- its inspector
    reads back: not None, the salt and cost it was made with, re-rendered to the same string"""
    from libpass.hashers import sha_crypt as LS
    from libpass.inspect import sha_crypt as IS

    kind, salt, rounds = case["kind"], case["salt"], case["rounds"]
    hz, info_cls = (LS.SHA256Hasher, IS.SHA256CryptInfo) if kind == "sha5" else (LS.SHA512Hasher, IS.SHA512CryptInfo)
    key = f"C07|libpass_inspect:{kind}|produced:"
    try:
        h = hz(rounds=rounds).hash("pw", salt=salt)
    except (ValueError, TypeError):
        return []  # a salt the hasher does not take
    try:
        info = IS.inspect_sha_crypt(h, info_cls)
    except Exception as e:  # noqa: BLE001
        return [(key + f"raises:{type(e).__name__}", f"inspect_sha_crypt({h!r}) raised {e!r} on a hash the hasher just made")]
    if info is None:
        return [(key + "not_recognised", f"the inspector does not read {h!r}, which the hasher has just made from salt {salt!r}")]
    out = []
    if info.as_str() != h:
        out.append((key + "as_str", f"inspect({h!r}).as_str() = {info.as_str()!r}"))
    if info.salt != salt or (info.rounds or 5000) != rounds:
        out.append((key + "fields", f"inspect({h!r}) reports salt {info.salt!r} / rounds {info.rounds!r}; made with {salt!r} / {rounds}"))
    return out


EVALS["libpass_produced"] = eval_libpass_produced
EVALS["config_only"] = eval_config_only
EVALS["configured_reader"] = eval_configured_reader


def replay(case):
    return EVALS[case["part"]](case)


def work(task):
    acc = Acc()
    for case in task["cases"]:
        acc.ev()
        part = case["part"]
        acc.cls(part, case.get("hasher") or case.get("kind"), case.get("si"), case.get("form") or case.get("label"), case.get("pi"))
        acc.axis("part", part)
        acc.axis("component", case.get("hasher") or case.get("kind"))
        vs = EVALS[part](case)
        acc.outcome((part, bool(vs)))
        for key, desc in vs:
            acc.violation(key, desc, case)
        if acc.evaluations % 301 == 1:
            acc.sample(case)
    return acc


def run(ctx):
    cases = []
    pws = ["pw", "pässwörd €"]
    for name in HS.usable_names():
        slow = name in HS.SLOW
        # parsing is cheap: the FULL settings grid is walked in both tiers (slow hashers: quick grid in quick tier)
        grid = HS.settings_grid(name, ctx.quick and slow, ctx.seed)
        if slow and HS.SLOW[name] >= 3:
            grid = grid[: (4 if ctx.quick else 12)]
        ctxs = HS.ctx_grid(name) if not ctx.quick else HS.ctx_grid(name)[:2]
        for si, (settings, ctxkw) in enumerate(itertools.product(grid, ctxs)):
            for pi, p in enumerate(pws):
                if not HS.admissible(name, p, ctxkw, settings):
                    continue
                if pi and name in HS.SLOW:
                    continue
                for form in ("str", "bytes"):
                    cases.append({"part": "generated", "hasher": name, "settings": settings, "si": si, "pi": pi,
                                  "password": p, "form": form, "ctx": ctxkw})
            cases.append({"part": "alternate", "hasher": name, "settings": settings, "si": si, "password": "pw", "ctx": ctxkw})
    for name in HS.usable_names():
        if is_wrapper(name) or not hasattr(HS.handler(name), "from_string"):
            continue
        seeds = {}
        for st in HS.settings_grid(name, True, ctx.seed):
            sig = tuple(sorted((k, str(v)) for k, v in st.items() if k in ("ident", "variant", "version")))
            seeds.setdefault(sig, st)
        for st in list(seeds.values())[:6]:
            for attr, vals in int_attrs(name):
                for v in vals:
                    cases.append({"part": "synthetic", "hasher": name, "settings": st, "attr": attr, "value": v,
                                  "ctx": HS.ctx_grid(name)[0], "label": f"{attr}={v}", "si": str(st.get("ident"))})
    # part config_only: the digest-less form of every generated hash (where the hasher accepts one)
    for name in HS.usable_names():
        H = HS.handler(name)
        if is_wrapper(name) or not hasattr(H, "from_string") or (name in HS.SLOW and HS.SLOW[name] >= 2):
            continue
        for si, st in enumerate(HS.settings_grid(name, True, ctx.seed)):
            ck = HS.ctx_grid(name)[0]
            if HS.admissible(name, "pw", ck, st):
                cases.append({"part": "config_only", "hasher": name, "settings": st, "password": "pw", "ctx": ck, "si": si})
    # part configured_reader: every ordered pair of settings that differ in a structure-bearing option
    STRUCT = ("ident", "variant", "version", "block_size", "parallelism", "algs", "marker", "salt_size", "rounds", "truncate_error")
    for name in HS.usable_names():
        if name in HS.SLOW and HS.SLOW[name] >= 2:
            continue
        grid = HS.settings_grid(name, True, ctx.seed)
        reps = {}
        for st in grid:
            sig = tuple(sorted((k, str(v)) for k, v in st.items() if k in STRUCT))
            reps.setdefault(sig, st)
        reps = list(reps.values())[: (6 if ctx.quick else 12)]
        for ai, A in enumerate(reps):
            for bi, B in enumerate(reps):
                if ai != bi and HS.admissible(name, "pw", HS.ctx_grid(name)[0], A):
                    cases.append({"part": "configured_reader", "hasher": name, "made_with": A, "reader": B, "password": "pw",
                                  "ctx": HS.ctx_grid(name)[0], "si": f"{ai}>{bi}"})
    for name, label, h, p, st in special_strings():
        cases.append({"part": "special", "hasher": name, "label": label, "hash": h, "password": p, "settings": st})
    for kind, label, s in libpass_strings(ctx.quick, ctx.seed):
        cases.append({"part": "libpass", "kind": kind, "label": label, "string": s})
    for kind in ("sha5", "sha6"):
        for salt in ("ab", "my salt", "user:realm", "tab\there", "a!b#c%d", " ", "x" * 16, ".", "a,b=c", "{x}", "a\\b", "'\"", "~", "@"):
            for rounds in (1000, 5000, 5001):
                cases.append({"part": "libpass_produced", "kind": kind, "label": f"salt={salt!r}", "salt": salt, "rounds": rounds})
    for v in phc_b64_values(ctx.quick):
        cases.append({"part": "phc_b64", "kind": "phc_b64", "label": f"len{len(v)}:{'ascii' if v.isascii() else 'non_ascii'}:{len(v.encode()) % 3}", "string": v})
    ctx.log(f"{len(cases)} cases")
    shards = [cases[i::512] for i in range(512)]
    acc = core.pmap(work, [{"cases": s} for s in shards if s])
    ctx.merge(acc)
