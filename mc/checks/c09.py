"""C09 -- using() gives a hasher that honours its settings; the original is untouched.

Engine E2 (mc.explore.bfs) over the REAL classes.  A world = the global hasher passlib.hash.X (node 0), every
hasher derived from it by the history so far (children, grandchildren), plus two observers that must never
change: a CryptContext built on the global hasher before the first event and, for PrefixWrappers, the wrapped
global class.  Events: derive(node, options[, relaxed]) / hash(node) / needs_update(node) / setattr(wrapper
node, proxied attribute).  After EVERY transition the observable snapshot of EVERY node (public configuration
attributes, the settings of hashes made under a pinned scripted random source swept to both ends of the
vary_rounds draw, the truncation policy, needs_update over a probe table) is compared with a small reference
model of the documented using() semantics; every node but the new one must be unchanged, and the raw class
dictionaries of the global hasher (whole MRO) and of every older derived class must be bit-identical.
"""
from __future__ import annotations

import copy
import hashlib
import json
import math
import warnings

from mc import core, env, explore
from mc import hashers as HS
from mc.core import Acc

warnings.filterwarnings("ignore")

ID = "C09"
LEVEL = "model_checking"
RULE = (
    "explicit-state BFS (mc.explore) per hasher over histories of events derive(node, option=value[, relaxed]) / "
    "hash(node) / needs_update(node) / setattr(derived wrapper, proxied attr); option values per hasher from its "
    "metadata: far below / just below / at min / three inside / at max / just above / far above each hard limit, as "
    "numbers and as strings, strict and relaxed, plus salts (legal, short, long, bad char, wrong type), idents and "
    "aliases, bool strings, variants, versions, block sizes, algs, markers, unknown keywords; depth 2 quick / 3 "
    "thorough (alphabet narrows with depth: full -> core -> tiny); states deduplicated on the tuple of observable "
    "snapshots of all live nodes; every transition is executed on the real classes and compared with the reference "
    "model; a case = one history; non-trivial = the event reached using()/hash()/needs_update() of a real hasher; "
    "distinct class = hasher|event kind|option|value class|mode|outcome, plus one class per distinct state"
)

PW = "pw-éx"
PW_OTHER = "pw-éy"
MISSING = "<missing>"

REPS = ("sha256_crypt", "sha512_crypt", "md5_crypt", "sha1_crypt", "bsdi_crypt", "des_crypt", "bcrypt", "bcrypt_sha256",
        "pbkdf2_sha256", "phpass", "scrypt", "fshp", "scram", "sun_md5_crypt", "cisco_type7", "unix_disabled",
        "ldap_salted_sha1", "mssql2005", "lmhash", "django_pbkdf2_sha256", "django_des_crypt", "htdigest", "plaintext")

ATTRS = ("name", "setting_kwds", "context_kwds", "min_rounds", "max_rounds", "rounds_cost", "min_desired_rounds",
         "max_desired_rounds", "default_rounds", "vary_rounds", "min_salt_size", "max_salt_size", "default_salt_size",
         "default_ident", "truncate_size", "truncate_error", "default_variant", "version", "block_size", "parallelism",
         "default_algs", "default_marker")
#: attributes of the prefix wrapper OBJECT that no option changes: every derived hasher, at any depth, keeps them
WRAPPER_OWN = ("prefix", "orig_prefix", "django_name", "ident")
FIELD_ATTR = {"mn_d": "min_desired_rounds", "mx_d": "max_desired_rounds", "dflt": "default_rounds", "vary": "vary_rounds",
              "ssize": "default_salt_size", "ident": "default_ident", "trunc": "truncate_error",
              "variant": "default_variant", "version": "version", "bsize": "block_size", "par": "parallelism",
              "algs": "default_algs", "marker": "default_marker"}
ATTR_FIELD = {v: k for k, v in FIELD_ATTR.items()}
ATTR_ASPECT = {"min_rounds": "rounds", "max_rounds": "rounds", "rounds_cost": "rounds", "min_desired_rounds": "rounds",
               "max_desired_rounds": "rounds", "default_rounds": "rounds", "vary_rounds": "rounds",
               "min_salt_size": "salt", "max_salt_size": "salt", "default_salt_size": "salt", "default_ident": "ident",
               "truncate_size": "truncate", "truncate_error": "truncate"}
ASPECT_METHODS = {
    "rounds": ("_norm_rounds", "_clip_to_desired_rounds"),
    "rounds_made": ("_generate_rounds", "_calc_vary_rounds_range", "_clip_to_desired_rounds"),
    "needs_update": ("_calc_needs_update",),
    "salt": ("_norm_salt", "_clip_to_valid_salt_size", "_generate_salt"),
    "ident": ("_norm_ident",),
    "truncate": ("_check_truncate_policy",),
    "other": ("using",),
}
ASPECT_MIXIN = {"rounds": "HasRounds", "rounds_made": "HasRounds", "needs_update": "HasRounds", "salt": "HasSalt",
                "ident": "HasManyIdents", "truncate": "TruncateMixin", "other": "MinimalHandler"}
OPT_ASPECT = {"rounds": "rounds", "min_rounds": "rounds", "max_rounds": "rounds", "min_desired_rounds": "rounds",
              "max_desired_rounds": "rounds", "default_rounds": "rounds", "vary_rounds": "rounds", "salt_size": "salt",
              "default_salt_size": "salt", "salt": "salt", "ident": "ident", "default_ident": "ident",
              "truncate_error": "truncate"}
ROUNDS_KEYS = ("rounds", "min_rounds", "max_rounds", "min_desired_rounds", "max_desired_rounds", "default_rounds", "vary_rounds")
MAX_RP = (1 << 30) - 1
BOOLS = {"true": True, "false": False, "yes": True, "no": False, "on": True, "off": False, "1": True, "0": False,
         "t": True, "f": False, "y": True, "n": False}
ALG_NAMES = {"sha1": "sha-1", "sha-1": "sha-1", "sha256": "sha-256", "sha-256": "sha-256", "sha512": "sha-512",
             "sha-512": "sha-512", "md5": "md5", "sha384": "sha-384", "sha-384": "sha-384"}
FSHP_ALIASES = {"0": 0, "1": 1, "2": 2, "3": 3, "sha1": 0, "sha256": 1, "sha384": 2, "sha512": 3}


def uh():
    import passlib.utils.handlers as m

    return m


# ---------------------------------------------------------------------------
# scripted random source answering by request kind (owned seam, mc.env)
# ---------------------------------------------------------------------------
class PinRng(env.ScriptedRng):
    """randint() (the vary_rounds draw, cisco_type7's offset) answers the low / high end; everything else
    (salt generation) answers a seed-derived filler value"""

    def __init__(self, mode, filler):
        super().__init__()
        self.mode = mode
        self.filler = filler

    def _answer(self, kind, size):
        self.log.append((kind, size))
        if size <= 0:
            raise core.HarnessError(f"empty request range for {kind}")
        if kind == "randint":
            return 0 if self.mode == "lo" else size - 1
        return self.filler % size


def fillers(seed):
    a = int.from_bytes(hashlib.sha256(b"c09:%d" % seed).digest(), "big") | 1
    return a, a + 1


def jval(v):
    """JSON-able, comparable rendering of an attribute value"""
    if v is None or isinstance(v, (bool, int, float, str)):
        return v
    if isinstance(v, bytes):
        return "b:" + v.hex()
    if isinstance(v, (list, tuple)):
        return [jval(x) for x in v]
    if isinstance(v, (set, frozenset)):
        return sorted(jval(x) for x in v)
    if isinstance(v, dict):
        return {str(k): jval(x) for k, x in sorted(v.items(), key=lambda kv: str(kv[0]))}
    return "<" + type(v).__name__ + ">"


def same(a, b):
    if isinstance(a, float) or isinstance(b, float):
        if isinstance(a, bool) or isinstance(b, bool):
            return a is b
        if isinstance(a, (int, float)) and isinstance(b, (int, float)):
            return abs(a - b) <= 1e-9
        return False
    if isinstance(a, bool) != isinstance(b, bool):
        return False
    return a == b


# ---------------------------------------------------------------------------
# per-hasher metadata (hard limits = the documented class constants of the unconfigured hasher), read once
# ---------------------------------------------------------------------------
class Meta:
    pass


_META = {}


def is_wrapper(obj):
    return isinstance(obj, uh().PrefixWrapper)


def warm(G):
    """force every lazy initialisation of the global hasher so that later differences are real mutations"""
    try:
        gb = getattr(G, "get_backend", None)
        if gb is not None:
            gb()
    except Exception:  # noqa: BLE001
        pass
    if is_wrapper(G):
        G.wrapped  # noqa: B018
        G.ident  # noqa: B018
        G.ident_values  # noqa: B018


def meta(name):
    M = _META.get(name)
    if M is not None:
        return M
    U = uh()
    G = HS.handler(name)
    warm(G)
    M = Meta()
    M.name = name
    M.G = G
    M.wrapper = is_wrapper(G)
    M.T0 = G.wrapped if M.wrapper else G
    T0 = M.T0
    M.inner_name = T0.name
    M.generic = isinstance(T0, type) and issubclass(T0, U.GenericHandler)
    M.kw = tuple(getattr(G, "setting_kwds", ()) or ())
    M.ckw = dict(HS.ctx_grid(name)[0])
    M.has_rounds = "rounds" in M.kw and getattr(T0, "min_rounds", None) is not None
    M.mn = getattr(T0, "min_rounds", None)
    M.mx = getattr(T0, "max_rounds", None)
    M.log2 = getattr(T0, "rounds_cost", None) == "log2"
    M.cisco7 = M.inner_name == "cisco_type7"
    sc = getattr(T0, "salt_chars", None)
    M.has_salt = "salt" in M.kw and (sc is not None or M.cisco7)
    M.raw_salt = isinstance(sc, bytes)
    M.salt_chars = sc
    M.has_ssize = "salt_size" in M.kw and M.has_salt and not M.cisco7
    M.mn_s = getattr(T0, "min_salt_size", None)
    M.mx_s = getattr(T0, "max_salt_size", None)
    iv = getattr(T0, "ident_values", None)
    M.has_ident = "ident" in M.kw and bool(iv) and hasattr(T0, "default_ident")
    M.ident_all = tuple(iv or ())
    M.idents = tuple(i for i in (iv or ()) if "2x" not in i)
    M.aliases = dict(getattr(T0, "ident_aliases", None) or {})
    M.trunc_size = getattr(T0, "truncate_size", None) if "truncate_error" in M.kw else None
    M.bsdi = M.inner_name == "bsdi_crypt"
    M.is_scrypt = M.inner_name == "scrypt"
    M.is_scram = M.inner_name == "scram"
    M.is_fshp = M.inner_name == "fshp"
    M.is_bsha = M.inner_name == "bcrypt_sha256"
    M.is_unixdis = M.inner_name == "unix_disabled"
    M.disabled = name in HS.DISABLED or M.inner_name in HS.DISABLED
    M.static = {a: jval(getattr(T0, a, MISSING)) for a in ATTRS}
    M.fields = tuple(f for f, a in FIELD_ATTR.items() if getattr(T0, a, MISSING) is not MISSING)
    if M.cisco7:
        M.fields = tuple(f for f in M.fields if f != "ssize")
    M.root = {f: jval(getattr(T0, FIELD_ATTR[f])) for f in M.fields}
    M.root["pin"] = None
    M.outer_attrs = ("name",) + tuple(a for a in ATTRS if a in U.PrefixWrapper._proxy_attrs) if M.wrapper else ()
    M.wrapper_own = {a: jval(getattr(G, a, MISSING)) for a in WRAPPER_OWN} if M.wrapper else {}
    M.accept = accepted_keys(M)
    M.cost = cost_params(M)
    M.classes = raw_holders(G)
    M.pristine = raw_snapshot(M.classes)
    M.probes = None
    M.ctx_ok = None
    _META[name] = M
    return M


def accepted_keys(M):
    ks = {"relaxed"}
    if M.has_rounds:
        ks |= set(ROUNDS_KEYS)
    if M.has_salt:
        ks.add("salt")
    if M.has_ssize:
        ks |= {"salt_size", "default_salt_size"}
    if M.has_ident:
        ks |= {"ident", "default_ident"}
    if M.trunc_size is not None:
        ks.add("truncate_error")
    if M.is_fshp:
        ks.add("variant")
    if M.is_bsha:
        ks.add("version")
    if M.is_scrypt:
        ks |= {"block_size", "parallelism"}
    if M.is_scram:
        ks |= {"algs", "default_algs"}
    if M.is_unixdis:
        ks.add("marker")
    return ks


def cost_params(M):
    """(overhead ms, ms per unit) of one digest; unit = rounds (linear) / 2**rounds (log2) (x r x p for scrypt)"""
    b = M.inner_name
    if b == "sun_md5_crypt":
        return (33.0, 0.008)
    if b in ("bcrypt", "bcrypt_sha256", "django_bcrypt_sha256"):
        return (0.3, 1.3 / 16)
    if b in ("sha256_crypt", "sha512_crypt"):
        return (0.1, 0.001)
    if b == "phpass":
        return (0.05, 0.001)
    if b == "scrypt":
        return (0.05, 0.001)
    if b == "bsdi_crypt":
        return (0.1, 0.006)
    return (0.3, 0.004)


def est_ms(M, settings):
    over, per = M.cost
    r = settings.get("rounds")
    if r is None or not M.has_rounds:
        return over
    if M.log2:
        if r > 40:
            return 1e9
        units = float(1 << max(r, 0))
    else:
        units = float(r)
    if M.is_scrypt:
        units *= (settings.get("block_size") or 1) * (settings.get("parallelism") or 1)
    return over + per * units


# ---------------------------------------------------------------------------
# raw class dictionaries (isolation oracle): holder = class of the MRO, or a PrefixWrapper instance
# ---------------------------------------------------------------------------
def raw_holders(obj):
    hs = []
    if is_wrapper(obj):
        hs.append(obj)
        obj = obj.wrapped
    for c in obj.__mro__:
        if c is object or not str(getattr(c, "__module__", "")).startswith(("passlib", "libpass")):
            continue
        hs.append(c)
    return hs


def _copyval(v):
    if isinstance(v, (list, dict, set, bytearray)):
        try:
            return copy.deepcopy(v)
        except Exception:  # noqa: BLE001
            return v
    return v


WRAPPER_LAZY = ("_ident", "_ident_values", "_wrapped_handler")


def raw_snapshot(holders):
    return [(h, {k: (v, _copyval(v)) for k, v in vars(h).items()}) for h in holders]


def holder_name(h):
    return h.__name__ if isinstance(h, type) else f"wrapper:{h.name}"


def raw_diff(snap):
    """[(holder, attr, how)] for every attribute added / removed / rebound / mutated in place since snap"""
    out = []
    for h, before in snap:
        now = vars(h)
        lazy = WRAPPER_LAZY if not isinstance(h, type) else ()
        for k in now:
            if k in lazy:
                continue
            if k not in before:
                out.append((h, k, "added"))
            else:
                orig, cp = before[k]
                v = now[k]
                if v is not orig:
                    try:
                        eq = v == orig
                    except Exception:  # noqa: BLE001
                        eq = False
                    if not eq:
                        out.append((h, k, "rebound"))
                elif cp is not orig:
                    try:
                        if v != cp:
                            out.append((h, k, "mutated"))
                    except Exception:  # noqa: BLE001
                        pass
        for k in before:
            if k not in now and k not in lazy:
                out.append((h, k, "removed"))
    return out


def raw_restore(snap):
    for h, before in snap:
        now = dict(vars(h))
        isw = not isinstance(h, type)
        for k in now:
            if isw and k in WRAPPER_LAZY:
                continue
            if k not in before:
                try:
                    object.__delattr__(h, k) if isw else delattr(h, k)
                except Exception:  # noqa: BLE001
                    pass
        for k, (orig, cp) in before.items():
            cur = vars(h).get(k, MISSING)
            val = orig
            if cp is not orig:
                try:
                    if orig != cp:
                        val = copy.deepcopy(cp)
                except Exception:  # noqa: BLE001
                    pass
            if cur is not val:
                try:
                    object.__setattr__(h, k, val) if isw else setattr(h, k, val)
                except Exception:  # noqa: BLE001
                    pass


# ---------------------------------------------------------------------------
# violation keys: component = the class that owns the mechanism (format-specific class overriding it, else the mixin)
# ---------------------------------------------------------------------------
def component(M, aspect):
    if aspect == "wrapper":
        return "PrefixWrapper"
    inner = ASPECT_MIXIN.get(aspect, "MinimalHandler")
    methods = ASPECT_METHODS.get(aspect, ("using",))
    if isinstance(M.T0, type):
        for c in M.T0.__mro__:
            if str(getattr(c, "__module__", "")).startswith("passlib.handlers") and any(m in vars(c) for m in methods):
                inner = getattr(c, "name", None) or c.__name__
                break
    return ("PrefixWrapper>" + inner) if M.wrapper else inner


def key(M, aspect, cls):
    return f"C09|{component(M, aspect)}|{cls}"


# ---------------------------------------------------------------------------
# event alphabet (explicit, ordered simplest-first).  lvl: 0 tiny, 1 core, 2 full, 3 extra
# ---------------------------------------------------------------------------
def rounds_values(M):
    mn, mx = M.mn, M.mx
    ins = (mn + 1, mn + 2, mn + 4) if M.log2 else (mn + 1, mn + 4, mn + 9)
    below = mn - 1 if mn >= 1 else -1
    return {"far_below": -3 if below != -3 else -7, "below_min": below, "at_min": mn, "in1": ins[0], "in2": ins[1],
            "in3": ins[2], "at_max": mx, "above_max": mx + 1, "far_above": mx * 16 + 5}


def pinned_salt(M, size, seed, variant):
    if M.is_scrypt:
        abc = b"./0123456789ABCDEFGHIJKLMNOPQRSTUVWXYZabcdefghijklmnopqrstuvwxyz"
        return bytes(abc[(seed * 3 + variant * 11 + i * 5) % 64] for i in range(size))
    return HS.make_salt(M.inner_name, size, seed, variant)


def option_events(M, seed):
    """[(lvl, group, opts, relaxed, tag)]"""
    out = []

    def add(lvl, group, opts, relaxed, tag):
        out.append((lvl, group, opts, bool(relaxed), tag))

    # ---- rounds family
    if M.has_rounds:
        V = rounds_values(M)
        tiny = {"rounds": "in2", "default_rounds": "in2", "min_rounds": "in3", "max_rounds": "in1"}
        for k in ("rounds", "min_rounds", "max_rounds", "default_rounds"):
            for vc in ("in2", "in1", "in3", "at_min"):
                add(0 if tiny[k] == vc else 1, k, {k: V[vc]}, False, f"{k}:{vc}:num")
            add(1, k, {k: V["above_max"]}, False, f"{k}:above_max:num")
            add(1, k, {k: V["above_max"]}, True, f"{k}:above_max:num")
            add(1, k, {k: V["below_min"]}, True, f"{k}:below_min:num")
            add(1, k, {k: V["below_min"]}, False, f"{k}:below_min:num")  # (core: also under an inherited window, at depth 2)
            add(2, k, {k: V["at_max"]}, False, f"{k}:at_max:num")
            for vc in ("far_below", "far_above"):
                add(2, k, {k: V[vc]}, False, f"{k}:{vc}:num")
                add(2, k, {k: V[vc]}, True, f"{k}:{vc}:num")
            add(2, k, {k: str(V["in2"])}, False, f"{k}:in2:str")
            add(2, k, {k: str(V["at_max"])}, False, f"{k}:at_max:str")
            add(2, k, {k: str(V["above_max"])}, False, f"{k}:above_max:str")
            add(2, k, {k: str(V["above_max"])}, True, f"{k}:above_max:str")
            add(2, k, {k: str(V["below_min"])}, False, f"{k}:below_min:str")
            for vc in ("in1", "in3", "at_min", "far_above", "far_below"):
                add(3, k, {k: str(V[vc])}, False, f"{k}:{vc}:str")
            add(3, k, {k: str(V["below_min"])}, True, f"{k}:below_min:str")
            for vc in ("in2", "at_min", "at_max"):
                add(3, k, {k: V[vc]}, True, f"{k}:{vc}:num")
        g = "window"
        for k in ("min_desired_rounds", "max_desired_rounds"):
            add(2, g, {k: V["in2"]}, False, f"{k}:in2:num")
            add(2, g, {k: V["above_max"]}, False, f"{k}:above_max:num")
            add(3, g, {k: str(V["in1"])}, False, f"{k}:in1:str")
            add(3, g, {k: V["below_min"]}, True, f"{k}:below_min:num")
        add(2, g, {"min_rounds": V["in1"], "max_rounds": V["in3"]}, False, "min_rounds+max_rounds:ordered:num")
        add(2, g, {"min_rounds": V["in3"], "max_rounds": V["in1"]}, False, "min_rounds+max_rounds:inverted:num")
        add(2, g, {"min_rounds": V["in2"], "max_rounds": V["in2"]}, False, "min_rounds+max_rounds:equal:num")
        add(2, g, {"rounds": V["in2"], "max_rounds": V["in3"]}, False, "rounds+max_rounds:ordered:num")
        add(2, g, {"rounds": V["in2"], "min_rounds": V["in1"]}, False, "rounds+min_rounds:ordered:num")
        add(2, g, {"rounds": V["in2"], "default_rounds": V["in3"]}, False, "rounds+default_rounds:outside:num")
        # an explicit 0 next to rounds= (falsy but given: below the hard minimum of most formats, the minimum itself of
        # sun_md5_crypt) -- strict and relaxed
        for k in ("min_rounds", "max_rounds", "default_rounds"):
            add(2, g, {"rounds": V["in2"], k: 0}, False, f"rounds+{k}:zero:num")
            add(2, g, {"rounds": V["in2"], k: 0}, True, f"rounds+{k}:zero:num")
            add(3, g, {"rounds": V["in2"], k: "0"}, False, f"rounds+{k}:zero:str")
        add(2, g, {"min_rounds": V["in1"], "min_desired_rounds": V["in1"]}, False, "min_rounds+min_desired_rounds:both:num")
        add(3, g, {"max_rounds": V["in3"], "max_desired_rounds": V["in3"]}, False, "max_rounds+max_desired_rounds:both:num")
        add(3, g, {"min_rounds": str(V["in1"]), "max_rounds": str(V["in3"]), "default_rounds": str(V["in2"])}, False,
            "min_rounds+max_rounds+default_rounds:ordered:str")
        g = "vary_rounds"
        add(0, g, {g: 1}, False, "vary_rounds:int1:num")
        add(1, g, {g: 0.5}, False, "vary_rounds:half:num")
        for lvl, val, vc, form in ((2, 0, "zero", "num"), (2, 5, "int5", "num"), (2, "10%", "percent", "str"),
                                   (2, "0.25", "fraction", "str"), (2, "3", "int3", "str"), (2, 1.0, "one", "num"),
                                   (2, -1, "negative", "num"), (2, 1.5, "above_one", "num"), (2, "-1", "negative", "str"),
                                   (2, "150%", "above_one", "str"), (2, 10**12, "huge", "num"), (3, 0.1, "tenth", "num"),
                                   (3, "100%", "one", "str"), (3, "0", "zero", "str"), (3, 2, "int2", "num")):
            add(lvl, g, {g: val}, False, f"vary_rounds:{vc}:{form}")
        add(3, g, {g: 1}, True, "vary_rounds:int1:num")
    elif M.name not in ("htdigest",):
        add(2, "misc", {"rounds": 5}, False, "rounds:unsupported:num")
    # ---- salt size
    if M.has_ssize:
        g = "salt_size"
        mn, mx = M.mn_s or 0, M.mx_s
        df = M.root.get("ssize") or mn
        inside = mn + 1 if (mx is None or mn + 1 < mx) and mn + 1 != df else (8 if (mx is None or 8 < mx) and 8 > mn else mn)
        below = mn - 1 if mn >= 1 else -1
        add(0, g, {g: inside}, False, "salt_size:inside:num")
        add(1, g, {g: mn}, False, "salt_size:at_min:num")
        add(1, g, {g: below}, True, "salt_size:below_min:num")
        add(2, g, {g: below}, False, "salt_size:below_min:num")
        add(2, g, {g: str(inside)}, False, "salt_size:inside:str")
        add(2, g, {g: inside + 0.5}, False, "salt_size:inside:float")
        add(2, g, {"default_salt_size": inside}, False, "default_salt_size:inside:num")
        add(2, g, {"default_salt_size": inside, "salt_size": inside}, False, "salt_size+default_salt_size:both:num")
        add(3, g, {g: str(below)}, True, "salt_size:below_min:str")
        add(3, g, {g: inside}, True, "salt_size:inside:num")
        if mx is not None:
            add(1, g, {g: mx + 1}, False, "salt_size:above_max:num")
            add(1, g, {g: mx + 1}, True, "salt_size:above_max:num")
            add(2, g, {g: mx}, False, "salt_size:at_max:num")
            add(2, g, {g: mx * 10 + 3}, False, "salt_size:far_above:num")
            add(2, g, {g: mx * 10 + 3}, True, "salt_size:far_above:num")
            add(2, g, {g: str(mx + 1)}, False, "salt_size:above_max:str")
            add(2, g, {g: str(mx + 1)}, True, "salt_size:above_max:str")
            add(3, g, {g: str(mx)}, False, "salt_size:at_max:str")
        else:
            add(2, g, {g: 40}, False, "salt_size:large:num")
    # ---- explicit salt
    if M.cisco7:
        g = "salt"
        add(0, g, {g: 7}, False, "salt:inside:num")
        add(1, g, {g: 0}, False, "salt:at_min:num")
        add(1, g, {g: 52}, False, "salt:at_max:num")
        for val, vc in ((53, "above_max"), (-1, "below_min"), (99, "far_above")):
            add(2, g, {g: val}, False, f"salt:{vc}:num")
            add(2, g, {g: val}, True, f"salt:{vc}:num")
        add(2, g, {g: "7"}, False, "salt:inside:str")
    elif M.has_salt:
        g = "salt"
        mn, mx = M.mn_s or 0, M.mx_s
        df = M.root.get("ssize") or mx or mn or 8
        add(0, g, {g: pinned_salt(M, df, seed, 1)}, False, "salt:legal_default_size")
        other = mn if (mn and mn != df) else (df + 1 if (mx is None or df + 1 <= mx) else df)
        add(2, g, {g: pinned_salt(M, other, seed, 2)}, False, "salt:legal_other")
        add(3, g, {g: pinned_salt(M, df, seed, 3)}, True, "salt:legal_default_size")
        if mn >= 1:
            add(2, g, {g: pinned_salt(M, mn - 1, seed, 4)}, False, "salt:too_short")
            add(2, g, {g: pinned_salt(M, mn - 1, seed, 4)}, True, "salt:too_short")
        if mx is not None:
            long_ = pinned_salt(M, mx, seed, 5)
            long_ = long_ + (long_[:1] if not isinstance(long_, str) else ".")
            add(1, g, {g: long_}, False, "salt:too_long")
            add(1, g, {g: long_}, True, "salt:too_long")
        if not M.raw_salt:
            bad = pinned_salt(M, df, seed, 6)
            bc = next(c for c in "!$ é" if c not in (M.salt_chars or ""))
            add(2, g, {g: bad[:-1] + bc}, False, "salt:bad_char")
            add(3, g, {g: bad[:-1] + bc}, True, "salt:bad_char")
            add(2, g, {g: bad.encode("ascii")}, False, "salt:wrong_type")
        else:
            add(2, g, {g: "A" * df}, False, "salt:wrong_type")
    # ---- ident
    if M.has_ident:
        g = "ident"
        dflt = M.root.get("ident")
        for i in M.idents:
            add(0 if i != dflt and i == M.idents[0] else 1, g, {g: i}, False, f"ident:{i.strip('$') or 'empty'}")
        for a in sorted(M.aliases):
            if "2x" not in a:
                add(2, g, {g: a}, False, f"ident:alias_{a}")
        add(2, g, {g: "xx"}, False, "ident:invalid")
        add(2, g, {g: "xx"}, True, "ident:invalid")
        add(2, g, {g: ""}, False, "ident:empty")
        add(2, g, {"default_ident": M.idents[0]}, False, "default_ident:valid")
        add(2, g, {"default_ident": M.idents[0], "ident": M.idents[0]}, False, "ident+default_ident:both")
        add(3, g, {g: M.idents[0].encode("ascii")}, False, "ident:bytes")
    # ---- truncate_error
    if M.trunc_size is not None:
        g = "truncate_error"
        add(0, g, {g: True}, False, "truncate_error:true:bool")
        add(1, g, {g: False}, False, "truncate_error:false:bool")
        for lvl, val in ((2, "true"), (2, "false"), (2, "yes"), (2, "0"), (3, "no"), (3, "on"), (3, "off"), (3, "1"), (3, "TRUE")):
            add(lvl, g, {g: val}, False, f"truncate_error:{val.lower()}:str")
        add(2, g, {g: "maybe"}, False, "truncate_error:invalid:str")
        add(3, g, {g: True}, True, "truncate_error:true:bool")
    # ---- format specific
    g = "special"
    if M.is_fshp:
        add(0, g, {"variant": 3}, False, "variant:at_max:num")
        add(1, g, {"variant": 0}, False, "variant:at_min:num")
        for lvl, val, vc in ((2, 1, "inside:num"), (2, 2, "inside2:num"), (2, "0", "at_min:str"), (2, "sha512", "alias_sha512"),
                             (2, "sha1", "alias_sha1"), (2, 4, "above_max:num"), (2, -1, "below_min:num"), (2, "4", "above_max:str"),
                             (2, "md5", "alias_invalid"), (2, 1.5, "float"), (3, b"sha256", "alias_bytes"), (3, 40, "far_above:num"),
                             (3, "sha384", "alias_sha384")):
            add(lvl, g, {"variant": val}, False, f"variant:{vc}")
        add(2, g, {"variant": 4}, True, "variant:above_max:num")
    if M.is_bsha:
        add(0, g, {"version": 1}, False, "version:at_min:num")
        add(1, g, {"version": 2}, False, "version:at_max:num")
        add(1, g, {"version": 1, "ident": "2a"}, False, "version+ident:v1_2a")
        for lvl, val, vc in ((2, 0, "below_min:num"), (2, 3, "above_max:num"), (2, "1", "at_min:str"), (3, 30, "far_above:num"), (3, "2", "at_max:str")):
            add(lvl, g, {"version": val}, False, f"version:{vc}")
        add(2, g, {"version": 3}, True, "version:above_max:num")
        add(2, g, {"version": 2, "ident": "2a"}, False, "version+ident:v2_2a")
    if M.is_scrypt:
        add(0, g, {"block_size": 2}, False, "block_size:inside:num")
        add(1, g, {"block_size": 1}, False, "block_size:at_min:num")
        add(1, g, {"parallelism": 2}, False, "parallelism:inside:num")
        for k in ("block_size", "parallelism"):
            add(2, g, {k: "2"}, False, f"{k}:inside:str")
            for val, vc in ((0, "below_min"), (-1, "far_below"), (1 << 30, "far_above")):
                add(2, g, {k: val}, False, f"{k}:{vc}:num")
                add(2, g, {k: val}, True, f"{k}:{vc}:num")
            add(3, g, {k: "0"}, True, f"{k}:below_min:str")
        # block_size 1 is the one value for which the cost limit n < 2**(16*r) binds below the format's maximum:
        # admissible only together with a cost <= 15, and every LATER change of the cost alone must be re-checked
        add(1, g, {"block_size": 1, "rounds": 10}, False, "block_size+rounds:r1_low_cost")
        add(2, g, {"block_size": 1, "default_rounds": 12, "max_rounds": 15}, False, "block_size+window:r1_low_window")
        add(2, g, {"block_size": 8}, False, "block_size:default:num")
        add(2, g, {"parallelism": 1}, False, "parallelism:at_min:num")
        add(2, g, {"block_size": 1 << 15, "parallelism": 1 << 15}, False, "block_size+parallelism:product_above_max")
    if M.is_scram:
        add(0, g, {"algs": "sha-1"}, False, "algs:sha1_only")
        add(1, g, {"algs": "sha-1,sha-256"}, False, "algs:two")
        for lvl, val, vc in ((2, ["sha-1", "sha-512"], "list"), (2, "md5,sha-1", "with_md5"), (2, "sha-256", "no_sha1"),
                             (2, "sha-1,averyveryverylongname", "name_too_long"), (2, "sha1,sha256", "aliases"),
                             (3, "sha-1,sha-256,sha-512", "all"), (3, ["sha-256"], "list_no_sha1")):
            add(lvl, g, {"algs": val}, False, f"algs:{vc}")
        add(2, g, {"default_algs": "sha-1,sha-512"}, False, "default_algs:two")
        add(2, g, {"algs": "sha-256"}, True, "algs:no_sha1")
    if M.is_unixdis:
        add(0, g, {"marker": "*"}, False, "marker:star")
        add(1, g, {"marker": "!"}, False, "marker:bang")
        for lvl, val, vc in ((2, "!!", "double_bang"), (2, "*LK*", "solaris_lock"), (2, "x", "invalid_char"),
                             (2, "$1$abc", "looks_like_hash"), (2, "", "empty"), (3, "!locked", "bang_text"),
                             (2, b"*LK*", "bytes")):
            add(lvl, g, {"marker": val}, False, f"marker:{vc}")
        add(2, g, {"marker": "x"}, True, "marker:invalid_char")
    # ---- generic
    add(2, "misc", {}, False, "no_options")
    add(2, "misc", {}, True, "no_options")
    add(2, "misc", {"bogus_option": 1}, False, "unknown_keyword")
    add(3, "misc", {"bogus_option": 1}, True, "unknown_keyword")
    return out


_EVENTS = {}


def events_of(M, seed):
    k = (M.name, seed)
    if k not in _EVENTS:
        _EVENTS[k] = option_events(M, seed)
    return _EVENTS[k]


SETATTRS = ("default_rounds", "default_salt_size", "truncate_error", "vary_rounds")

# ---------------------------------------------------------------------------
# reference model of using():  predict(M, parent model, options, relaxed) -> (acceptable exception names,
# [(new model, clamped)]);  several acceptable outcomes where the documentation leaves the choice open
# ---------------------------------------------------------------------------
class Refuse(Exception):
    def __init__(self, *names):
        self.names = set(names)


def _toint(v):
    if isinstance(v, bool):
        raise Refuse("TypeError", "ValueError")
    if isinstance(v, int):
        return v
    if isinstance(v, str):
        try:
            return int(v)
        except ValueError:
            raise Refuse("ValueError") from None
    raise Refuse("TypeError")


def clip(x, lo, hi):
    if lo is not None and x < lo:
        x = lo
    if hi is not None and x > hi:
        x = hi
    return x


def g_rounds(M, P, o, relaxed):
    """-> (extra acceptable exceptions, [(updates, clamped)])"""
    if ("min_rounds" in o and "min_desired_rounds" in o) or ("max_rounds" in o and "max_desired_rounds" in o):
        raise Refuse("TypeError")
    m = o.get("min_rounds", o.get("min_desired_rounds"))
    mxv = o.get("max_rounds", o.get("max_desired_rounds"))
    d = o.get("default_rounds")
    r = o.get("rounds")
    v = o.get("vary_rounds")
    m = None if m is None else _toint(m)
    mxv = None if mxv is None else _toint(mxv)
    d = None if d is None else _toint(d)
    r = None if r is None else _toint(r)
    if r is not None:
        m = r if m is None else m
        mxv = r if mxv is None else mxv
        d = r if d is None else d
    clamped = [False]
    extra = set()

    def hard(x):
        if x < M.mn:
            if not relaxed:
                raise Refuse("ValueError")
            clamped[0] = True
            return M.mn
        if M.mx is not None and x > M.mx:
            if not relaxed:
                raise Refuse("ValueError")
            clamped[0] = True
            return M.mx
        return x

    p_mn, p_mx = P.get("mn_d"), P.get("mx_d")
    windows = []  # alternatives (mn_d, mx_d)
    if m is not None and mxv is not None:
        if mxv < m:
            raise Refuse("ValueError")
        windows.append((hard(m), hard(mxv)))
    elif m is not None:
        nm = hard(m)
        if p_mx is not None and nm > p_mx:
            # lower bound above the inherited upper bound: refuse, or move one bound so the window stays non-empty
            extra.add("ValueError")
            windows += [(nm, nm), (p_mx, p_mx)]
        else:
            windows.append((nm, p_mx))
    elif mxv is not None:
        if p_mn and mxv < p_mn:
            hard(mxv)  # the given value itself must lie inside the hard limits (strict: refused; relaxed: clamped first)
            extra.add("ValueError")
            windows.append((p_mn, hard(p_mn)))
        else:
            windows.append((p_mn, hard(mxv)))
    else:
        windows.append((p_mn, p_mx))
    alts = []
    for w_mn, w_mx in windows:
        lo = w_mn or 0
        hi = w_mx
        if d is not None:
            dn = hard(d)
            if dn < lo or d < lo or (hi is not None and (dn > hi or d > hi)):
                extra.add("ValueError")  # "they limit what values are allowed for default_rounds"
            nd = clip(dn, lo, hi)
        else:
            nd = P.get("dflt")
            if nd is not None:
                nd = clip(nd, lo, hi)
        alts.append(({"mn_d": w_mn, "mx_d": w_mx, "dflt": nd}, clamped[0]))
    if v is not None:
        if isinstance(v, str):
            try:
                if v.endswith("%"):
                    v = float(v[:-1]) * 0.01
                elif "." in v:
                    v = float(v)
                else:
                    v = int(v)
            except ValueError:
                raise Refuse("ValueError") from None
        if isinstance(v, bool) or not isinstance(v, (int, float)):
            raise Refuse("TypeError")
        if v < 0 or (isinstance(v, float) and v > 1):
            raise Refuse("ValueError")
        for upd, _c in alts:
            upd["vary"] = v
    return extra, alts


def g_salt_size(M, P, o, relaxed):
    if "salt_size" in o and "default_salt_size" in o:
        raise Refuse("TypeError")
    v = _toint(o.get("salt_size", o.get("default_salt_size")))
    mn, mx = M.mn_s or 0, M.mx_s
    c = False
    if mx is not None and mn == mx and v != mn:
        if not relaxed:
            raise Refuse("ValueError")
        v, c = mn, True
    if v < mn:
        if not relaxed:
            raise Refuse("ValueError")
        v, c = mn, True
    if mx is not None and v > mx:
        if not relaxed:
            raise Refuse("ValueError")
        v, c = mx, True
    return set(), [({"ssize": v}, c)]


def g_salt(M, P, o, relaxed):
    s = o["salt"]
    if M.cisco7:
        if isinstance(s, str):
            try:
                return {"TypeError", "ValueError"}, [({"pin": int(s)}, False)]
            except ValueError:
                raise Refuse("TypeError", "ValueError") from None
        if isinstance(s, bool) or not isinstance(s, int):
            raise Refuse("TypeError")
        if 0 <= s <= 52:
            return set(), [({"pin": s}, False)]
        if not relaxed:
            raise Refuse("ValueError")
        return set(), [({"pin": 0 if s < 0 else 52}, True)]
    extra = set()
    if M.raw_salt:
        if not isinstance(s, bytes):
            raise Refuse("TypeError")
    else:
        if isinstance(s, bytes):
            if not relaxed:
                raise Refuse("TypeError")
            extra.add("TypeError")
            try:
                s = s.decode("ascii")
            except UnicodeDecodeError:
                raise Refuse("TypeError", "ValueError") from None
        if not isinstance(s, str):
            raise Refuse("TypeError")
        if M.salt_chars is not None and any(ch not in M.salt_chars for ch in s):
            raise Refuse("ValueError")
    mn, mx = M.mn_s or 0, M.mx_s
    if len(s) < mn:
        raise Refuse("ValueError")
    c = False
    if mx is not None and len(s) > mx:
        if not relaxed:
            raise Refuse("ValueError")
        s, c = s[:mx], True
    return extra, [({"pin": jval(s)}, c)]


def g_ident(M, P, o, relaxed):
    if "ident" in o and "default_ident" in o:
        raise Refuse("TypeError")
    i = o.get("ident", o.get("default_ident"))
    if isinstance(i, bytes):
        try:
            i = i.decode("ascii")
        except UnicodeDecodeError:
            raise Refuse("ValueError", "TypeError") from None
    if not isinstance(i, str):
        raise Refuse("TypeError", "ValueError")
    if i in M.ident_all:
        return set(), [({"ident": i}, False)]
    a = M.aliases.get(i)
    if a is not None and a in M.ident_all:
        return set(), [({"ident": a}, False)]
    raise Refuse("ValueError")


def g_trunc(M, P, o, relaxed):
    v = o["truncate_error"]
    if isinstance(v, (str, bytes)):
        t = (v.decode("ascii", "replace") if isinstance(v, bytes) else v).strip().lower()
        if t in BOOLS:
            return set(), [({"trunc": BOOLS[t]}, False)]
        if t in ("", "none"):
            return set(), [({}, False)]
        raise Refuse("ValueError")
    return set(), [({"trunc": bool(v)}, False)]


def g_variant(M, P, o, relaxed):
    v = o["variant"]
    if isinstance(v, bytes):
        v = v.decode("ascii", "replace")
    if isinstance(v, str):
        if v not in FSHP_ALIASES:
            raise Refuse("ValueError")
        v = FSHP_ALIASES[v]
    if isinstance(v, bool) or not isinstance(v, int):
        raise Refuse("TypeError")
    if v not in (0, 1, 2, 3):
        raise Refuse("ValueError")
    return set(), [({"variant": v}, False)]


def g_version(M, P, o, relaxed):
    v = o["version"]
    extra = set()
    if isinstance(v, str):
        extra.add("ValueError")
        extra.add("TypeError")
        try:
            v = int(v)
        except ValueError:
            raise Refuse("ValueError", "TypeError") from None
    if isinstance(v, bool) or not isinstance(v, int):
        raise Refuse("TypeError", "ValueError")
    if v not in (1, 2):
        raise Refuse("ValueError")
    return extra, [({"version": v}, False)]


def g_scrypt(M, P, o, relaxed):
    upd = {}
    c = False
    for k, f in (("block_size", "bsize"), ("parallelism", "par")):
        if k in o:
            v = _toint(o[k])
            if v < 1:
                if not relaxed:
                    raise Refuse("ValueError")
                v, c = 1, True
            upd[f] = v
    return set(), [(upd, c)]


def g_algs(M, P, o, relaxed):
    if "algs" in o and "default_algs" in o:
        raise Refuse("TypeError", "AssertionError")
    a = o.get("algs", o.get("default_algs"))
    if isinstance(a, str):
        a = [x.strip() for x in a.split(",") if x.strip()]
    out = []
    for x in a:
        n = ALG_NAMES.get(x.lower())
        if n is None or len(n) > 9:
            raise Refuse("ValueError")
        out.append(n)
    if "sha-1" not in out:
        raise Refuse("ValueError")
    return set(), [({"algs": sorted(set(out))}, False)]


def g_marker(M, P, o, relaxed):
    v = o["marker"]
    if isinstance(v, bytes):
        v = v.decode("ascii", "replace")
    if not isinstance(v, str):
        raise Refuse("TypeError", "ValueError")
    if not v or v[0] not in "!*":
        raise Refuse("ValueError")
    return set(), [({"marker": v}, False)]


def predict(M, P, opts, relaxed):
    """-> (acceptable exception class names, [(model, clamped)])"""
    predict.rules = []
    unknown = [k for k in opts if k not in M.accept]
    if unknown:
        return {"TypeError"}, []
    groups = []
    o = dict(opts)

    def take(keys):
        return {k: o.pop(k) for k in keys if k in o}

    sub = take(ROUNDS_KEYS)
    if sub:
        groups.append((g_rounds, sub))
    sub = take(("salt_size", "default_salt_size"))
    if sub:
        groups.append((g_salt_size, sub))
    for keys, fn in ((("salt",), g_salt), (("ident", "default_ident"), g_ident), (("truncate_error",), g_trunc),
                     (("variant",), g_variant), (("version",), g_version), (("block_size", "parallelism"), g_scrypt),
                     (("algs", "default_algs"), g_algs), (("marker",), g_marker)):
        sub = take(keys)
        if sub:
            groups.append((fn, sub))
    excs = set()
    rules = set()
    predict.rules = []
    models = [(dict(P), False)]
    refused = False
    for fn, sub in groups:
        try:
            extra, alts = fn(M, P, sub, relaxed)
        except Refuse as e:
            excs |= e.names
            refused = True
            continue
        excs |= extra
        models = [(dict(m, **upd), c or c2) for m, c in models for upd, c2 in alts]
    if refused:
        return excs, []
    out = []
    for m, c in models:
        # combination rules (a settings combination the format cannot hash must be refused as well)
        if M.is_bsha and m.get("version", 2) > 1 and m.get("ident") != "$2b$":
            excs.add("ValueError")
            rules.add("bcrypt_sha256_v2_needs_2b")
            continue
        if M.is_scrypt and (m.get("bsize") or 1) * (m.get("par") or 1) > MAX_RP:
            excs.add("ValueError")
            rules.add("scrypt_r_times_p_limit")
            continue
        if M.is_scrypt and m.get("dflt") is not None and m["dflt"] >= 16 * (m.get("bsize") or 1):
            # rfc 7914: N = 2**rounds must be below 2**(128*r/8)
            excs.add("ValueError")
            rules.add("scrypt_n_vs_r_limit")
            continue
        # (the $7$ format stores the salt base64-encoded; an encoded salt longer than max_salt_size is either
        #  refused by using() or cut to the limit -- both keep every hash inside the limits, neither is demanded)
        out.append((m, c))
    predict.rules = sorted(rules) if not out else []
    return excs, out


# ---------------------------------------------------------------------------
# what hashes of a node must look like / what its update check must answer
# ---------------------------------------------------------------------------
def rounds_range(M, N):
    """(L, U) documented range of the rounds of a new hash; None when the hasher has no rounds"""
    d = N.get("dflt")
    if not M.has_rounds or d is None:
        return None
    lo = max(N.get("mn_d") or 0, M.mn)
    hi = M.mx if N.get("mx_d") is None else min(N["mx_d"], M.mx)
    v = N.get("vary")
    if not v:
        return (d, d)
    if isinstance(v, float):
        if M.log2:
            D = 1 << d
            vv = int(D * v)
            L = int(math.ceil(math.log2(D - vv))) if D - vv > 0 else 0
            U = int(math.log2(D + vv))
        else:
            vv = int(d * v)
            L, U = d - vv, d + vv
    else:
        L, U = d - v, d + v
    return (min(clip(L, lo, hi), d), max(clip(U, lo, hi), d))


def raw_vary_range(M, N):
    """default +/- vary before any clipping (None without variation)"""
    d, v = N.get("dflt"), N.get("vary")
    if not M.has_rounds or d is None or not v:
        return None
    if isinstance(v, float):
        if M.log2:
            D = 1 << d
            vv = int(D * v)
            return (int(math.ceil(math.log2(D - vv))) if D - vv > 0 else 0, int(math.log2(D + vv)))
        vv = int(d * v)
        return (d - vv, d + vv)
    return (d - v, d + v)


def bsdi_even_only(M, N, obj):
    """bsdi_crypt node whose configured window holds exactly one value and that value is even"""
    lo = getattr(obj, "min_desired_rounds", None) or M.mn
    hi = getattr(obj, "max_desired_rounds", None) or M.mx
    return lo == hi and not lo & 1


def classify_rounds(M, N, r):
    """None when r is an acceptable cost of a hash made by node N, else the failing class"""
    if r is None:
        return "rounds_missing"
    if r < M.mn or (M.mx is not None and r > M.mx):
        return "rounds_outside_hard_limits"
    if M.bsdi:
        lo = max(N.get("mn_d") or M.mn, M.mn)
        hi = N.get("mx_d") if N.get("mx_d") is not None else M.mx
        rr0 = rounds_range(M, N)
        if rr0 is not None:
            lo, hi = max(lo, rr0[0]), min(hi, rr0[1])
        if lo == hi and not lo & 1:
            # the admissible range holds a single even value: "odd rounds only" (documented, using() warns about the
            # configuration) and "inside the window" cannot both be honoured -- nothing is demanded beyond the hard limits
            return None
    if N.get("mn_d") and r < N["mn_d"]:
        return "rounds_below_window"
    if N.get("mx_d") is not None and r > N["mx_d"]:
        return "rounds_above_window"
    rr = rounds_range(M, N)
    if rr is None:
        return None
    L, U = rr
    if L <= r <= U:
        return None
    if M.bsdi and r & 1 and L <= r - 1 <= U:
        return None  # bsdi_crypt avoids even rounds (weak DES keys); tolerated while the result stays inside the window
    return "rounds_not_default" if not N.get("vary") else "rounds_outside_vary_range"


def expected_salt_len(M, N, ident):
    pin = N.get("pin")
    if pin is not None:
        return None
    n = N.get("ssize")
    if n is None:
        return None
    if M.is_scrypt and ident == "$7$":
        return min((4 * n + 2) // 3, M.mx_s) if M.mx_s else (4 * n + 2) // 3
    return n


def nu_expect(M, N, p):
    """(expected answer, class of the reason)"""
    r = p.get("rounds")
    if r is not None and M.has_rounds:
        if N.get("mn_d") and r < N["mn_d"]:
            return True, "below_window"
        if N.get("mx_d") is not None and r > N["mx_d"]:
            return True, "above_window"
    if M.bsdi and r is not None and not r & 1:
        return True, "even_rounds"
    if M.is_scrypt and (p.get("block_size") != N.get("bsize") or p.get("parallelism") != N.get("par")):
        return True, "parameter_drift"
    if M.is_scram and not set(p.get("algs") or ()) >= set(N.get("algs") or ()):
        return True, "missing_alg"
    if M.is_bsha and p.get("version", 2) < N.get("version", 2):
        return True, "old_version"
    return False, "inside_window"


# ---------------------------------------------------------------------------
# observation of the real objects
# ---------------------------------------------------------------------------
def parse_made(M, h):
    """settings carried by a hash / config string of hasher M, parsed by the UNCONFIGURED global hasher"""
    if isinstance(h, bytes):
        h = h.decode("ascii")
    out = {}
    if M.is_unixdis:
        out["marker"] = h
        return out
    if not M.generic:
        return out
    inner = M.G._unwrap_hash(h) if M.wrapper else h
    obj = M.T0.from_string(inner)
    if M.has_rounds:
        out["rounds"] = obj.rounds
    if M.has_salt:
        s = obj.salt
        out["salt"] = jval(s)
        out["salt_len"] = None if M.cisco7 else len(s)
    if M.has_ident:
        out["ident"] = obj.ident
    if M.is_fshp:
        out["variant"] = obj.variant
    if M.is_bsha:
        out["version"] = obj.version
    if M.is_scrypt:
        out["block_size"] = obj.block_size
        out["parallelism"] = obj.parallelism
    if M.is_scram:
        out["algs"] = sorted(obj.algs)
    return out


def observe_made(M, obj, mode, filler, real=False):
    """make one config string (real=False: same constructor path as hash(), no digest) or one real hash"""
    rng = PinRng(mode, filler)
    try:
        with env.scripted_rng(rng):
            if real or not M.generic:
                h = obj.hash(PW, **M.ckw)
            else:
                h = obj.genconfig()
    except core.HarnessError:
        raise
    except Exception as e:  # noqa: BLE001
        return {"error": type(e).__name__, "detail": core.short(e, 100)}, None
    try:
        return parse_made(M, h), h
    except core.HarnessError:
        raise
    except Exception as e:  # noqa: BLE001
        return {"error": "unparseable:" + type(e).__name__, "detail": core.short(h, 80)}, h


def build_probes(M, seed):
    """needs_update probe table, made once by the unconfigured hasher (constructor path, no using())"""
    if M.probes is not None:
        return M.probes
    probes = []
    T0 = M.T0

    M.probe_fail = []

    def mk(label, vclass="inside", **settings):
        kw = dict(settings)
        if M.has_salt and not M.cisco7:
            size = M.root.get("ssize") or M.mx_s or M.mn_s or 8
            kw["salt"] = pinned_salt(M, size, seed, 9)
        try:
            with env.scripted_rng(PinRng("lo", 7)):
                # documented GenericHandler constructor (what from_string()/hash() call); no using() involved
                obj = T0(use_defaults=True, **kw)
                obj.checksum = obj._stub_checksum
                h = obj.to_string()
            if M.wrapper:
                h = M.G._wrap_hash(h)
            info = parse_made(M, h)
        except core.HarnessError:
            raise
        except Exception as e:  # noqa: BLE001
            # the unconfigured hasher cannot represent a hash with settings inside its documented limits:
            # reported by the root check (a broken hard limit), the probe is left out
            M.probe_fail.append((label, vclass, type(e).__name__, core.short(e, 120)))
            return
        info.pop("salt", None)
        info["label"] = label
        info["hash"] = h
        probes.append(info)

    if M.has_rounds:
        V = rounds_values(M)
        base = {V[k] for k in ("at_min", "in1", "in2", "in3", "at_max")}
        vals = set()
        for b in base:
            vals |= {b - 1, b, b + 1}
        vals = sorted(v for v in vals if M.mn <= v <= M.mx)
        extra = {}
        if M.is_scrypt:
            extra = {"block_size": 8, "parallelism": 1}
        for r in vals:
            mk(f"rounds={r}", "at_hard_max" if r == M.mx else "at_hard_min" if r == M.mn else "inside", rounds=r, **extra)
        r = V["in2"]
        if M.is_scrypt:
            for bs, p in ((1, 1), (2, 1), (8, 2), (1, 2)):
                for rr in (V["in1"], V["in3"]):
                    mk(f"rounds={rr},r={bs},p={p}", rounds=rr, block_size=bs, parallelism=p)
        if M.is_scram:
            for a in ("sha-1", "sha-1,sha-256", "md5,sha-1", "sha-1,sha-512"):
                mk(f"rounds={r},algs={a}", rounds=r, algs=a)
        if M.is_bsha:
            mk(f"rounds={r},v1,2a", rounds=r, version=1, ident="$2a$")
            mk(f"rounds={r},v1,2b", rounds=r, version=1, ident="$2b$")
        elif M.has_ident:
            for i in M.idents:
                mk(f"rounds={r},ident={i}", rounds=r, ident=i)
        if M.is_fshp:
            for v in (0, 2, 3):
                mk(f"rounds={r},variant={v}", rounds=r, variant=v)
    elif M.generic:
        mk("default")
    else:
        try:
            h = M.G.hash(PW, **M.ckw)
        except Exception as e:  # noqa: BLE001
            raise core.HarnessError(f"cannot build probe for {M.name}: {e!r}") from None
        probes.append({"label": "default", "hash": h})
    M.probes = probes
    return probes


def nu_obs(obj, h, **kw):
    try:
        return bool(obj.needs_update(h, **kw))
    except core.HarnessError:
        raise
    except Exception as e:  # noqa: BLE001
        return "raises:" + type(e).__name__


class Node:
    __slots__ = ("M", "obj", "model", "parent", "role", "base")

    def __init__(self, M, obj, model, parent, role):
        self.M = M
        self.obj = obj
        self.model = model
        self.parent = parent
        self.role = role  # global | derived | wrapped | ctx
        self.base = None  # raw class dictionaries of a derived node (own class / wrapper only)


def own_holders(obj):
    if is_wrapper(obj):
        return [obj, obj.wrapped]
    return [obj]


class World:
    def __init__(self, name, seed, tier):
        self.name = name
        self.seed = seed
        self.tier = tier
        self.M = meta(name)
        self.fa, self.fb = fillers(seed)
        self.nodes = []
        self.observers = []
        self.hist = []
        self.snaps = None
        self.root_checked = False
        self.counts = {}
        self.outcome = None


def _safe_getattr(obj, a):
    try:
        return getattr(obj, a)
    except AttributeError:
        return MISSING


def _safe_call(f):
    try:
        return f()
    except Exception as e:  # noqa: BLE001
        return f"<raised {type(e).__name__}>"


def snapshot(W, nd):
    M, obj = nd.M, nd.obj
    s = {}
    inner = obj
    if M.wrapper:
        s["outer"] = {a: jval(getattr(obj, a, MISSING)) for a in M.outer_attrs}
        s["own"] = {a: jval(_safe_getattr(obj, a)) for a in WRAPPER_OWN}
        inner = obj.wrapped
    s["attrs"] = {a: jval(getattr(inner, a, MISSING)) for a in ATTRS}
    s["lo"], _ = observe_made(M, obj, "lo", W.fa)
    s["hi"], _ = observe_made(M, obj, "hi", W.fb)
    if M.trunc_size is not None:
        s["trunc"] = observe_trunc(W, nd, s)
    s["nu"] = [nu_obs(obj, p["hash"]) for p in build_probes(M, W.seed)]
    if M.is_unixdis:
        # a value disabled under ANOTHER marker (by the parent, the global hasher, a sibling) with its original embedded:
        # re-disabling it through this hasher stamps this hasher's marker
        orig = "$1$abcdefgh$G//4keteveJp0qb8z2DxG/"
        s["redisable"] = [(m, _safe_call(lambda m=m: obj.disable(m + orig))) for m in ("!", "*")]
    return s


def cap_ms(W, depth):
    if W.tier == "thorough" and depth <= 1:
        return 45.0
    if depth >= 3:
        return 1.0
    return 3.2


def affordable(W, nd, made, depth):
    if "error" in made:
        return False
    st = dict(made)
    return est_ms(nd.M, st) <= cap_ms(W, depth)


def observe_trunc(W, nd, s):
    """does hash() of a password one byte over the limit raise PasswordTruncateError?"""
    from passlib import exc

    M = nd.M
    want = nd.model.get("trunc")
    cheap = affordable(W, nd, s["lo"], 9) and affordable(W, nd, s["hi"], 9)
    if not want and not cheap:
        return "skipped"
    if want and not cheap:
        # a correct hasher refuses before computing the digest; bound the cost of a wrong one (never run at huge costs)
        if "error" in s["lo"] or "error" in s["hi"] or max(est_ms(M, s["lo"]), est_ms(M, s["hi"])) > 400.0:
            return "skipped"
    # passwords one byte over the limit: plain ASCII, and text that only EXCEEDS it in the form the algorithm consumes
    # (UTF-8 bytes of a two-byte character; for lmhash the upper-cased OEM text: 'ß' becomes 'SS')
    long_pws = ["x" * (M.trunc_size + 1)]
    if M.name == "lmhash":
        long_pws.append("a" * (M.trunc_size - 1) + "\u00df")
    elif M.trunc_size > 1:
        long_pws.append("x" * (M.trunc_size - 1) + "\u00e9")
    verdicts = []
    for long_pw in long_pws:
        try:
            with env.scripted_rng(PinRng("lo", W.fa)):
                nd.obj.hash(long_pw, **M.ckw)
        except exc.PasswordTruncateError:
            verdicts.append("refused")
        except core.HarnessError:
            raise
        except Exception as e:  # noqa: BLE001
            verdicts.append("raises:" + type(e).__name__)
        else:
            verdicts.append("accepted")
    if len(set(verdicts)) == 1:
        return verdicts[0]
    # the policy is not applied uniformly: report the verdict that contradicts the configured policy
    bad = "accepted" if want else "refused"
    return bad if bad in verdicts else verdicts[0]


def compare(W, nd, s):
    """[(aspect, failing class, description)] -- differences between node's snapshot and its model"""
    M, N = nd.M, nd.model
    out = []
    zq0 = ":max_is_zero" if (M.has_rounds and N.get("mx_d") == 0) else ""
    # ---- attributes
    a_mn, a_mx = s["attrs"].get("min_desired_rounds"), s["attrs"].get("max_desired_rounds")
    inverted = isinstance(a_mn, int) and isinstance(a_mx, int) and not isinstance(a_mn, bool) and a_mn > a_mx
    if inverted and M.has_rounds:
        out.append(("rounds", "window_inverted",
                    f"min_desired_rounds={a_mn} is above max_desired_rounds={a_mx}: no hash can satisfy this hasher's own update check"))
    for a in ATTRS:
        f = ATTR_FIELD.get(a)
        want = N.get(f) if f in M.fields else M.static[a]
        got = s["attrs"][a]
        if not same(jval(want), got):
            if inverted and ATTR_ASPECT.get(a) == "rounds":
                continue
            out.append((ATTR_ASPECT.get(a, "other"), f"attr:{a}" + (zq0 if ATTR_ASPECT.get(a) == "rounds" else ""),
                        f"{a} is {got!r}, reference model says {want!r}"))
    if M.wrapper:
        for a in M.outer_attrs:
            f = ATTR_FIELD.get(a)
            want = M.name if a == "name" else (N.get(f) if f in M.fields else M.static[a])
            got = s["outer"][a]
            if not same(jval(want), got):
                if inverted and ATTR_ASPECT.get(a) == "rounds":
                    continue
                out.append(("wrapper", f"proxy_attr:{a}", f"wrapper attribute {a} is {got!r}, reference model says {want!r}"))
        for a, want in M.wrapper_own.items():
            got = s.get("own", {}).get(a)
            if not same(want, got):
                out.append(("wrapper", f"own_attr:{a}", f"wrapper attribute {a} is {got!r}, the hasher it was derived from has {want!r}"))
    if inverted:
        return out
    # ---- hashes made
    zq = ":max_is_zero" if (M.has_rounds and N.get("mx_d") == 0) else ""
    salts = []
    for mode in ("lo", "hi"):
        m = s[mode]
        if "error" in m:
            cls = f"made:raises:{m['error']}"
            rr = raw_vary_range(M, N)
            if M.has_rounds and rr is not None and (rr[0] < M.mn or rr[1] > M.mx) and m["error"] == "ValueError":
                cls = "made:vary_range_outside_hard_limits"
            elif M.has_rounds and N.get("dflt") == 0:
                cls += ":default_is_zero"
            if not any(x[1] == cls for x in out):
                out.append(("rounds_made" if M.has_rounds else "other", cls,
                            f"making a hash with the random source at its {mode} end failed: {m['error']} {m.get('detail')}; window "
                            f"[{N.get('mn_d')}, {N.get('mx_d')}], default {N.get('dflt')}, vary {N.get('vary')}, hard limits [{M.mn}, {M.mx}]"))
            continue
        if M.has_rounds:
            c = classify_rounds(M, N, m.get("rounds"))
            if c and not any(x[1] == f"made:{c}{zq}" for x in out):
                out.append(("rounds_made", f"made:{c}{zq}",
                            f"a new hash has rounds={m.get('rounds')} ({mode} end of the random draw); window "
                            f"[{N.get('mn_d')}, {N.get('mx_d')}], default {N.get('dflt')}, vary {N.get('vary')}, "
                            f"hard limits [{M.mn}, {M.mx}], documented range {rounds_range(M, N)}"))
        if M.has_salt:
            salts.append(m.get("salt"))
            pin = N.get("pin")
            if pin is not None:
                if not same(jval(pin), m.get("salt")):
                    out.append(("salt", "made:salt_not_pinned", f"a new hash has salt {m.get('salt')!r}, the pinned salt is {pin!r}"))
            elif not M.cisco7:
                want = expected_salt_len(M, N, m.get("ident"))
                if want is not None and m.get("salt_len") != want:
                    cls = "made:salt_size"
                    if (M.mn_s and m.get("salt_len", 0) < M.mn_s) or (M.mx_s and not (M.is_scrypt and m.get("ident") == "$7$") and m.get("salt_len", 0) > M.mx_s):
                        cls = "made:salt_size_outside_hard_limits"
                    out.append(("salt", cls, f"a new hash has a salt of size {m.get('salt_len')}, configured {N.get('ssize')} (expected {want})"))
        for fld, mf in (("ident", "ident"), ("variant", "variant"), ("version", "version"), ("block_size", "bsize"),
                        ("parallelism", "par"), ("algs", "algs"), ("marker", "marker")):
            if fld in m and mf in M.fields and not same(jval(N.get(mf)), jval(m[fld])):
                out.append(("ident" if fld == "ident" else "other", f"made:{fld}", f"a new hash carries {fld}={m[fld]!r}, configured {N.get(mf)!r}"))
    if M.is_unixdis and "marker" in M.fields:
        orig = "$1$abcdefgh$G//4keteveJp0qb8z2DxG/"
        for m0, got in s.get("redisable", ()):
            want = str(N.get("marker")) + orig
            if got != want:
                out.append(("other", "made:marker:redisable", f"disable({m0 + orig!r}) = {got!r}; this hasher's marker is {N.get('marker')!r} (expected {want!r})"))
    if M.has_salt and len(salts) == 2 and N.get("pin") is None:
        big = M.cisco7 or (N.get("ssize") or 0) > 0
        if big and salts[0] == salts[1]:
            out.append(("salt", "made:salt_fixed", f"two hashes made under different random answers share the salt {salts[0]!r} although no salt is pinned"))
    # ---- truncation policy
    if M.trunc_size is not None:
        t = s.get("trunc")
        want = "refused" if N.get("trunc") else "accepted"
        made_failed = "error" in s["lo"] or "error" in s["hi"]
        if t != "skipped" and t != want and not (made_failed and t.startswith("raises")):
            out.append(("truncate", f"truncate_policy:{t.split(':')[0]}",
                        f"hash() of a {M.trunc_size + 1}-byte password: {t}; truncate_error={N.get('trunc')!r} demands {want}"))
    # ---- update check
    for p, got in zip(build_probes(M, W.seed), s["nu"]):
        want, why = nu_expect(M, N, p)
        if got is want:
            continue
        if isinstance(got, str):
            cls = f"needs_update:{got}"
        elif want:
            cls = f"needs_update:{why}_not_flagged" + (zq if why == "above_window" else "")
        else:
            cls = "needs_update:inside_window_flagged"
        if any(x[1] == cls for x in out):
            continue
        out.append(("needs_update", cls, f"needs_update(hash with {p['label']}) = {got!r}, reference says {want} ({why}); window "
                    f"[{N.get('mn_d')}, {N.get('mx_d')}]"))
    return out


def canon_snap(s):
    c = {k: v for k, v in s.items()}
    for mode in ("lo", "hi"):
        m = dict(c[mode])
        m.pop("detail", None)
        c[mode] = m
    return c


# ---------------------------------------------------------------------------
# world construction and the transition function (real implementation + model, side by side)
# ---------------------------------------------------------------------------
def new_world(name, seed, tier):
    from passlib.context import CryptContext

    W = World(name, seed, tier)
    M = W.M
    build_probes(M, seed)
    W.nodes.append(Node(M, M.G, dict(M.root), None, "global"))
    if M.wrapper:
        Mi = meta(M.inner_name)
        build_probes(Mi, seed)
        W.observers.append(Node(Mi, M.T0, dict(Mi.root), None, "wrapped"))
    if M.ctx_ok is not False:
        try:
            cc = CryptContext(schemes=[name])
            ch = cc.handler(name)
            M.ctx_ok = True
        except Exception:  # noqa: BLE001
            M.ctx_ok = False
        else:
            nd = Node(M, ch, dict(M.root), 0, "ctx")
            nd.base = raw_snapshot(own_holders(ch))
            W.observers.append(nd)
    return W


def raw_aspect(attr):
    return ATTR_ASPECT.get(attr, "salt" if "salt" in attr else "other")


def role_of(W, idx, target, newidx):
    nd = W.nodes[idx]
    if nd.role == "global":
        return "global"
    if idx == target:
        return "parent" if newidx is not None else "self"
    return "other"


HARD_ONLY = ("made:rounds_outside_hard_limits", "made:salt_size_outside_hard_limits")


def full_check(W, prefix, aspect0, target, newidx, depth, real_for=None, hard_only=False):
    """snapshot every node, compare with the model; -> [(key, desc)]"""
    M = W.M
    out = []
    snaps = []
    subject = newidx if newidx is not None else target
    for i, nd in enumerate(W.nodes):
        s = snapshot(W, nd)
        snaps.append(canon_snap(s))
        diffs = compare(W, nd, s)
        if i == subject:
            if hard_only:
                # wrongly accepted value: only "never yields a hash outside the hard limits" is demanded of the result
                diffs = [x for x in diffs if x[1] in HARD_ONLY]
            for asp, cls, desc in diffs:
                # state properties of a node keep their class whatever event exposed them; attribute mismatches name the event
                pre = prefix if cls.startswith(("attr:", "proxy_attr:")) else ""
                out.append((key(M, asp, f"{pre}{cls}"), f"{M.name} node {i}: {desc}"))
            if real_for == i and not diffs and not hard_only:
                out += real_hash_check(W, nd, s, prefix, depth)
        else:
            role = role_of(W, i, target, newidx)
            for asp, cls, desc in diffs:
                out.append((key(M, asp, f"isolation:{role}:{cls}"), f"{M.name}: node {i} ({role}) changed although the event acted on node {subject}: {desc}"))
    for nd in W.observers:
        s = snapshot(W, nd)
        snaps.append(canon_snap(s))
        for asp, cls, desc in compare(W, nd, s):
            out.append((key(nd.M if nd.role == "wrapped" else M, asp, f"isolation:{nd.role}:{cls}"),
                        f"{M.name}: the {nd.role} observer changed: {desc}"))
    if prefix == "root:":
        for label, vclass, en, detail in getattr(M, "probe_fail", ()):
            out.append((key(M, "rounds", f"root:hash_within_hard_limits_refused:{vclass}:{en}"),
                        f"{M.name}: the unconfigured hasher cannot build / parse a hash with {label} although it lies inside the documented hard limits: {detail}"))
    # raw class dictionaries
    for h, attr, how in raw_diff(M.pristine):
        out.append((key(M, raw_aspect(attr), f"isolation:global:raw:{attr}"),
                    f"{M.name}: attribute {attr!r} of {holder_name(h)} (global hasher / shared base class) was {how} by the event"))
    if raw_diff(M.pristine):
        raw_restore(M.pristine)
    for i, nd in enumerate(W.nodes + W.observers):
        if nd.base is None:
            continue
        role = nd.role if nd.role in ("ctx", "wrapped") else role_of(W, i, target, newidx)
        for h, attr, how in raw_diff(nd.base):
            out.append((key(M, raw_aspect(attr), f"isolation:{role}:raw:{attr}"),
                        f"{M.name}: attribute {attr!r} of {holder_name(h)} ({role} node) was {how} by an event on another node"))
    W.snaps = snaps
    return out


def real_hash_check(W, nd, s, prefix, depth):
    """one REAL hash of the node (when affordable): same settings as the config observation, verifies, no update needed"""
    M = nd.M
    out = []
    if not (affordable(W, nd, s["lo"], depth) and affordable(W, nd, s["hi"], depth)):
        W.counts["hash_config_only"] = W.counts.get("hash_config_only", 0) + 1
        return out
    W.counts["hash_real"] = W.counts.get("hash_real", 0) + 1
    made, h = observe_made(M, nd.obj, "hi", W.fb, real=True)
    asp = "rounds" if M.has_rounds else "other"
    if "error" in made:
        return [(key(M, asp, f"{prefix}hash:raises:{made['error']}"), f"{M.name}: hash() failed: {made['error']} {made.get('detail')}")]
    ref = dict(s["hi"])
    if made != ref:
        out.append((key(M, asp, f"{prefix}hash:settings_differ"), f"{M.name}: hash() carries {made!r}, the config string made under the same random answers {ref!r}"))
    G = W.nodes[0].obj
    try:
        if not M.disabled:
            if nd.obj.verify(PW, h, **M.ckw) is not True:
                out.append((key(M, "other", f"{prefix}hash:own_verify_false"), f"{M.name}: the node does not verify its own hash {h!r}"))
            if G.verify(PW, h, **M.ckw) is not True:
                out.append((key(M, "other", f"{prefix}hash:global_verify_false"), f"{M.name}: passlib.hash.{M.name} does not verify the derived hasher's hash {h!r}"))
            if M.name not in HS.PLAINTEXT and nd.obj.verify(PW_OTHER, h, **M.ckw):
                out.append((key(M, "other", f"{prefix}hash:wrong_password_accepted"), f"{M.name}: another password verifies against {h!r}"))
        nu = nu_obs(nd.obj, h)
        if nu is not False and M.bsdi and bsdi_even_only(M, nd.model if hasattr(nd, "model") else None, nd.obj):
            nu = False  # window holding a single even value: see classify_rounds()
        if nu is not False:
            out.append((key(M, "needs_update", f"{prefix}hash:own_hash_needs_update"), f"{M.name}: needs_update() of the node's own fresh hash {h!r} = {nu!r}"))
    except core.HarnessError:
        raise
    except Exception as e:  # noqa: BLE001
        out.append((key(M, "other", f"{prefix}hash:verify_raises:{type(e).__name__}"), f"{M.name}: verify / needs_update of {h!r} raised {e!r}"))
    return out


def exc_ok(e, names):
    import builtins

    for n in names:
        c = getattr(builtins, n, None)
        if c is not None and isinstance(e, c):
            return True
    return False


def dyn_attrs_match(M, obj, model):
    inner = obj.wrapped if is_wrapper(obj) else obj
    for f in M.fields:
        if not same(jval(model.get(f)), jval(getattr(inner, FIELD_ATTR[f], MISSING))):
            return False
    return True


def opt_label(opts):
    return "+".join(sorted(opts)) or "none"


def do_derive(W, ev, check):
    from passlib import exc as pexc

    M = W.M
    t = ev["node"]
    nd = W.nodes[t]
    opts, relaxed, tag = ev["opts"], ev["relaxed"], ev["tag"]
    mode = "relaxed" if relaxed else "strict"
    okey = opt_label(opts)
    aspect = OPT_ASPECT.get(sorted(opts)[0], "other") if opts else "other"
    names, models = predict(M, nd.model, opts, relaxed)
    rules = list(predict.rules)
    kw = dict(opts)
    if relaxed:
        kw["relaxed"] = True
    err = new = None
    with warnings.catch_warnings(record=True) as wl:
        warnings.simplefilter("always")
        try:
            with env.scripted_rng(PinRng("lo", W.fa)):
                new = nd.obj.using(**kw)
        except core.HarnessError:
            raise
        except Exception as e:  # noqa: BLE001
            err = e
    out = []
    depth = len(W.hist) + 1
    if err is not None:
        W.outcome = "raise:" + type(err).__name__
        if check:
            if not exc_ok(err, names):
                what = "refused" if models else "raised"
                out.append((key(M, aspect, f"derive:{tag}:{mode}:{what}:{type(err).__name__}"),
                            f"{M.name}: node {t}.using({kw!r}) raised {err!r}; the reference model allows "
                            f"{'the new hasher ' + repr(models[0][0]) if models else sorted(names)}"))
            out += full_check(W, "", aspect, t, None, depth)
            # a refused using() leaves node t itself unchanged as well (it is compared as the subject above)
        return out
    # accepted: register the node, pick the matching acceptable outcome
    chosen, clamped = None, False
    for m, c in models:
        if dyn_attrs_match(M, new, m):
            chosen, clamped = m, c
            break
    wrongly = not models
    if chosen is None:
        chosen, clamped = (models[0] if models else (dict(nd.model), False))
    newnode = Node(M, new, dict(chosen), t, "derived")
    W.nodes.append(newnode)
    newidx = len(W.nodes) - 1
    W.outcome = "ok" + (":clamped" if clamped else "")
    if check:
        if wrongly:
            cls = f"derive:{rules[0]}:accepted" if rules else f"derive:{tag}:{mode}:accepted"
            out.append((key(M, aspect, cls),
                        f"{M.name}: node {t}.using({kw!r}) returned a hasher; the reference model demands {sorted(names)}"
                        + (f" (rule {rules[0]})" if rules else "")))
        # identity: a NEW object, not sharing its class with any older node
        olds = W.nodes[:-1] + W.observers
        if any(new is o.obj for o in olds):
            out.append((key(M, "wrapper" if M.wrapper else "other", "derive:returned_existing_object"),
                        f"{M.name}: using() returned an already existing hasher object"))
        if M.wrapper:
            if not is_wrapper(new):
                out.append((key(M, "wrapper", "derive:not_a_wrapper"), f"{M.name}: using() of a PrefixWrapper returned {type(new).__name__}"))
            else:
                if any(new.wrapped is (o.obj.wrapped if is_wrapper(o.obj) else o.obj) for o in olds):
                    out.append((key(M, "wrapper", "derive:wrapped_class_shared"),
                                f"{M.name}: the new wrapper wraps the same class object as an older hasher"))
                for a in ("name", "prefix", "orig_prefix"):
                    if getattr(new, a, None) != getattr(M.G, a, None):
                        out.append((key(M, "wrapper", f"derive:wrapper_{a}"), f"{M.name}: new wrapper has {a}={getattr(new, a, None)!r}"))
        if clamped and not wrongly:
            if not any(issubclass(w.category, pexc.PasslibWarning) for w in wl):
                out.append((key(M, aspect, f"derive:{tag}:relaxed:no_warning"),
                            f"{M.name}: node {t}.using({kw!r}) corrected the value without issuing a Passlib warning"))
        out += full_check(W, "", aspect, t, newidx, depth, real_for=newidx, hard_only=wrongly)
    newnode.base = raw_snapshot(own_holders(new))
    return out


def do_hash(W, ev, check):
    M = W.M
    t = ev["node"]
    W.outcome = "hash"
    if not check:
        return []
    return full_check(W, "hash:", "other", t, None, len(W.hist) + 1, real_for=t)


def do_needs_update(W, ev, check):
    M = W.M
    t = ev["node"]
    nd = W.nodes[t]
    W.outcome = "needs_update"
    if not check:
        return []
    out = []
    for p in build_probes(M, W.seed):
        want, why = nu_expect(M, nd.model, p)
        for kw in ({"secret": PW},):
            got = nu_obs(nd.obj, p["hash"], **kw)
            if got is not want:
                cls = f"needs_update_event:{got}" if isinstance(got, str) else f"needs_update_event:{why}:{'not_flagged' if want else 'flagged'}"
                out.append((key(M, "needs_update", cls), f"{M.name}: node {t}.needs_update(hash with {p['label']}, secret=...) = {got!r}, reference says {want} ({why})"))
    out += full_check(W, "needs_update_event:", "needs_update", t, None, len(W.hist) + 1)
    return out


def do_setattr(W, ev, check):
    M = W.M
    t = ev["node"]
    nd = W.nodes[t]
    attr, val = ev["attr"], ev["value"]
    W.outcome = "setattr"
    try:
        setattr(nd.obj, attr, val)
    except core.HarnessError:
        raise
    except Exception as e:  # noqa: BLE001
        if check:
            return [(key(M, "wrapper", f"setattr:{attr}:raises:{type(e).__name__}"), f"{M.name}: setattr(node {t}, {attr!r}, {val!r}) raised {e!r}")]
        return []
    nd.model[ATTR_FIELD[attr]] = val
    nd.base = raw_snapshot(own_holders(nd.obj))
    if not check:
        return []
    out = []
    if attr in vars(nd.obj):
        out.append((key(M, "wrapper", f"setattr:{attr}:not_proxied"), f"{M.name}: setattr on a derived wrapper stored {attr!r} on the wrapper itself"))
    out += full_check(W, f"setattr:{attr}:", "wrapper", t, None, len(W.hist) + 1, real_for=t)
    return out


OPS = {"derive": do_derive, "hash": do_hash, "needs_update": do_needs_update, "setattr": do_setattr}


def apply(W, ev, check):
    if ev["node"] >= len(W.nodes):
        raise core.HarnessError(f"event {ev!r} refers to a node that does not exist (history {W.hist!r})")
    out = OPS[ev["op"]](W, ev, check)
    W.hist.append(ev)
    return out


# ---------------------------------------------------------------------------
# explorer plumbing
# ---------------------------------------------------------------------------
LEVELS = {"quick": (2, 1), "thorough": (3, 1, 0)}  # alphabet level per depth; len = max depth


def levels(M, tier):
    """representatives and wrappers get the full depth; the remaining catalogue (thorough only) stops at depth 2"""
    lv = LEVELS[tier]
    if tier == "thorough" and M.name not in REPS and not M.wrapper:
        return lv[:2]
    return lv


def setattr_events(W, i):
    nd = W.nodes[i]
    M, N = nd.M, nd.model
    out = []
    if nd.role != "derived" or not M.wrapper:
        return out
    if M.has_rounds:
        V = rounds_values(M)
        v = clip(V["in2"], max(N.get("mn_d") or 0, M.mn), M.mx if N.get("mx_d") is None else N["mx_d"])
        if v != N.get("dflt"):
            out.append({"op": "setattr", "node": i, "attr": "default_rounds", "value": v})
        if N.get("vary") != 1:
            out.append({"op": "setattr", "node": i, "attr": "vary_rounds", "value": 1})
    if M.has_ssize:
        mn, mx = M.mn_s or 0, M.mx_s
        v = mn + 2 if (mx is None or mn + 2 <= mx) else mn
        if v != N.get("ssize"):
            out.append({"op": "setattr", "node": i, "attr": "default_salt_size", "value": v})
    if M.trunc_size is not None:
        out.append({"op": "setattr", "node": i, "attr": "truncate_error", "value": not N.get("trunc")})
    return out


def enabled_events(W, group):
    depth = len(W.hist)
    lv = levels(W.M, W.tier)
    if depth >= len(lv):
        return []
    lvl = lv[depth]
    M = W.M
    evs = []
    for i in range(len(W.nodes)):
        for elvl, g, opts, relaxed, tag in events_of(M, W.seed):
            if elvl > lvl or (depth == 0 and g != group):
                continue
            evs.append({"op": "derive", "node": i, "opts": opts, "relaxed": relaxed, "tag": tag})
    if depth > 0 or group == "misc":
        for i in range(len(W.nodes)):
            evs.append({"op": "hash", "node": i})
            if lvl >= 1:
                evs.append({"op": "needs_update", "node": i})
                evs += setattr_events(W, i)
    return evs


def event_label(ev):
    if ev["op"] == "derive":
        return "derive:" + opt_label(ev["opts"])
    if ev["op"] == "setattr":
        return "setattr:" + ev["attr"]
    return ev["op"]


def groups_of(M, seed, tier):
    lvl = levels(M, tier)[0]
    gs = []
    for elvl, g, _o, _r, _t in events_of(M, seed):
        if elvl <= lvl and g not in gs:
            gs.append(g)
    if "misc" not in gs:
        gs.append("misc")
    return gs


def canon(W):
    if W.snaps is None:
        W.snaps = [canon_snap(snapshot(W, nd)) for nd in W.nodes + W.observers]
    blob = json.dumps([W.name, W.snaps], sort_keys=True, default=str)
    return hashlib.sha1(blob.encode()).hexdigest()[:20]


def make_fns(name, seed, tier, group=None, on_step=None, digests=None):
    def build(hist):
        W = new_world(name, seed, tier)
        for ev in hist:
            apply(W, ev, False)
        W.snaps = None
        return W

    def step(W, ev):
        vs = apply(W, ev, True)
        if on_step is not None:
            on_step(W, ev, vs)
        return vs

    def invariant(W):
        if W.hist or W.root_checked:
            return []
        W.root_checked = True
        return full_check(W, "root:", "other", 0, None, 0)

    def canon_(W):
        d = canon(W)
        if digests is not None:
            digests.add(d)
        return d

    def events(W):
        return enabled_events(W, group)

    return build, events, step, canon_, invariant


MAX_PER_KEY = 3


def work(task):
    name, group, seed, tier = task["hasher"], task["group"], task["seed"], task["tier"]
    acc = Acc()
    M = meta(name)
    digests = set()

    def on_step(W, ev, vs):
        acc.ev()
        lab = event_label(ev)
        mode = "relaxed" if ev.get("relaxed") else "strict"
        acc.cls("t", name, lab, ev.get("tag", ""), mode, W.outcome, "viol" if vs else "ok")
        acc.outcome(f"{ev['op']}:{W.outcome}")
        acc.axis("event", lab)
        acc.axis("depth", len(W.hist))
        acc.axis("nodes", len(W.nodes))
        if ev["op"] == "derive":
            acc.axis("value_class", ev["tag"].split(":")[1] if ":" in ev["tag"] else ev["tag"])
            acc.axis("mode", mode)
        for k, v in W.counts.items():
            acc.count(k, v)
        W.counts = {}

    fns = make_fns(name, seed, tier, group, on_step, digests)
    res = explore.bfs(*fns, max_depth=len(levels(M, tier)), event_label=event_label)
    for d in digests:
        acc.cls("state", name, d)
    acc.count("transitions", res.transitions)
    acc.count(f"T|{name}", res.transitions)
    acc.count(f"D|{name}|{res.max_depth}")
    for lab, c in res.event_hist.items():
        acc.count(f"E|{name}|{lab}", c)
    acc.axis("hasher", name)
    acc.axis("first_event_group", group)
    per = {}
    for k, desc, hist in res.violations:
        per[k] = per.get(k, 0) + 1
        if per[k] <= MAX_PER_KEY:
            acc.violation(k, desc, {"hasher": name, "history": hist, "seed": seed, "tier": tier})
        else:
            acc.count("violations_beyond_cap")
    for hist in res.samples[:1]:
        if group in ("rounds", "salt_size", "special", "misc"):
            acc.sample({"hasher": name, "history": hist, "seed": seed, "tier": tier})
    # ---- the harness (and the library) must leave the global hashers exactly as they were
    leaked = raw_diff(M.pristine)
    for h, attr, how in leaked:
        acc.violation(f"C09|{name}|global_mutated:{attr}",
                      f"after exploring {name} (first events: {group}) attribute {attr!r} of {holder_name(h)} is {how} compared with the start of the run",
                      {"kind": "shard", "hasher": name, "group": group, "seed": seed, "tier": tier})
    if leaked:
        raw_restore(M.pristine)
    W = new_world(name, seed, tier)
    for k, desc in full_check(W, "root:", "other", 0, None, 0):
        cls = k.split("|", 2)[2]
        acc.violation(f"C09|{name}|global_mutated:{cls}", f"after exploring {name} (first events: {group}): {desc}",
                      {"kind": "shard", "hasher": name, "group": group, "seed": seed, "tier": tier})
    return acc


def replay(case):
    if case.get("kind") == "shard":
        acc = work({"hasher": case["hasher"], "group": case["group"], "seed": case["seed"], "tier": case["tier"]})
        return [(k, d) for k, d, _c in acc.violations]
    build, _events, step, _canon, invariant = make_fns(case["hasher"], case["seed"], case["tier"])
    seen, out = set(), []
    for k, d in explore.replay_history(build, step, invariant, case["history"]):
        if (k, d) not in seen:
            seen.add((k, d))
            out.append((k, d))
    return out


def hasher_list(quick):
    names = [n for n in REPS if n in HS.all_names() and HS.usable(n)]
    for n in HS.usable_names():
        if n not in names and is_wrapper(HS.handler(n)):
            names.append(n)
    if not quick:
        for n in HS.usable_names():
            if n not in names:
                names.append(n)
    return names


def run(ctx):
    names = hasher_list(ctx.quick)
    tasks = []
    for name in names:
        M = meta(name)
        for g in groups_of(M, ctx.seed, ctx.tier):
            tasks.append({"hasher": name, "group": g, "seed": ctx.seed, "tier": ctx.tier,
                          "w": (3 if M.has_rounds else 1) * (2 if M.wrapper else 1)})
    tasks.sort(key=lambda t: -t["w"])
    ctx.log(f"{len(names)} hashers, {len(tasks)} shards (hasher x first-event group)")
    acc = core.pmap(work, tasks)
    per = {}
    for k in list(acc.counters):
        if k[:2] in ("T|", "D|", "E|"):
            parts = k.split("|")
            ent = per.setdefault(parts[1], {"transitions": 0, "max_depth": 0, "states": 0, "events": {}})
            v = acc.counters.pop(k)
            if parts[0] == "T":
                ent["transitions"] += v
            elif parts[0] == "D":
                ent["max_depth"] = max(ent["max_depth"], int(parts[2]))
            else:
                ent["events"][parts[2]] = ent["events"].get(parts[2], 0) + v
    states = 0
    for c in acc.classes:
        if c.startswith("state|"):
            states += 1
            per[c.split("|")[1]]["states"] += 1
    ctx.merge(acc)
    trans = acc.counters.get("transitions", 0)
    ctx.cov["states"] = states
    ctx.cov["transitions"] = trans
    ctx.cov["traces_validated_against_impl"] = trans
    ctx.cov["max_depth"] = max([e["max_depth"] for e in per.values()] or [0])
    ctx.cov["hashers"] = len(names)
    ctx.cov["per_hasher"] = per
    ctx.cov["explanation"] = (
        "states = distinct tuples of observable snapshots of all live nodes (union over shards); transitions = events "
        "executed on the real classes and compared with the reference model (every one of them); distinct_nontrivial "
        "counts distinct transition classes plus distinct states"
    )
    ctx.assume("snapshots of nodes observe the settings a hash would carry through genconfig() (the same constructor "
               "call hash() makes, without the digest); one REAL hash per transition is made, verified and parsed on the "
               "new / addressed node whenever its cost is below ~3 ms (counters hash_real / hash_config_only)")
    ctx.assume("hard limits are the class constants of the unconfigured global hashers (min_rounds, max_rounds, "
               "min_salt_size, max_salt_size, salt_chars, ident_values), as documented on each hasher's page")
    ctx.assume("an explicit salt= stays pinned in descendants even when they set salt_size (documentation silent)")
    ctx.assume("bsdi_crypt's documented avoidance of even rounds (rounds|1) is tolerated while the result stays inside the configured window")
