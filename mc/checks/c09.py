"""C09 -- using() gives a hasher that honours its settings; the original is untouched.

Engine E2 (mc.explore.bfs) over the REAL classes.  A world = the global hasher passlib.hash.X (node 0), every
hasher derived from it by the history so far (children, grandchildren), plus two observers that must never
change: a CryptContext built on the global hasher before the first event and, for PrefixWrappers, the wrapped
global class.  Events: derive(node, options[, relaxed]) / hash(node) / needs_update(node) / setattr(wrapper
node, proxied attribute).  After EVERY transition the observable snapshot of EVERY node (public configuration
attributes, the settings of hashes made under a pinned scripted random source swept to both ends of the
vary_rounds draw, the truncation policy, needs_update over a probe table) is compared with a small reference
model of the documented using() semantics; every node but the new one must be unchanged, and the raw class
dictionaries of the global hasher (whole MRO) and of every older derived class must be bit-identical.
"""
from __future__ import annotations

import copy
import hashlib
import json
import math
import warnings

from mc import core, env, explore
from mc import hashers as HS
from mc.core import Acc

warnings.filterwarnings("ignore")

ID = "C09"
LEVEL = "model_checking"
RULE = (
    "explicit-state BFS (mc.explore) per hasher over histories of events derive(node, option=value[, relaxed]) / "
    "hash(node) / needs_update(node) / setattr(derived wrapper, proxied attr); option values per hasher from its "
    "metadata: far below / just below / at min / three inside / at max / just above / far above each hard limit, as "
    "numbers and as strings, strict and relaxed, plus salts (legal, short, long, bad char, wrong type), idents and "
    "aliases, bool strings, variants, versions, block sizes, algs, markers, unknown keywords; depth 2 quick / 3 "
    "thorough (alphabet narrows with depth: full -> core -> tiny); states deduplicated on the tuple of observable "
    "snapshots of all live nodes; every transition is executed on the real classes and compared with the reference "
    "model; a case = one history; non-trivial = the event reached using()/hash()/needs_update() of a real hasher; "
    "distinct class = hasher|event kind|option|value class|mode|outcome, plus one class per distinct state"
)

PW = "pw-éx"
PW_OTHER = "pw-éy"
MISSING = "<missing>"

REPS = ("sha256_crypt", "sha512_crypt", "md5_crypt", "sha1_crypt", "bsdi_crypt", "des_crypt", "bcrypt", "bcrypt_sha256",
        "pbkdf2_sha256", "phpass", "scrypt", "fshp", "scram", "sun_md5_crypt", "cisco_type7", "unix_disabled",
        "ldap_salted_sha1", "mssql2005", "lmhash", "django_pbkdf2_sha256", "django_des_crypt", "htdigest", "plaintext")

ATTRS = ("name", "setting_kwds", "context_kwds", "min_rounds", "max_rounds", "rounds_cost", "min_desired_rounds",
         "max_desired_rounds", "default_rounds", "vary_rounds", "min_salt_size", "max_salt_size", "default_salt_size",
         "default_ident", "truncate_size", "truncate_error", "default_variant", "version", "block_size", "parallelism",
         "default_algs", "default_marker")
FIELD_ATTR = {"mn_d": "min_desired_rounds", "mx_d": "max_desired_rounds", "dflt": "default_rounds", "vary": "vary_rounds",
              "ssize": "default_salt_size", "ident": "default_ident", "trunc": "truncate_error",
              "variant": "default_variant", "version": "version", "bsize": "block_size", "par": "parallelism",
              "algs": "default_algs", "marker": "default_marker"}
ATTR_FIELD = {v: k for k, v in FIELD_ATTR.items()}
ATTR_ASPECT = {"min_rounds": "rounds", "max_rounds": "rounds", "rounds_cost": "rounds", "min_desired_rounds": "rounds",
               "max_desired_rounds": "rounds", "default_rounds": "rounds", "vary_rounds": "rounds",
               "min_salt_size": "salt", "max_salt_size": "salt", "default_salt_size": "salt", "default_ident": "ident",
               "truncate_size": "truncate", "truncate_error": "truncate"}
ASPECT_METHODS = {
    "rounds": ("using", "_generate_rounds", "_calc_vary_rounds_range", "_clip_to_desired_rounds", "_norm_rounds"),
    "needs_update": ("_calc_needs_update", "needs_update"),
    "salt": ("using", "_norm_salt", "_clip_to_valid_salt_size", "_generate_salt"),
    "ident": ("using", "_norm_ident"),
    "truncate": ("using", "_check_truncate_policy"),
    "other": ("using",),
}
ASPECT_MIXIN = {"rounds": "HasRounds", "needs_update": "HasRounds", "salt": "HasSalt", "ident": "HasManyIdents",
                "truncate": "TruncateMixin", "other": "MinimalHandler"}
OPT_ASPECT = {"rounds": "rounds", "min_rounds": "rounds", "max_rounds": "rounds", "min_desired_rounds": "rounds",
              "max_desired_rounds": "rounds", "default_rounds": "rounds", "vary_rounds": "rounds", "salt_size": "salt",
              "default_salt_size": "salt", "salt": "salt", "ident": "ident", "default_ident": "ident",
              "truncate_error": "truncate"}
ROUNDS_KEYS = ("rounds", "min_rounds", "max_rounds", "min_desired_rounds", "max_desired_rounds", "default_rounds", "vary_rounds")
MAX_RP = (1 << 30) - 1
BOOLS = {"true": True, "false": False, "yes": True, "no": False, "on": True, "off": False, "1": True, "0": False,
         "t": True, "f": False, "y": True, "n": False}
ALG_NAMES = {"sha1": "sha-1", "sha-1": "sha-1", "sha256": "sha-256", "sha-256": "sha-256", "sha512": "sha-512",
             "sha-512": "sha-512", "md5": "md5", "sha384": "sha-384", "sha-384": "sha-384"}
FSHP_ALIASES = {"0": 0, "1": 1, "2": 2, "3": 3, "sha1": 0, "sha256": 1, "sha384": 2, "sha512": 3}


def uh():
    import passlib.utils.handlers as m

    return m


# ---------------------------------------------------------------------------
# scripted random source answering by request kind (owned seam, mc.env)
# ---------------------------------------------------------------------------
class PinRng(env.ScriptedRng):
    """randint() (the vary_rounds draw, cisco_type7's offset) answers the low / high end; everything else
    (salt generation) answers a seed-derived filler value"""

    def __init__(self, mode, filler):
        super().__init__()
        self.mode = mode
        self.filler = filler

    def _answer(self, kind, size):
        self.log.append((kind, size))
        if size <= 0:
            raise core.HarnessError(f"empty request range for {kind}")
        if kind == "randint":
            return 0 if self.mode == "lo" else size - 1
        return self.filler % size


def fillers(seed):
    a = int.from_bytes(hashlib.sha256(b"c09:%d" % seed).digest(), "big") | 1
    return a, a + 1


def jval(v):
    """JSON-able, comparable rendering of an attribute value"""
    if v is None or isinstance(v, (bool, int, float, str)):
        return v
    if isinstance(v, bytes):
        return "b:" + v.hex()
    if isinstance(v, (list, tuple)):
        return [jval(x) for x in v]
    if isinstance(v, (set, frozenset)):
        return sorted(jval(x) for x in v)
    if isinstance(v, dict):
        return {str(k): jval(x) for k, x in sorted(v.items(), key=lambda kv: str(kv[0]))}
    return "<" + type(v).__name__ + ">"


def same(a, b):
    if isinstance(a, float) or isinstance(b, float):
        if isinstance(a, bool) or isinstance(b, bool):
            return a is b
        if isinstance(a, (int, float)) and isinstance(b, (int, float)):
            return abs(a - b) <= 1e-9
        return False
    if isinstance(a, bool) != isinstance(b, bool):
        return False
    return a == b


# ---------------------------------------------------------------------------
# per-hasher metadata (hard limits = the documented class constants of the unconfigured hasher), read once
# ---------------------------------------------------------------------------
class Meta:
    pass


_META = {}


def is_wrapper(obj):
    return isinstance(obj, uh().PrefixWrapper)


def warm(G):
    """force every lazy initialisation of the global hasher so that later differences are real mutations"""
    try:
        gb = getattr(G, "get_backend", None)
        if gb is not None:
            gb()
    except Exception:  # noqa: BLE001
        pass
    if is_wrapper(G):
        G.wrapped  # noqa: B018
        G.ident  # noqa: B018
        G.ident_values  # noqa: B018


def meta(name):
    M = _META.get(name)
    if M is not None:
        return M
    U = uh()
    G = HS.handler(name)
    warm(G)
    M = Meta()
    M.name = name
    M.G = G
    M.wrapper = is_wrapper(G)
    M.T0 = G.wrapped if M.wrapper else G
    T0 = M.T0
    M.inner_name = T0.name
    M.generic = isinstance(T0, type) and issubclass(T0, U.GenericHandler)
    M.kw = tuple(getattr(G, "setting_kwds", ()) or ())
    M.ckw = dict(HS.ctx_grid(name)[0])
    M.has_rounds = "rounds" in M.kw and getattr(T0, "min_rounds", None) is not None
    M.mn = getattr(T0, "min_rounds", None)
    M.mx = getattr(T0, "max_rounds", None)
    M.log2 = getattr(T0, "rounds_cost", None) == "log2"
    M.cisco7 = M.inner_name == "cisco_type7"
    sc = getattr(T0, "salt_chars", None)
    M.has_salt = "salt" in M.kw and (sc is not None or M.cisco7)
    M.raw_salt = isinstance(sc, bytes)
    M.salt_chars = sc
    M.has_ssize = "salt_size" in M.kw and M.has_salt and not M.cisco7
    M.mn_s = getattr(T0, "min_salt_size", None)
    M.mx_s = getattr(T0, "max_salt_size", None)
    iv = getattr(T0, "ident_values", None)
    M.has_ident = "ident" in M.kw and bool(iv) and hasattr(T0, "default_ident")
    M.ident_all = tuple(iv or ())
    M.idents = tuple(i for i in (iv or ()) if "2x" not in i)
    M.aliases = dict(getattr(T0, "ident_aliases", None) or {})
    M.trunc_size = getattr(T0, "truncate_size", None) if "truncate_error" in M.kw else None
    M.bsdi = M.inner_name == "bsdi_crypt"
    M.is_scrypt = M.inner_name == "scrypt"
    M.is_scram = M.inner_name == "scram"
    M.is_fshp = M.inner_name == "fshp"
    M.is_bsha = M.inner_name == "bcrypt_sha256"
    M.is_unixdis = M.inner_name == "unix_disabled"
    M.disabled = name in HS.DISABLED or M.inner_name in HS.DISABLED
    M.static = {a: jval(getattr(T0, a, MISSING)) for a in ATTRS}
    M.fields = tuple(f for f, a in FIELD_ATTR.items() if getattr(T0, a, MISSING) is not MISSING)
    if M.cisco7:
        M.fields = tuple(f for f in M.fields if f != "ssize")
    M.root = {f: jval(getattr(T0, FIELD_ATTR[f])) for f in M.fields}
    M.root["pin"] = None
    M.outer_attrs = ("name",) + tuple(a for a in ATTRS if a in U.PrefixWrapper._proxy_attrs) if M.wrapper else ()
    M.accept = accepted_keys(M)
    M.cost = cost_params(M)
    M.classes = raw_holders(G)
    M.pristine = raw_snapshot(M.classes)
    M.probes = None
    M.ctx_ok = None
    _META[name] = M
    return M


def accepted_keys(M):
    ks = {"relaxed"}
    if M.has_rounds:
        ks |= set(ROUNDS_KEYS)
    if M.has_salt:
        ks.add("salt")
    if M.has_ssize:
        ks |= {"salt_size", "default_salt_size"}
    if M.has_ident:
        ks |= {"ident", "default_ident"}
    if M.trunc_size is not None:
        ks.add("truncate_error")
    if M.is_fshp:
        ks.add("variant")
    if M.is_bsha:
        ks.add("version")
    if M.is_scrypt:
        ks |= {"block_size", "parallelism"}
    if M.is_scram:
        ks |= {"algs", "default_algs"}
    if M.is_unixdis:
        ks.add("marker")
    return ks


def cost_params(M):
    """(overhead ms, ms per unit) of one digest; unit = rounds (linear) / 2**rounds (log2) (x r x p for scrypt)"""
    b = M.inner_name
    if b == "sun_md5_crypt":
        return (33.0, 0.008)
    if b in ("bcrypt", "bcrypt_sha256", "django_bcrypt_sha256"):
        return (0.3, 1.3 / 16)
    if b in ("sha256_crypt", "sha512_crypt"):
        return (0.1, 0.001)
    if b == "phpass":
        return (0.05, 0.001)
    if b == "scrypt":
        return (0.05, 0.001)
    if b == "bsdi_crypt":
        return (0.1, 0.006)
    return (0.3, 0.004)


def est_ms(M, settings):
    over, per = M.cost
    r = settings.get("rounds")
    if r is None or not M.has_rounds:
        return over
    if M.log2:
        if r > 40:
            return 1e9
        units = float(1 << max(r, 0))
    else:
        units = float(r)
    if M.is_scrypt:
        units *= (settings.get("block_size") or 1) * (settings.get("parallelism") or 1)
    return over + per * units


# ---------------------------------------------------------------------------
# raw class dictionaries (isolation oracle): holder = class of the MRO, or a PrefixWrapper instance
# ---------------------------------------------------------------------------
def raw_holders(obj):
    hs = []
    if is_wrapper(obj):
        hs.append(obj)
        obj = obj.wrapped
    for c in obj.__mro__:
        if c is object or not str(getattr(c, "__module__", "")).startswith(("passlib", "libpass")):
            continue
        hs.append(c)
    return hs


def _copyval(v):
    if isinstance(v, (list, dict, set, bytearray)):
        try:
            return copy.deepcopy(v)
        except Exception:  # noqa: BLE001
            return v
    return v


WRAPPER_LAZY = ("_ident", "_ident_values", "_wrapped_handler")


def raw_snapshot(holders):
    return [(h, {k: (v, _copyval(v)) for k, v in vars(h).items()}) for h in holders]


def holder_name(h):
    return h.__name__ if isinstance(h, type) else f"wrapper:{h.name}"


def raw_diff(snap):
    """[(holder, attr, how)] for every attribute added / removed / rebound / mutated in place since snap"""
    out = []
    for h, before in snap:
        now = vars(h)
        lazy = WRAPPER_LAZY if not isinstance(h, type) else ()
        for k in now:
            if k in lazy:
                continue
            if k not in before:
                out.append((h, k, "added"))
            else:
                orig, cp = before[k]
                v = now[k]
                if v is not orig:
                    try:
                        eq = v == orig
                    except Exception:  # noqa: BLE001
                        eq = False
                    if not eq:
                        out.append((h, k, "rebound"))
                elif cp is not orig:
                    try:
                        if v != cp:
                            out.append((h, k, "mutated"))
                    except Exception:  # noqa: BLE001
                        pass
        for k in before:
            if k not in now and k not in lazy:
                out.append((h, k, "removed"))
    return out


def raw_restore(snap):
    for h, before in snap:
        now = dict(vars(h))
        isw = not isinstance(h, type)
        for k in now:
            if isw and k in WRAPPER_LAZY:
                continue
            if k not in before:
                try:
                    object.__delattr__(h, k) if isw else delattr(h, k)
                except Exception:  # noqa: BLE001
                    pass
        for k, (orig, cp) in before.items():
            cur = vars(h).get(k, MISSING)
            val = orig
            if cp is not orig:
                try:
                    if orig != cp:
                        val = copy.deepcopy(cp)
                except Exception:  # noqa: BLE001
                    pass
            if cur is not val:
                try:
                    object.__setattr__(h, k, val) if isw else setattr(h, k, val)
                except Exception:  # noqa: BLE001
                    pass


# ==END==
