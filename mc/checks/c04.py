"""C04 -- CryptContext identifies, verifies, flags and rehashes exactly per its policy.

E1: generated configurations (ordered scheme lists x default x deprecated x rounds settings x vary_rounds x category
overrides) are loaded into the real CryptContext and every decision on a probe table (hashes of every configured
scheme below / at / inside / at / above the cost window x password right / wrong x category None / admin / unknown)
is compared with mc.refs.ctxmodel.Policy (written from docs/lib/passlib.context.rst).  The cost of new hashes is swept
over the vary_rounds range by answering the owned random source at both ends.
E2: login histories -- state = stored hash, events = verify_and_update(right password) with the application storing
the replacement / verify_and_update(wrong password); every history reaches the fixed point (True, None) within 2 steps.
Plus: overlapping claimers (first claimant wins) and libpass.context.CryptContext.
"""
from __future__ import annotations

import itertools
import warnings

from mc import core, env
from mc import hashers as HS
from mc.core import Acc
from mc.refs import ctxmodel as M

warnings.filterwarnings("ignore")

ID = "C04"
LEVEL = "model_checking"
RULE = (
    "contexts = ordered subsets L (size 1-3, thorough 1-4) of the pool {sha256_crypt, pbkdf2_sha256, bsdi_crypt, "
    "md5_crypt, des_crypt, phpass, ldap_md5_crypt} x default {unset, each of L} x deprecated {unset, [], auto, each "
    "single scheme, all-but-default} x category override {none, admin deprecated=[L0], admin min_rounds on the first "
    "rounds-scheme, admin default=L[-1]} x cost pair (rounds axis r in 0..7: r=0 no rounds options, else the j-th "
    "rounds-scheme of L gets kind K[1+(r-1+j)%7] of K=(none, min, max, min=max, window+default_rounds, rounds=, "
    "beyond the hard limits, even max_rounds); vary_rounds {none, int per scheme, all__ float, all__ '10%'}) -- 32 "
    "cost pairs.  THINNING (deterministic, quick is a subset of thorough): the selection axes (list, default, "
    "deprecated, category override) are always fully crossed; of the 32 cost pairs the selection combo number si of "
    "list number li gets the k pairs (7*li+13*si+11*j)%32, j<k, with k by list size: quick {1:32, 2:4, 3:1}, thorough "
    "{1:32, 2:32, 3:8, 4:1} (k=32 is the full product).  Lists without a rounds-scheme have one cost pair.  Hashing at "
    "a scheme's own expensive default cost (rounds kinds none/min) is executed for the first context of each class "
    "(default scheme, its rounds kind[, vary, category override in thorough]); the other such contexts observe the "
    "cost of new hashes through CryptContext.genconfig(), which runs the same policy code without the digest.  "
    "Invalid configurations (the model says so) must raise.  Probes per configured scheme: costs {lo-1, lo, mid, hi, "
    "hi+1} of every category's window (plus lo+1 / hi-1 for schemes with a parity flag), real digests when cheap, "
    "synthetic strings (identify / needs_update only) when not.  Plus ordered subsets (2-3, thorough 2-4) of the "
    "overlapping claimers {hex_md5, hex_md4, nthash, plaintext, des_crypt, md5_crypt} and all ordered lists (1-3) of "
    "3 libpass hashers.  An evaluation = one decision of the real context compared with the model; non-trivial = the "
    "context was really built (or really refused) and really asked; distinct class = configuration class (list "
    "size, default, deprecated, rounds axis, vary, override kind) or probe class (scheme, rounds kind, cost position, "
    "category kind, expected decision).  states = (context, category, stored hash) visited by login histories, "
    "transitions = verify_and_update calls executed in them."
)

POOL = ("sha256_crypt", "pbkdf2_sha256", "bsdi_crypt", "md5_crypt", "des_crypt", "phpass", "ldap_md5_crypt")
OVERLAP = ("hex_md5", "hex_md4", "nthash", "plaintext", "des_crypt", "md5_crypt")
KINDS = ("none", "min", "max", "minmax", "window", "rounds", "beyond", "evenmax")
VARIES = ("none", "int", "float", "pct")
CATOVS = ("none", "dep", "min", "default")
CATS = (None, "admin", "unknown")
CATKIND = {None: "nocat", "admin": "cat", "unknown": "unknowncat"}
ENDS = ("lo", "hi", "mid")
# numeric scale of each rounds-scheme: a < m < r < b inside the hard limits and cheap to compute
SCALE = {
    "sha256_crypt": dict(a=1010, b=1400, r=1200, m=1100, even=1300, below=400, belowd=500, above=2 * 10**9, vint=7, cheap=1500),
    "pbkdf2_sha256": dict(a=100, b=300, r=200, m=150, even=280, below=-5, belowd=-2, above=2**32 + 5, vint=7, cheap=1500),
    "bsdi_crypt": dict(a=101, b=301, r=201, m=151, even=300, below=-5, belowd=0, above=2**24 + 9, vint=7, cheap=1000),
    "phpass": dict(a=8, b=10, r=9, m=9, even=10, below=3, belowd=5, above=40, vint=1, cheap=10),
    # a prefix-wrapped scheme with a cost (used by part cat_all only: it is not in POOL)
    "ldap_sha256_crypt": dict(a=1010, b=1400, r=1200, m=1100, even=1300, below=400, belowd=500, above=2 * 10**9, vint=7, cheap=1500),
    "ldap_pbkdf2_sha256": dict(a=100, b=300, r=200, m=150, even=280, below=-5, belowd=-2, above=2**32 + 5, vint=7, cheap=1500),
}


def rounds_opts(scheme, kind):
    s = SCALE[scheme]
    return {
        "none": {},
        "min": {"min_rounds": s["a"]},
        "max": {"max_rounds": s["b"]},
        "minmax": {"min_rounds": s["a"], "max_rounds": s["a"]},
        "window": {"min_rounds": s["a"], "max_rounds": s["b"], "default_rounds": s["r"]},
        "rounds": {"rounds": s["r"]},
        "beyond": {"min_rounds": s["below"], "default_rounds": s["belowd"], "max_rounds": s["above"]},
        "evenmax": {"max_rounds": s["even"]},
    }[kind]


def kind_of(rk, j):
    return "none" if rk == 0 else KINDS[1 + (rk - 1 + j) % 7]


def build_cfg(spec):
    L = list(spec["schemes"])
    cfg = {"schemes": L}
    if spec.get("default"):
        cfg["default"] = spec["default"]
    dep = spec.get("dep")
    if dep is not None:
        cfg["deprecated"] = ["auto"] if dep == "auto" else list(dep)
    rs = [s for s in L if s in SCALE]
    for j, s in enumerate(rs):
        for k, v in rounds_opts(s, kind_of(spec.get("rk", 0), j)).items():
            cfg[f"{s}__{k}"] = v
    vary = spec.get("vary", "none")
    if vary == "int":
        for s in rs:
            cfg[f"{s}__vary_rounds"] = SCALE[s]["vint"]
    elif vary == "float":
        cfg["all__vary_rounds"] = 0.5
    elif vary == "pct":
        cfg["all__vary_rounds"] = "10%"
    cat = spec.get("cat", "none")
    if cat == "dep":
        cfg["admin__context__deprecated"] = [L[0]]
    elif cat == "min" and rs:
        cfg[f"admin__{rs[0]}__min_rounds"] = SCALE[rs[0]]["m"]
    elif cat == "default":
        cfg["admin__context__default"] = L[-1]
    return cfg


# ---------------------------------------------------------------------------
# probe material (made with the UNCONFIGURED hashers)
# ---------------------------------------------------------------------------
_HC = {}


def _wrapped(H):
    return getattr(H, "wrapped", H)


def _salt(W, seed):
    size = getattr(W, "default_salt_size", None) or getattr(W, "min_salt_size", None) or 8
    chars = getattr(W, "salt_chars", None)
    raw = HS.filler(seed, size, b"c04salt")
    if chars is None or isinstance(chars, bytes):
        return raw
    return "".join(chars[b % len(chars)] for b in raw)


def make_hash(H, rounds, p, seed):
    """hash of p under the unconfigured hasher H at exactly `rounds` (no odd-forcing, no context)"""
    key = (H.name, rounds, p, seed)
    if key not in _HC:
        W = _wrapped(H)
        if "user" in (getattr(H, "context_kwds", None) or ()):
            _HC[key] = H.hash(p, user="u")
        elif "salt" not in W.setting_kwds and rounds is None:
            _HC[key] = H.hash(p)
        else:
            kw = {"salt": _salt(W, seed)} if "salt" in W.setting_kwds else {}
            if rounds is not None:
                kw["rounds"] = rounds
            o = W(use_defaults=True, **kw)
            o.checksum = o._calc_checksum(p)
            s = o.to_string()
            _HC[key] = H._wrap_hash(s) if hasattr(H, "_wrap_hash") else s
    return _HC[key]


def synth_hash(H, rounds, seed):
    """well-formed hash string of H at `rounds` whose digest belongs to another cost (never verified)"""
    key = (H.name, "synth", rounds, seed)
    if key not in _HC:
        W = _wrapped(H)
        base = make_hash(H, max(W.min_rounds, 1), "synthetic", seed)
        o = W.from_string(H._unwrap_hash(base) if hasattr(H, "_unwrap_hash") else base)
        o.rounds = rounds
        s = o.to_string()
        _HC[key] = H._wrap_hash(s) if hasattr(H, "_wrap_hash") else s
    return _HC[key]


_FLAG = {}
_MV = {}  # (claimant, password, hash) -> the unconfigured claimant's verify(): model side, digest computed once per process


def flagged(H, cost, seed=0):
    """does the scheme itself (unconfigured) flag a hash of this cost?"""
    key = (H.name, cost)
    if key not in _FLAG:
        _FLAG[key] = bool(H.needs_update(synth_hash(H, cost, seed)))
    return _FLAG[key]


def has_parity_flag(H):
    W = _wrapped(H)
    lo = max(W.min_rounds, 1)
    return flagged(H, lo) != flagged(H, lo + 1)


class EndRng(env.ScriptedRng):
    """answers the randint request (the rounds draw) at the chosen end of its range; salts get seed filler"""

    def __init__(self, end, seed):
        super().__init__()
        self.end = end
        self.seed = seed

    def _answer(self, kind, size):
        i = len(self.log)
        self.log.append((kind, size))
        if kind == "randint":
            return {"lo": 0, "hi": size - 1, "mid": size // 2}[self.end]
        return (self.seed * 2654435761 + i * 40503 + 12345) % size


def call(f, *a, **k):
    try:
        return "ok", f(*a, **k)
    except core.HarnessError:
        raise
    except Exception as e:  # noqa: BLE001
        return "exc", type(e).__name__


def position(cost, w):
    lo, hi = w
    if cost < lo:
        return "below"
    if hi is not None and cost > hi:
        return "above"
    if cost == lo:
        return "lo"
    if cost == hi:
        return "hi"
    return "inside"


def probe_costs(model, scheme):
    """[(cost, real?)] for one rounds-scheme: edges of every category's window"""
    H = model.handlers[scheme]
    W = _wrapped(H)
    cheap = SCALE.get(scheme, {}).get("cheap", W.min_rounds + 50)
    parity = has_parity_flag(H)
    costs = set()
    for cat in [None] + model.categories:
        lo, hi = model.window(scheme, cat)
        top = hi if hi is not None else lo + 10
        mid = (lo + top) // 2 if (lo + top) // 2 <= cheap else min(lo + 3, top)
        costs |= {lo - 1, lo, mid, top, top + 1}
        if parity:
            costs |= {lo + 1, top - 1, mid + 1}
    out = []
    for c in sorted(costs):
        if c < W.min_rounds or (W.max_rounds is not None and c > W.max_rounds):
            continue  # no such hash exists
        out.append((c, c <= cheap))
    return out


# ---------------------------------------------------------------------------
# one context against the model
# ---------------------------------------------------------------------------
def eval_ctx(case, acc=None):
    # ambient scripted source: no call of the context may ever reach the process-wide random generator
    with env.scripted_rng(EndRng("hi", case.get("seed", 0))):
        return _eval_ctx(case, acc)


def _eval_ctx(case, acc=None):
    from passlib.context import CryptContext

    acc = acc if acc is not None else Acc()
    cfg = case["cfg"]
    seed = case.get("seed", 0)
    heavy_ok = case.get("heavy_ok", False)
    out = []
    pw, bad = f"R{seed}-right", f"W{seed}-wrong"  # differ in the first character (des_crypt reads 8)
    # ---- validity ------------------------------------------------------------------------------------------
    try:
        model = M.Policy(cfg)
        why = None
    except M.Invalid as e:
        model, why = None, e.kind
    st, ctx = call(CryptContext, **cfg)
    acc.ev()
    if model is None:
        acc.outcome(("invalid", why, st))
        if st == "ok":
            out.append((f"C04|config|invalid_accepted:{why}",
                        f"CryptContext(**{cfg!r}) loads although the documentation makes it an error ({why})"))
        return out
    if st != "ok":
        acc.outcome(("valid_refused", ctx))
        if not model.unspecified:
            out.append((f"C04|config|valid_refused:{ctx}", f"CryptContext(**{cfg!r}) raised {ctx} on a valid configuration"))
        return out
    acc.outcome("loaded")

    def viol(comp, cls, desc, ck=None):
        # raw key; "@<category kind>" is folded / kept by finalize_keys()
        out.append((f"C04|{comp}|{cls}" + (f"@{ck}" if ck else ""), f"{desc}  [config {cfg!r}]"))

    H = model.handlers

    def mverify(p, h):
        k = (model.identify(h), p, h)
        if k not in _MV:
            if len(_MV) > 200000:
                _MV.clear()
            _MV[k] = model.verify(p, h)
        return _MV[k]

    def mvau(p, h, cat):
        return "F" if not mverify(p, h) else ("N" if model.needs_update(h, cat) else "T")

    # ---- which categories hash at an expensive cost ----------------------------------------------------------
    heavy = {}
    for cat in CATS:
        d = model.default(cat)
        nc = model.new_cost(d, cat)
        heavy[cat] = bool(nc and nc[1] is not None and nc[1] > SCALE.get(d, {}).get("cheap", 10**9))
    if any(heavy.values()):
        acc.count("heavy_contexts_real" if heavy_ok else "heavy_contexts_genconfig")

    def in_window(scheme, cat, cost):
        return position(cost, model.window(scheme, cat)) not in ("below", "above")

    def check_fresh(h, cat, real, what, end=None):
        """h was just produced by the context for `cat` (by hash() or as a replacement)"""
        d = model.default(cat)
        if not H[d].identify(h):
            viol(d, f"{what}:scheme", f"category {cat!r}: new hash {h!r} was not made by the default scheme {d} (made by {model.identify(h)})")
            return
        nc = model.new_cost(d, cat)
        if nc is not None:
            cost = model.rounds_of(d, h)
            w = model.window(d, cat)
            pos = position(cost, w)
            if pos in ("below", "above"):
                viol(d, f"{what}:cost_{pos}_window", f"category {cat!r}: new hash has cost {cost}, configured window {w}")
            if end is not None and nc[0] is not None:
                want = {"lo": (nc[0], nc[0]), "hi": (nc[1], nc[1]), "mid": nc}[end]
                ok = want[0] <= cost <= want[1]
                if not ok:
                    # a scheme that flags some costs (bsdi: even) may move to the neighbouring clean cost
                    near = want[0] if cost < want[0] else want[1]
                    ok = abs(cost - near) == 1 and flagged(H[d], near) and not flagged(H[d], cost)
                if not ok:
                    viol(d, f"{what}:cost:{end}_end", f"category {cat!r}: new hash has cost {cost} with the random source at its {end} end, expected {want} (vary range {nc})")
        if model.identify(h) != d:
            return  # an earlier scheme claims the default scheme's hashes: nothing more can be demanded
        st, r = call(ctx.needs_update, h, category=cat)
        acc.ev()
        if st != "ok":
            viol(d, f"{what}:needs_update_raises:{r}", f"needs_update of the just-made hash {h!r} raised {r}")
        elif r:
            viol(d, f"{what}:needs_update", f"category {cat!r}: the hash {h!r} the context has just produced needs updating under the same context and category")
        if real:
            st, r = call(ctx.verify, pw, h, category=cat)
            acc.ev()
            if st != "ok" or r is not True:
                viol(d, f"{what}:not_verifying", f"category {cat!r}: the new hash {h!r} does not verify its password ({st} {r})")

    # ---- default scheme and new hashes, per category ---------------------------------------------------------
    for cat in CATS:
        d = model.default(cat)
        st, r = call(ctx.default_scheme, category=cat)
        acc.ev()
        if (st, r) != ("ok", d):
            viol(d, "default_scheme", f"default_scheme({cat!r}) = {st} {r!r}, model {d!r}", CATKIND[cat])
        real = heavy_ok or not heavy[cat]
        for end in ENDS:
            rng = EndRng(end, seed)
            with env.scripted_rng(rng):
                st, h = call(ctx.hash, pw, category=cat) if real else call(ctx.genconfig, category=cat)
            acc.ev()
            acc.cls("new", d, CATKIND[cat], end, real, bool(model.new_cost(d, cat)) and model.new_cost(d, cat)[0] != model.new_cost(d, cat)[1])
            if st != "ok":
                viol(d, f"new_hash:raises:{h}", f"hash(category={cat!r}) raised {h} with the random source at the {end} end of the rounds range {model.new_cost(d, cat)} (hard limits {_wrapped(H[d]).min_rounds}..{_wrapped(H[d]).max_rounds})"
                     if model.new_cost(d, cat) else f"hash(category={cat!r}) raised {h}")
                continue
            check_fresh(h, cat, real, "new_hash", end)
            if model.new_cost(d, cat) is None or model.new_cost(d, cat)[0] == model.new_cost(d, cat)[1]:
                break  # no cost range to sweep
    # ---- probe table -------------------------------------------------------------------------------------------
    probes = []  # (scheme, cost, hash, password-known?)
    for s in model.schemes:
        if "rounds" in _wrapped(H[s]).setting_kwds:
            for cost, real in probe_costs(model, s):
                probes.append((s, cost, make_hash(H[s], cost, pw, seed) if real else synth_hash(H[s], cost, seed), real))
        else:
            probes.append((s, None, make_hash(H[s], None, pw, seed), True))
    kinds = case.get("spec", {}).get("kinds", {})
    step2_done = set()
    heavy_done = set()
    for i, (s, cost, h, real) in enumerate(probes):
        owner = model.identify(h)
        for ci, cat in enumerate(CATS):
            ck = CATKIND[cat]
            # identify
            st, r = call(ctx.identify, h, category=cat)
            acc.ev()
            if (st, r) != ("ok", owner):
                viol(s, f"identify:{'none' if st == 'ok' and r is None else 'other'}", f"identify({h!r}, category={cat!r}) = {st} {r!r}, first claimant in list order is {owner!r}")
            # needs_update
            want = model.needs_update(h, cat)
            w = model.window(owner, cat)
            pos = position(cost, w) if (w is not None and cost is not None and owner == s) else "-"
            reason = ("deprecated" if model.deprecated(owner, cat) else f"cost_{pos}" if pos in ("below", "above") else "flag" if want else "none")
            st, r = call(ctx.needs_update, h, category=cat)
            acc.ev()
            acc.cls("probe", s, kinds.get(s, "-"), pos, ck, reason, real)
            if st != "ok":
                viol(s, f"needs_update:raises:{r}", f"needs_update({h!r}, category={cat!r}) raised {r}")
            elif bool(r) != want:
                viol(s, f"needs_update:{reason}:missed" if want else f"needs_update:{'in_window' if pos != '-' else 'no_window'}:spurious",
                     f"needs_update({h!r}, category={cat!r}) = {r!r}, model {want} (scheme {owner}, deprecated={model.deprecated(owner, cat)}, cost {cost}, window {w})", ck)
            if not real:
                continue
            # verify (category has no influence: one category per probe, rotating)
            if ci == i % 3:
                for p, label in ((pw, "right"), (bad, "wrong")) if (i % 2 == 0 or cost is None) else ((pw, "right"),):
                    st, r = call(ctx.verify, p, h, category=cat)
                    acc.ev()
                    want_v = mverify(p, h)
                    if st != "ok" or r is not want_v:
                        viol(s, f"verify:{label}", f"verify({p!r}, {h!r}, category={cat!r}) = {st} {r!r}, model {want_v}")
            # ---- login history from the stored hash h (E2): the rotating category plus every category whose policy
            #      for this hash differs from it (the cheap decisions above are compared under all three)
            prim = CATS[i % 3]
            sig = lambda c: (model.needs_update(h, c), model.default(c), model.new_cost(model.default(c), c))  # noqa: E731
            if cat != prim and sig(cat) == sig(prim):
                continue
            acc.count("states")
            acc.count("histories")
            if ci == i % 3 and (i % 2 == 0 or cost is None):
                st, r = call(ctx.verify_and_update, bad, h, category=cat)
                acc.ev()
                acc.count("transitions")
                wv = mvau(bad, h, cat)
                if st != "ok" or not (wv == "F" and r == (False, None)):
                    if wv == "F":
                        viol(s, "verify_and_update:wrong_password", f"verify_and_update({bad!r}, {h!r}, category={cat!r}) = {st} {r!r}, expected (False, None)")
            shape = mvau(pw, h, cat)
            if shape == "N" and heavy[cat]:
                if not heavy_ok or cat in heavy_done:
                    acc.count("skipped_expensive_rehash")
                    continue
                heavy_done.add(cat)
            end = ENDS[(i + ci) % 3]
            with env.scripted_rng(EndRng(end, seed + 1)):
                st, r = call(ctx.verify_and_update, pw, h, category=cat)
            acc.ev()
            acc.count("transitions")
            acc.cls("vau", s, ck, shape, reason)
            acc.outcome(("vau", shape))
            if st != "ok":
                if shape == "N":  # verify() of this probe worked above: the failing step is the rehash with the default scheme
                    viol(model.default(cat), f"verify_and_update:rehash_raises:{r}",
                         f"verify_and_update({pw!r}, {h!r}, category={cat!r}) raised {r} (random source at the {end} end of the rounds range {model.new_cost(model.default(cat), cat)})")
                else:
                    viol(s, f"verify_and_update:raises:{r}", f"verify_and_update({pw!r}, {h!r}, category={cat!r}) raised {r}")
                continue
            got = "?" if not (isinstance(r, tuple) and len(r) == 2) else "F" if r == (False, None) else "T" if r == (True, None) else "N" if (r[0] is True and isinstance(r[1], str)) else "?"
            if got != shape:
                viol(s, f"verify_and_update:shape:{shape}->{got}:{reason}", f"verify_and_update({pw!r}, {h!r}, category={cat!r}) = {r!r}, model expects shape {shape} (F=(False,None) T=(True,None) N=(True,new)); reason {reason}")
            if got != "N":
                continue
            new = r[1]
            acc.count("states")
            check_fresh(new, cat, True, "replacement", end)
            # second login with the stored replacement: must be the fixed point
            d = model.default(cat)
            if model.identify(new) != d:
                continue
            if (cat, end) in step2_done:
                continue  # replacement hashes of one (category, rng end) differ by salt only
            step2_done.add((cat, end))
            st, r2 = call(ctx.verify_and_update, pw, new, category=cat)
            acc.ev()
            acc.count("transitions")
            if st != "ok" or r2 != (True, None):
                viol(d, "history:no_fixed_point", f"category {cat!r}: after storing the replacement {new!r} the next verify_and_update gives {st} {core.short(r2, 80)} instead of (True, None) -- the history does not reach a fixed point within 2 steps")
            st, r3 = call(ctx.verify_and_update, bad, new, category=cat)
            acc.ev()
            acc.count("transitions")
            if st != "ok" or r3 != (False, None):
                viol(d, "history:wrong_password_on_replacement", f"verify_and_update({bad!r}, replacement) = {st} {r3!r}")
    # ---- a hash nobody claims ----------------------------------------------------------------------------------
    for s in POOL:
        if s not in model.schemes:
            h = make_hash(HS.handler(s), SCALE[s]["a"] if s in SCALE else None, pw, seed)
            if model.identify(h) is None:
                st, r = call(ctx.identify, h)
                acc.ev()
                if (st, r) != ("ok", None):
                    viol(s, "identify:foreign", f"identify({h!r}) = {st} {r!r} although no configured scheme claims it")
                st, r = call(ctx.verify, pw, h)
                acc.ev()
                if st == "ok" and r:
                    viol(s, "verify:foreign", f"verify({pw!r}, {h!r}) = {r!r} although no configured scheme claims the hash")
                break
    return out


# ---------------------------------------------------------------------------
# libpass.context.CryptContext
# ---------------------------------------------------------------------------
LIBPASS = ("lp_sha256", "lp_sha512", "lp_pbkdf2_sha256")


def eval_libpass(case, acc=None):
    with env.scripted_rng(EndRng("hi", case.get("seed", 0))):
        return _eval_libpass(case, acc)


def _eval_libpass(case, acc=None):
    from libpass.context import CryptContext as LC
    from mc.checks.c01 import libpass_hasher

    acc = acc if acc is not None else Acc()
    names = case["schemes"]
    seed = case.get("seed", 0)
    pw, bad = f"R{seed}-right", f"W{seed}-wrong"  # differ in the first character (des_crypt reads 8)
    hz = {n: libpass_hasher(n, None) for n in LIBPASS}
    out = []
    st, ctx = call(LC, [hz[n] for n in names])
    acc.ev()
    if st != "ok":
        return [(f"C04|libpass|construct_raises:{ctx}", f"libpass CryptContext({names}) raised {ctx}")]
    first = hz[names[0]]
    st, h = call(ctx.hash, pw)
    acc.ev()
    if st != "ok" or not first.identify(h):
        out.append(("C04|libpass|hash:not_first_scheme", f"libpass CryptContext({names}).hash() = {st} {h!r}: not a hash of its first scheme"))
    else:
        for p, want in ((pw, True), (bad, False)):
            st, r = call(ctx.verify, p, h)
            acc.ev()
            if st != "ok" or r is not want:
                out.append((f"C04|libpass|own_hash:verify_{'right' if want else 'wrong'}", f"verify({p!r}, own hash) = {st} {r!r}"))
        st, r = call(ctx.needs_update, h)
        acc.ev()
        if st != "ok" or r:
            out.append(("C04|libpass|own_hash:needs_update", f"needs_update(hash just made) = {st} {r!r} under {names}"))
    for n in LIBPASS:
        hn = hz[n].hash(pw)
        member = n in names
        for p, want in ((pw, member), (bad, False)):
            st, r = call(ctx.verify, p, hn)
            acc.ev()
            acc.cls("libpass", tuple(names), n, want)
            if st == "ok" and bool(r) != want:
                out.append((f"C04|libpass|verify:{'member' if member else 'foreign'}:{'right' if p == pw else 'wrong'}",
                            f"libpass CryptContext({names}).verify({p!r}, {n} hash) = {r!r}, expected {want}"))
            elif st != "ok" and member:
                out.append((f"C04|libpass|verify:member:raises:{r}", f"libpass CryptContext({names}).verify({p!r}, {n} hash) raised {r}"))
        want = not first.identify(hn)
        st, r = call(ctx.needs_update, hn)
        acc.ev()
        if st != "ok" or bool(r) != want:
            out.append((f"C04|libpass|needs_update:{'first' if not want else 'other'}_scheme", f"libpass CryptContext({names}).needs_update({n} hash) = {st} {r!r}, expected {want}"))
    return out


FIXED_COMPONENTS = ("config", "libpass", "any_scheme")


def split_key(raw):
    body, _, ck = raw.partition("@")
    _, comp, cls = body.split("|", 2)
    return comp, cls, ck


def key_variants(raw):
    """every final key a raw key may be reported under (see finalize_keys)"""
    comp, cls, ck = split_key(raw)
    out = []
    for c in (comp, "any_scheme") if comp not in FIXED_COMPONENTS else (comp,):
        out.append(f"C04|{c}|{cls}")
        if ck:
            out.append(f"C04|{c}|{cls}:{ck}")
    return out


def finalize_keys(violations):
    """one defect -> a handful of keys: a failing class seen under >= 2 category kinds loses the category suffix, one
    seen for >= 3 schemes is reported under the component 'any_scheme' (the description still names scheme / category)"""
    cats, comps = {}, {}
    for raw, _, _ in violations:
        comp, cls, ck = split_key(raw)
        cats.setdefault((comp, cls), set()).add(ck)
    stage = []
    for raw, desc, case in violations:
        comp, cls, ck = split_key(raw)
        cls2 = cls if (not ck or len(cats[comp, cls]) >= 2) else f"{cls}:{ck}"
        stage.append((comp, cls2, desc, case))
        if comp not in FIXED_COMPONENTS:
            comps.setdefault(cls2, set()).add(comp)
    return [(f"C04|{'any_scheme' if len(comps.get(cls2, ())) >= 3 else comp}|{cls2}", desc, case) for comp, cls2, desc, case in stage]


def replay(case):
    if case.get("part") == "ambiguous":
        from mc.checks import c04_amb

        return c04_amb.replay(case)
    if case.get("part") in ("zero_limits", "reused_hashers", "versioned", "aliases", "derived"):
        from mc.checks import c04_zero

        return c04_zero.replay(case)
    if case.get("part") == "empty_category":
        return eval_empty_category(case)
    vs = eval_libpass(case) if case.get("part") == "libpass" else eval_ctx(case)
    out, seen = [], set()
    for raw, desc in vs:
        for k in key_variants(raw):
            if k not in seen:
                seen.add(k)
                out.append((k, desc))
    return out


# ---------------------------------------------------------------------------
# enumeration
# ---------------------------------------------------------------------------
K_QUICK = {1: 32, 2: 4, 3: 1}
K_THOROUGH = {1: 32, 2: 32, 3: 8, 4: 1}


def selections(L):
    """default x deprecated x category override, fully crossed (dependent: duplicates of the same list removed)"""
    out = []
    rs = [s for s in L if s in SCALE]
    for d in [None] + list(L):
        deps = [None, [], "auto"] + [[s] for s in L]
        abd = [s for s in L if s != (d or L[0])]
        if abd not in deps:
            deps.append(abd)
        for dep in deps:
            for cat in CATOVS:
                if cat == "min" and not rs:
                    continue
                out.append((d, dep, cat))
    return out


def simple_default(L, d, dep):
    if d:
        return d
    for s in L:
        if dep in (None, "auto") or s not in dep:
            return s
    return L[0]


def gen_specs(quick, seed):
    """yields (spec, in_quick) for the thorough space; quick specs are flagged"""
    KQ, KT = K_QUICK, K_THOROUGH
    li = 0
    for n in (1, 2, 3, 4):
        for L in itertools.permutations(POOL, n):
            li += 1
            if quick and n not in KQ:
                continue
            rs = [s for s in L if s in SCALE]
            for si, (d, dep, cat) in enumerate(selections(L)):
                k = (KQ if quick else KT)[n]
                pairs = [(7 * li + 13 * si + 11 * j) % 32 for j in range(k)] if rs else [0]
                for pi in pairs:
                    rk, vi = divmod(pi, 4)
                    yield {"schemes": list(L), "default": d, "dep": dep, "cat": cat, "rk": rk, "vary": VARIES[vi],
                           "kinds": {s: kind_of(rk, j) for j, s in enumerate(rs)}}


# ---------------------------------------------------------------------------
# part "cat_all": per-category settings given through the 'all' pseudo-scheme (admin__all__<option>), with and without
# a category option of the scheme's own next to them, with and without a category deprecation list
# ---------------------------------------------------------------------------
CAT_ALL_LISTS = (("sha256_crypt",), ("pbkdf2_sha256", "md5_crypt"), ("md5_crypt", "sha256_crypt"), ("bsdi_crypt", "pbkdf2_sha256"),
                 ("des_crypt", "pbkdf2_sha256", "phpass"),
                 # prefix-wrapped schemes (objects, not classes) next to their class-based twins
                 ("ldap_sha256_crypt", "md5_crypt"), ("sha256_crypt", "ldap_sha256_crypt"), ("ldap_pbkdf2_sha256", "pbkdf2_sha256"))


def cat_all_cfgs():
    out = []
    for L in CAT_ALL_LISTS:
        rs = [s for s in L if s in SCALE]
        s0 = rs[0]
        sc = SCALE[s0]
        globs = {"none": {}, "window": {f"{s0}__min_rounds": sc["a"], f"{s0}__max_rounds": sc["b"], f"{s0}__default_rounds": sc["r"]},
                 "all_vary": {"all__vary_rounds": 0.1, f"{s0}__default_rounds": sc["r"]},
                 # (deprecated but documented: limits for every scheme at once)
                 "all_window": {"all__min_rounds": sc["a"], "all__max_rounds": sc["b"]}, "all_max": {"all__max_rounds": sc["b"]}}
        alls = {"min": {"admin__all__min_rounds": sc["m"]}, "max": {"admin__all__max_rounds": sc["m"]},
                "default": {"admin__all__default_rounds": sc["m"]}, "rounds": {"admin__all__rounds": sc["m"]},
                "vary_float": {"admin__all__vary_rounds": 0.25}, "vary_pct": {"admin__all__vary_rounds": "10%"},
                "vary_int": {"admin__all__vary_rounds": sc["vint"]}, "truncate_error": {"admin__all__truncate_error": True},
                "window": {"admin__all__min_rounds": sc["a"] + 1, "admin__all__max_rounds": sc["b"] - 1}}
        owns = {"none": {}, "own_max": {f"admin__{s0}__max_rounds": sc["b"]}, "own_default": {f"admin__{s0}__default_rounds": sc["r"]}}
        deps = {"none": {}, "cat_dep": {"admin__context__deprecated": [L[-1]]} if len(L) > 1 else None,
                "same_dep": {"deprecated": [L[-1]], "admin__context__deprecated": [L[-1]]} if len(L) > 1 else None}
        for gk, g in globs.items():
            for ak, a in alls.items():
                for ok, o in owns.items():
                    for dk, d in deps.items():
                        if d is None:
                            continue
                        cfg = {"schemes": list(L)}
                        for part in (g, a, o, d):
                            cfg.update(part)
                        out.append((f"{len(L)}:{s0}:{gk}:{ak}:{ok}:{dk}", cfg))
        # a category value that compares EQUAL to the global one and means something else: vary_rounds 1 is +-1 round,
        # vary_rounds 1.0 is +-100 % (both directions, scheme-level and through the 'all' pseudo-scheme)
        for tag, g_key, c_key in (("own", f"{s0}__vary_rounds", f"admin__{s0}__vary_rounds"), ("all", "all__vary_rounds", "admin__all__vary_rounds")):
            for gv, cv, vk in ((1, 1.0, "int_vs_float"), (1.0, 1, "float_vs_int")):
                cfg = {"schemes": list(L), f"{s0}__default_rounds": sc["r"], f"{s0}__min_rounds": sc["a"], f"{s0}__max_rounds": sc["b"], g_key: gv, c_key: cv}
                out.append((f"{len(L)}:{s0}:equal_valued:{vk}:{tag}:none", cfg))
    return out


def work_cat_all(task):
    acc = Acc()
    for label, cfg in task["cases"]:
        case = {"part": "cat_all", "cfg": cfg, "seed": task["seed"], "heavy_ok": False, "label": label}
        acc.cls("cat_all", label)
        acc.axis("cat_all_option", label.split(":")[3])
        for key, desc in eval_ctx(case, acc):
            acc.violation(key, desc, case)
    return acc


def eval_empty_category(case):
    """a category the configuration does not name -- the empty string among them -- is the default category: every
    decision under category='' equals the decision under category=None"""
    from passlib.context import CryptContext

    cfg = case["cfg"]
    out = []
    try:
        with warnings.catch_warnings():
            warnings.simplefilter("ignore")
            ctx = CryptContext(**cfg)
            probe = ctx.hash("pw")
    except Exception:  # noqa: BLE001 - the configurations are judged by the other parts
        return out
    ops = {
        "default_scheme": lambda c: ctx.default_scheme(c),
        "handler": lambda c: ctx.handler(category=c).name,
        "identify": lambda c: ctx.identify(probe, category=c),
        "needs_update": lambda c: ctx.needs_update(probe, category=c),
        "verify": lambda c: ctx.verify("pw", probe, category=c),
        "verify_and_update": lambda c: ctx.verify_and_update("pw", probe, category=c)[0],
        "genconfig_scheme": lambda c: ctx.identify(ctx.genconfig(category=c)),
        "hash_scheme": lambda c: ctx.identify(ctx.hash("pw", category=c)),
    }
    for cat in ("", " ", "no-such-category"):
        for op, f in ops.items():
            with warnings.catch_warnings():
                warnings.simplefilter("ignore")
                a, b = call(f, None), call(f, cat)
            if a != b:
                out.append((f"C04|category|unnamed_category_differs:{op}:{'empty' if cat == '' else 'blank' if cat == ' ' else 'unknown'}",
                            f"{op} under category={cat!r} gives {b!r}, under category=None {a!r}  [config {cfg!r}]"))
    return out


def work_empty_category(task):
    acc = Acc()
    for label, cfg in task["cases"]:
        case = {"part": "empty_category", "cfg": cfg}
        acc.ev()
        acc.cls("empty_category", label)
        for key, desc in eval_empty_category(case):
            acc.violation(key, desc, case)
    return acc


def full_product_size(maxn):
    total = 0
    for n in range(1, maxn + 1):
        for L in itertools.permutations(POOL, n):
            total += len(selections(L)) * (32 if any(s in SCALE for s in L) else 1)
    return total


def expand(t, seed):
    """compact task tuple -> self-contained case"""
    part, idx, heavy_ok, L, d, dep, cat, rk, vi = t
    if part == "libpass":
        return {"part": "libpass", "schemes": list(L), "seed": seed, "idx": idx}
    rs = [s for s in L if s in SCALE]
    sp = {"schemes": list(L), "default": d, "dep": dep, "cat": cat, "rk": rk, "vary": VARIES[vi], "kinds": {s: kind_of(rk, j) for j, s in enumerate(rs)}}
    return {"part": part, "spec": sp, "cfg": build_cfg(sp), "seed": seed, "heavy_ok": heavy_ok, "idx": idx}


def work(task):
    acc = Acc()
    for t in task["cases"]:
        case = expand(t, task["seed"])
        part = case["part"]
        if part == "libpass":
            vs = eval_libpass(case, acc)
            acc.axis("part", "libpass")
        else:
            sp = case["spec"]
            n = len(sp["schemes"])
            acc.cls("cfg", part, n, "d" if sp.get("default") else "-", ("auto" if sp.get("dep") == "auto" else "unset" if sp.get("dep") is None else len(sp["dep"])),
                    sp.get("rk", 0), sp.get("vary", "none"), sp.get("cat", "none"), sp["schemes"][0])
            acc.axis("part", part)
            acc.axis("list_size", n)
            acc.axis("default", "set" if sp.get("default") else "unset")
            acc.axis("deprecated", "auto" if sp.get("dep") == "auto" else "unset" if sp.get("dep") is None else f"list{len(sp['dep'])}")
            acc.axis("rounds_axis", sp.get("rk", 0))
            acc.axis("vary", sp.get("vary", "none"))
            acc.axis("category_override", sp.get("cat", "none"))
            for s, k in sp.get("kinds", {}).items():
                acc.axis("scheme_rounds_kind", f"{s}:{k}")
            for s in sp["schemes"]:
                acc.axis("scheme", s)
            vs = eval_ctx(case, acc)
            acc.count("contexts")
        for key, desc in vs:
            acc.violation(key, desc, case)
        if vs or acc.counters["contexts"] % 4001 == 1:
            acc.sample(case)
    return acc


def run(ctx):
    seed = ctx.seed
    cases = []  # compact tuples (part, idx, heavy_ok, schemes, default, deprecated, override, rounds axis, vary index)
    seen_heavy = set()
    for sp in gen_specs(ctx.quick, seed):
        L = sp["schemes"]
        d = simple_default(L, sp["default"], sp["dep"])
        kd = sp["kinds"].get(d)
        heavy_ok = False
        if kd in ("none", "min"):
            cls = (d, kd) if ctx.quick else (d, kd, sp["vary"], sp["cat"])
            if cls not in seen_heavy:
                seen_heavy.add(cls)
                heavy_ok = True
        cases.append(("ctx", len(cases), heavy_ok, tuple(L), sp["default"], sp["dep"], sp["cat"], sp["rk"], VARIES.index(sp["vary"])))
    nctx = len(cases)
    for n in (2, 3) if ctx.quick else (2, 3, 4):
        for L in itertools.permutations(OVERLAP, n):
            for dep in (None, "auto"):
                cases.append(("overlap", len(cases), False, tuple(L), None, dep, "none", 0, 0))
    for n in (1, 2, 3):
        for L in itertools.permutations(LIBPASS, n):
            cases.append(("libpass", len(cases), False, tuple(L), None, None, "none", 0, 0))
    ctx.log(f"{nctx} pool contexts, {len(cases) - nctx} overlap / libpass contexts, {len(seen_heavy)} executed at expensive default cost")
    # heavy contexts first (long), then interleave for balance
    heavy = [c for c in cases if c[2]]
    rest = [c for c in cases if not c[2]]
    nsh = 512 if len(rest) > 20000 else 128
    tasks = [{"cases": [c], "seed": seed} for c in heavy] + [{"cases": rest[i::nsh], "seed": seed} for i in range(nsh) if rest[i::nsh]]
    acc = core.pmap(work, tasks)
    acc.violations.sort(key=lambda v: v[2].get("idx", 0))
    acc.violations = finalize_keys(acc.violations)
    ctx.merge(acc)
    # part "ambiguous": first-claimant attribution among schemes whose hash strings are indistinguishable by shape
    from mc.checks import c04_amb

    ctx.merge(core.pmap(c04_amb.work, c04_amb.tasks()), part="ambiguous")
    # part "zero_limits": cost limits whose value is 0 (sun_md5_crypt)
    from mc.checks import c04_zero

    ctx.merge(core.pmap(c04_zero.work, c04_zero.tasks()), part="zero_limits")
    # part "reused_hashers": contexts built from the configured hasher objects of another context
    ctx.merge(core.pmap(c04_zero.work_reuse, c04_zero.tasks_reuse()), part="reused_hashers")
    # part "versioned": a scheme that flags its own outdated format version (bcrypt_sha256 v1 / v2)
    ctx.merge(core.pmap(c04_zero.work_versioned, c04_zero.tasks_versioned()), part="versioned")
    # part "aliases": legacy spellings and positional arguments of the decisions
    ctx.merge(core.pmap(c04_zero.work_aliases, c04_zero.tasks_aliases()), part="aliases")
    # part "derived": the policy after copy / update / using / export+import / load(other context), incl. empty per-category lists
    ctx.merge(core.pmap(c04_zero.work_derived, c04_zero.tasks_derived()), part="derived")
    # part "cat_all": per-category settings through the 'all' pseudo-scheme
    ca = cat_all_cfgs()
    acc_ca = core.pmap(work_cat_all, [{"cases": ca[i::32], "seed": seed} for i in range(32)])
    acc_ca.violations = finalize_keys(acc_ca.violations)
    ctx.merge(acc_ca, part="cat_all")
    # part "empty_category": categories the configuration does not name, '' among them
    ctx.merge(core.pmap(work_empty_category, [{"cases": ca[i::16][:12]} for i in range(16)]), part="empty_category")
    ctx.cov["states"] = acc.counters["states"]
    ctx.cov["transitions"] = acc.counters["transitions"]
    ctx.cov["traces_validated_against_impl"] = acc.counters["histories"]
    ctx.cov["contexts"] = acc.counters["contexts"]
    ctx.cov["full_product_contexts"] = full_product_size(3 if ctx.quick else 4)
    ctx.assume("cost pairs (rounds axis x vary_rounds) are rotated, not fully crossed, for the larger scheme lists: see RULE; "
               "the selection axes are always fully crossed")
    ctx.assume("hashing at a scheme's own expensive default cost is executed once per class; elsewhere the cost of new "
               "hashes is observed through CryptContext.genconfig() (same policy code, stub digest)")
    ctx.assume("verify does not depend on the category (documented): asked under one category per probe, rotating")
