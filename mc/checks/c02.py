"""C02 -- every format computes the published algorithm bit for bit.

Engine E1 (bounded-exhaustive products).  For every format of mc.refs.formats.REFS (plus the
libpass.hashers classes) x every selectable passlib backend of that format, the union of these
*complete* sub-products is walked (nothing is sampled; VERIF_SEED only rotates filler symbols):

  A  all password lengths x all content classes  x 2 salts x the cost set (42-residues for sha2-crypt)
  B  small password set x every salt size x the walk that puts every salt symbol in every position x 2 costs
  C  small password set x every cost value x 1 salt
  D  small password set x idents x variants x users x realms x encodings
  E  byte grid: passwords in which every byte value 1..255 (text formats: a code-point walk) occurs
     at every position of the significant prefix

Oracle per case, both directions:
  (1) H.using(settings).hash(p, **ctx)  ==  reference string            [hash!=ref]
  (2) H.verify(p, reference string) is True                             [verify(ref)=False]
      H.verify(near-miss of p, reference string) is False               [verify(nearmiss)=True]
  (3) third parties (libxcrypt crypt_r, bcrypt wheel, OpenSSL, Django hashers) must equal the
      reference -- a disagreement there is a HarnessError, never a violation; because they are
      string-equal to the reference, (2) is also the proof that their output verifies under passlib.
"""
from __future__ import annotations

import itertools
import os
import warnings

from mc import core
from mc.core import Acc, HarnessError
from mc.refs import formats as F

ID = "C02"
LEVEL = "exploration"
RULE = (
    "per format x selectable backend: union of complete sub-products A (lengths x contents x salts x cost set; for "
    "sha2-crypt the full lengths x 42-residue product), B (small passwords x every salt size + the walk putting every "
    "salt symbol in every position), C (small passwords x every cost), D (small passwords x idents x variants x users "
    "x realms x encodings x 2 costs), E (byte / code-point grid over the significant prefix); budget classes cheap / "
    "medium / slow (sun_md5, builtin bcrypt, builtin scrypt, atlassian, msdcc2) / wrapper ({CRYPT} prefixes) / token "
    "(non-bcrypt handlers over the pure-Python blowfish) shrink the small sets and stride the walks, never the "
    "length or residue boundaries of A; a case is non-trivial when passlib really computed a digest for it and the "
    "reference rendered the full string; distinct class = format|backend|length|content|salt-shape|cost|"
    "ident/variant|context"
)

QUICK_LENGTHS = [0, 1, 7, 8, 9, 15, 16, 17, 55, 56, 63, 64, 65, 72, 73, 95, 96, 97, 127, 128, 129, 255, 256]
THOROUGH_LENGTHS = sorted(set(range(0, 131)) | set(QUICK_LENGTHS) | {1000, 4095, 4096})
TEXT_EXTRA = [27, 28, 31, 32, 33]  # utf-16 formats: MD4/SHA-1 block edges counted in characters
CRYPT_EDGE = [511, 512]  # libxcrypt's passphrase limit; the os_crypt backends must cope
SMALL_LENGTHS = [0, 1, 8, 9, 17, 56, 97]
USERS = ["", "a", "user", "User", "üser", "Administrator_of_the_whole_Example_Domain",
         # names on which lower(), casefold() and upper().lower() disagree (case folding of the account name is
         # part of msdcc / msdcc2 / oracle10 / postgres_md5-style formats)
         "Straße", "ΟΔΥΣΣΕΥΣ", "ſtaff", "ﬁle", "İstanbul", "ǅon"]
REALMS = ["", "realm", "Réalm 2"]

# formats whose reference is slow (bit-list DES / literal PBKDF2) or whose implementation is slow
SLOW = {"sun_md5_crypt", "atlassian_pbkdf2_sha1", "msdcc2"}
DES_REF = {"des_crypt", "bsdi_crypt", "bigcrypt", "crypt16", "django_des_crypt", "ldap_des_crypt",
           "ldap_bsdi_crypt", "oracle10", "lmhash"}
WRAPPERS = {n for n in F.REFS if n.startswith("ldap_") and n.endswith("_crypt")} | {"ldap_bcrypt"}
BCRYPT_FAMILY = {"bcrypt", "bcrypt_sha256", "django_bcrypt", "django_bcrypt_sha256", "ldap_bcrypt"}

# ---------------------------------------------------------------------------
# libpass hashers (their own API); the reference is the one of the format they claim to emit
# ---------------------------------------------------------------------------
LIBPASS = {
    "libpass.sha256_crypt": ("sha256_crypt", "SHA256Hasher"),
    "libpass.sha512_crypt": ("sha512_crypt", "SHA512Hasher"),
    "libpass.bcrypt": ("bcrypt", "BcryptHasher"),
    "libpass.bcrypt_sha256": ("bcrypt_sha256", "BcryptSHA256Hasher"),
    "libpass.pbkdf2_sha256": ("pbkdf2_sha256", "PBKDF2SHA256Handler"),
    "libpass.pbkdf2_sha512": ("pbkdf2_sha512", "PBKDF2SHA512Handler"),
}


def all_formats():
    names = list(F.REFS) + list(LIBPASS)
    only = os.environ.get("VERIF_C02_ONLY")  # debugging aid: restrict the format axis (evidence then says so)
    if only:
        names = [n for n in names if n in only.split(",")]
    return names


def axes_of(fmt):
    if fmt in LIBPASS:
        base = dict(F.AXES[LIBPASS[fmt][0]])
        base["other"] = {}
        base["ident"] = None
        if fmt == "libpass.bcrypt":
            base["ident"] = ["2b", "2a"]
            base["maxlen"] = 72  # the wheel refuses longer keys; size limits are C05's subject
        if fmt.startswith("libpass.pbkdf2"):
            base["salt"] = dict(type="bytes", min=1, max=64)  # salt=b"" means "generate one" in this API
        return base
    return F.AXES[fmt]


def handler(fmt):
    from passlib import registry

    return registry.get_crypt_handler(fmt)


UNUSABLE = {}


def backends_of(fmt):
    """selectable backends of a format, in declaration order; [None] when the format has no backend axis"""
    if fmt in LIBPASS:
        return ["libpass"]
    H = handler(fmt)
    names = getattr(H, "backends", None)
    if not names:
        return [None]
    out = []
    with warnings.catch_warnings():
        warnings.simplefilter("ignore")
        for b in names:
            try:
                if H.has_backend(b):
                    out.append(b)
            except Exception as e:  # noqa: BLE001 - a backend that cannot be probed is C03's subject; it is listed
                UNUSABLE[(fmt, b)] = repr(e)
    return out or [None]


# ---------------------------------------------------------------------------
# passwords
# ---------------------------------------------------------------------------
_MIXED = "aZ0 b\tY9!q~R5_{}:$,=|x*"
_MULTI = ["\u00e9", "\u20ac", "\U0001d11e", "k"]  # 2, 3, 4, 1 bytes of UTF-8
_UNI = "a\u00e9\u00df\u03c2\u0131\u0416\u4e2d\U0001d11eZ\u00ff\u0149\u01c6 q"  # case-folding oddities, BMP, astral
_OEM = "p\u00e9\u00fc\u00f1\u00c4\u00e7\u00a3aZ9 "  # present in cp437 and latin-1
_SASL = "a\u00aaB\u00ad\u00e9\u2168\u00a0 q\u0416"  # mapped-to-nothing, NFKC-changed, space-mapped characters


def make_password(kind, content, n, seed):
    """deterministic password of class `content` with size n (bytes for byte formats, characters for text)"""
    rot = seed % 251
    if content == "ascii":
        return "".join(chr(97 + (7 * i + n + rot) % 26) for i in range(n))
    if content == "mixed":
        s = "".join(_MIXED[(i + n + rot) % len(_MIXED)] for i in range(n))
        if kind == "ldap_plain" and s[:1] == "{":
            s = "k" + s[1:]
        return s if kind in ("text", "oem", "plain", "ldap_plain", "saslprep", "encodable") else s.encode("ascii")
    if content == "walk":  # every byte value 1..255
        return bytes(1 + (37 * i + 11 * n + rot) % 255 for i in range(n))
    if content == "high":  # not UTF-8
        return bytes(0x80 + (11 * i + n + rot) % 128 for i in range(n))
    if content == "utf8":  # multi-byte characters, exactly n bytes of UTF-8
        out, left, i = [], n, n + rot
        while left:
            ch = _MULTI[i % 4]
            size = len(ch.encode("utf-8"))
            if size > left:
                ch, size = "k", 1
            out.append(ch)
            left -= size
            i += 1
        return "".join(out)
    if content == "uni":
        return "".join(_UNI[(i + n + rot) % len(_UNI)] for i in range(n))
    if content == "oem":
        return "".join(_OEM[(i + n + rot) % len(_OEM)] for i in range(n))
    if content == "sasl":
        return "".join(_SASL[(i + 3 * n + rot) % len(_SASL)] for i in range(n))
    raise HarnessError(f"unknown content {content}")


def contents_for(kind):
    if kind in ("bytes", "nonul"):
        return ["ascii", "mixed", "walk", "utf8", "high"]
    if kind == "text":
        return ["ascii", "mixed", "uni", "utf8"]
    if kind == "oem":
        return ["ascii", "mixed", "oem"]
    if kind == "encodable":
        return ["ascii", "mixed", "oem", "walk"]
    if kind in ("plain", "ldap_plain"):
        return ["ascii", "mixed", "uni", "utf8"]
    if kind == "saslprep":
        return ["ascii", "mixed", "sasl"]
    raise HarnessError(kind)


def byte_len(p):
    return len(p.encode("utf-8")) if isinstance(p, str) else len(p)


def admissible(fmt, ax, p, ctx, backend):
    """is p a password the format (and this backend) admits?  inadmissible cases are simply not generated"""
    kind = ax["secret"]
    raw = p.encode("utf-8") if isinstance(p, str) else p
    if b"\x00" in raw:
        return False
    if ax["maxlen"] is not None and len(raw) > ax["maxlen"]:
        return False
    if kind == "ldap_plain":
        import re

        if not p or re.match(r"^\{\w+\}.*$", p if isinstance(p, str) else p.decode("latin-1")):
            return False
    if kind == "saslprep":
        from mc.refs import saslprep as sp

        try:
            if isinstance(p, bytes):
                p = p.decode("utf-8")
            sp.saslprep(p)
            # U+200B has two legitimate readings (see mc.refs.saslprep); never generated
            if "\u200b" in p:
                return False
        except (ValueError, UnicodeDecodeError):
            return False
    if kind in ("oem", "encodable") and isinstance(p, str):
        enc = ctx.get("encoding") or ("cp437" if kind == "oem" else "utf-8")
        try:
            p.upper().encode(enc)
            p.encode(enc)
        except UnicodeEncodeError:
            return False
    if backend == "os_crypt" and fmt.split(".")[-1].replace("ldap_", "").replace("django_", "") in ("bcrypt", "bcrypt_sha256"):
        # documented: Python's crypt() takes UTF-8 text only and the bcrypt handler refuses other bytes
        try:
            raw.decode("utf-8")
        except UnicodeDecodeError:
            return False
    return True


def near_miss(p):
    """a password no documented equivalence identifies with p: the first symbol becomes a digit whose low
    seven bits differ from those of p's first byte (the DES family ignores bit 7; case folding, blank
    skipping and SASLprep never touch digits)"""
    raw = p.encode("utf-8") if isinstance(p, str) else p
    first = raw[0] & 0x7F if raw else -1
    digit = next(d for d in "123" if ord(d) != first)
    if isinstance(p, str):
        return digit + p[1:]
    return digit.encode("ascii") + p[1:]


# ---------------------------------------------------------------------------
# budgets: how much of the grid a (format, backend) pair gets
# ---------------------------------------------------------------------------
def budget(fmt, backend):
    base = fmt.split(".")[-1]
    if backend == "builtin" and base.replace("ldap_", "") in BCRYPT_FAMILY and base != "bcrypt":
        return "token"  # the pure-Python blowfish (~0.1-0.3 s per hash) is walked through `bcrypt` itself
    if fmt in WRAPPERS:
        return "wrapper"  # "{CRYPT}" + the wrapped format, which has its own full grid
    if fmt in SLOW or (backend == "builtin" and base in ("bcrypt", "scrypt")):
        return "slow"
    if base in ("md5_crypt", "apr_md5_crypt", "sha256_crypt", "sha512_crypt", "scram", "scrypt") or fmt in DES_REF \
            or base in BCRYPT_FAMILY:
        return "medium"
    return "cheap"


# ---------------------------------------------------------------------------
# salts, costs
# ---------------------------------------------------------------------------
def salt_values(fmt, ax, tier, seed, bud):
    """-> (base salts [2], one salt per admissible size, walk salts: every symbol in every position)"""
    sa = ax["salt"]
    if sa is None:
        return [None, None], [], []
    t = sa["type"]
    cap = 16 if tier == "quick" else 64
    stride = {"cheap": 1, "medium": 1, "slow": 8 if tier == "quick" else 2, "wrapper": 16, "token": 32}[bud]
    if t == "int":
        vals = list(range(sa["min"], sa["max"] + 1))
        return [vals[(7 + seed) % len(vals)], vals[0]], [], vals
    if t == "bcrypt":
        alpha = F.BCRYPT64

        def mk(j):
            return "".join(alpha[(j + 5 * i + seed) % 64] for i in range(21)) + ".Oeu"[(j + seed) % 4]

        return [mk(11), mk(40)], [], [mk(j) for j in range(0, 64, stride)]
    if t == "chars":
        alpha = sa["alphabet"]
        a = len(alpha)
        lo, hi = sa["min"], max(sa["min"], min(sa["max"], cap))

        def mk(n, j):
            return "".join(alpha[(j + 5 * i + n + seed) % a] for i in range(n))

        sizes = [mk(n, 3) for n in range(lo, hi + 1)]
        wn = max(lo, min(sa["max"], 16))
        walk = ["".join(alpha[(j + 3 * i + seed) % a] for i in range(wn)) for j in range(0, a, stride)]
        dflt = min(hi, max(lo, 8))
        return [mk(dflt, 17), mk(lo, 29)], sizes, walk
    if t == "bytes":
        lo, hi = sa["min"], max(sa["min"], min(sa["max"], cap))

        def mkb(n, j):
            return bytes((j + 37 * i + n + seed) % 256 for i in range(n))

        sizes = [mkb(n, 3) for n in range(lo, hi + 1)]
        wn = max(lo, min(sa["max"], 16))
        walk = [bytes((j + 41 * i + seed) % 256 for i in range(wn)) for j in range(0, 256, stride * (2 if bud != "cheap" else 1))]
        dflt = min(hi, max(lo, 8))
        return [mkb(dflt, 17), mkb(lo, 29)], sizes, walk
    raise HarnessError(t)


# offsets from 1000, chosen by the TAIL (rounds % 42) the round loop is left with: 1008 = 24 * 42, so
# 1000 -> tail 34, 1008..1011 -> tails 0 1 2 3, 1048 1049 -> tails 40 41, 1050 1051 -> 0 1 again, 1085 -> 35
RESIDUES_QUICK = [0, 8, 9, 10, 11, 48, 49, 50, 51, 85]


def cost_values(fmt, ax, tier, backend, bud):
    """-> (cost set of product A, every cost of product C)"""
    ra = ax["rounds"]
    if ra is None:
        return [None], [None]
    quick = tier == "quick"
    base = fmt.split(".")[-1].replace("ldap_", "")
    if ra.get("block42"):
        res = RESIDUES_QUICK if quick or bud == "wrapper" else list(range(86))
        a = [1000 + r for r in res]
        if bud == "wrapper":
            return [1000, 1009, 1049], [1000, 1008, 1009, 1010, 1049, 1050, 5000]
        return a, sorted(set(a) | {1002, 5000, 1000 + 126, 1000 + 127})
    if ra.get("des"):
        return [1, 3, 5], [1, 2, 3, 4, 5, 25, 26, 63, 64, 65, 129] + ([] if quick else [725, 4097])
    if fmt == "sun_md5_crypt":
        return [0, 1], ([0, 1, 2, 7] if quick else [0, 1, 2, 3, 7, 8, 63, 64, 100, 904])
    if ra["type"] == "log2":
        if base in BCRYPT_FAMILY:
            if backend == "builtin":
                return [4], ([4] if quick else [4, 5])
            return [4, 5], ([4, 5, 6] if quick else [4, 5, 6, 7, 8])
        if base == "phpass":
            return [7, 8], list(range(7, 12 if quick else 16))
        if base == "scrypt":
            if backend == "builtin":
                return [1, 2], ([1, 2, 3] if quick else [1, 2, 3, 4, 5])
            return [1, 4], list(range(1, 8 if quick else 13))
        raise HarnessError(f"no log2 cost plan for {fmt}")
    allv = [1, 2, 3, 4, 5, 7, 8, 9, 10, 15, 16, 17, 41, 42, 43, 100, 255, 256, 399, 400, 401]
    if not quick:
        allv += [999, 1000, 1001, 4095, 4096, 4097, 6400]
    return [1, 2, 10], allv


# ---------------------------------------------------------------------------
# case generation (deterministic; the shard loop regenerates the list, replay gets the case itself)
# ---------------------------------------------------------------------------
def lengths_for(fmt, ax, tier, backend, bud):
    if ax["maxlen"] is not None:
        if fmt == "libpass.bcrypt":  # a cap of the driver, not a rule of the format: the listed boundaries suffice
            return [n for n in (QUICK_LENGTHS if tier == "quick" else THOROUGH_LENGTHS) if n <= ax["maxlen"]]
        return list(range(0, ax["maxlen"] + 1))
    if bud == "token":
        return [0, 8, 72, 73]
    quick = tier == "quick"
    ls = list(QUICK_LENGTHS if quick or bud in ("wrapper", "slow") else THOROUGH_LENGTHS)
    if ax["secret"] == "text":
        ls = sorted(set(ls) | set(TEXT_EXTRA))
    if backend == "os_crypt" and bud != "wrapper":
        ls = sorted(set(ls) | set(CRYPT_EDGE))
    if fmt in ("bigcrypt", "bsdi_crypt", "oracle10"):
        # the reference costs one bit-list DES per 8 bytes
        ls = [n for n in ls if n <= (129 if quick else 512) or n == 256]
    if fmt in ("des_crypt", "crypt16", "django_des_crypt", "lmhash") and not quick:
        ls = [n for n in ls if n <= 130 or n in (255, 256, 4096)]
    if bud == "slow" and quick:
        ls = [n for n in ls if n in (0, 1, 8, 9, 55, 56, 64, 72, 73, 96, 255)]
    if bud == "wrapper":
        ls = [n for n in ls if n in (0, 1, 8, 9, 16, 17, 56, 72, 73, 96, 97, 256)]
    return ls


def settings_dict(salt, rounds, ident=None, other=None):
    st = {}
    if salt is not None:
        st["salt"] = salt
    if rounds is not None:
        st["rounds"] = rounds
    if ident is not None:
        st["ident"] = ident
    if other:
        st.update(other)
    return st


def ctx_products(ax, full):
    """list of context dicts; full -> the whole users x realms x encodings product"""
    c = ax["ctx"]
    if not c:
        return [{}]
    users = USERS if full else ["user", ""]
    realms = REALMS if full else ["realm"]
    encs = c.get("encoding") or [None]
    if not full:
        encs = encs[:1]
    out = []
    for u in users if "user" in c else [None]:
        for r in realms if "realm" in c else [None]:
            for e in encs:
                d = {}
                if u is not None:
                    d["user"] = u
                if r is not None:
                    d["realm"] = r
                if e is not None and "encoding" in c:
                    d["encoding"] = e
                    try:
                        (u or "").encode(e)
                        (r or "").encode(e)
                    except UnicodeEncodeError:
                        continue  # not a name of that encoding: not an admissible context value
                out.append(d)
    # the default encoding (keyword absent) is a value of the axis too
    if "encoding" in c and full:
        for d in list(out):
            if d.get("encoding") == encs[0]:
                d2 = dict(d)
                del d2["encoding"]
                out.append(d2)
    return out


def gen_cases(fmt, backend, tier, seed):
    """every case of one (format, backend): list of dicts {fmt, backend, secret, settings, ctx, part, content}"""
    ax = axes_of(fmt)
    kind = ax["secret"]
    bud = budget(fmt, backend)
    quick = tier == "quick"
    base_salts, size_salts, walk_salts = salt_values(fmt, ax, tier, seed, bud)
    costs_a, costs_all = cost_values(fmt, ax, tier, backend, bud)
    contents = contents_for(kind)
    c0, c2 = contents[0], contents[2] if len(contents) > 2 else contents[-1]
    lengths = lengths_for(fmt, ax, tier, backend, bud)
    idents = ax["ident"] or [None]
    block42 = bool(ax["rounds"] and ax["rounds"].get("block42"))
    cases = []
    seen = set()

    def fix(st):
        # scrypt's $7$ form stores the salt as text: only hash64 text is expressible
        if fmt == "scrypt" and st.get("ident") in ("$7$", "7") and isinstance(st.get("salt"), bytes):
            st = dict(st)
            st["salt"] = "".join(F.H64[b % 64] for b in st["salt"]).encode("ascii")
        if fmt == "bcrypt_sha256" and st.get("version", 2) == 2 and st.get("ident") not in (None, "2b"):
            return None  # version 2 is defined for 2b only
        return st

    def add(part, p, content, st, ctx, nearmiss=True, n=None):
        st = fix(st)
        if st is None or not admissible(fmt, ax, p, ctx, backend):
            return
        key = (repr(p), repr(sorted(st.items(), key=str)), repr(sorted(ctx.items())))
        if key in seen:
            return
        seen.add(key)
        case = {"fmt": fmt, "backend": backend, "secret": p, "settings": st, "ctx": ctx, "part": part,
                "content": content, "n": n if n is not None else len(p)}
        if not nearmiss:
            case["skip_nearmiss"] = True
        if fmt in ("bsdi_crypt", "ldap_bsdi_crypt") and st["rounds"] % 2 == 0:
            # hash() deliberately bumps even rounds to odd (weak-key policy); even costs go through genhash(config)
            case["via"] = "genhash"
        if st.get("bare_salt"):
            # a parse-level setting: using() has no such keyword
            case["via"] = "genhash"
        cases.append(case)

    def pw(content, n):
        return make_password(kind, content, n, seed)

    small = [(c, n) for n in SMALL_LENGTHS for c in (c0, c2)]
    if ax["maxlen"] is not None:
        small = [(c, n) for c, n in small if n <= ax["maxlen"]] + [(c0, ax["maxlen"]), (c2, ax["maxlen"])]
    tiny = [small[3], small[-2]] if len(small) > 4 else small
    one = tiny[:1]
    ctx_base = ctx_products(ax, False)
    ctx0 = ctx_base[0]
    ctx_full = ctx_products(ax, True)

    # ---- A: lengths x contents x salts x cost set
    if bud == "cheap":
        for n in lengths:
            for c in contents:
                for s in base_salts[: 2 if ax["salt"] else 1]:
                    for r in costs_a:
                        for cx in ctx_base:
                            add("A", pw(c, n), c, settings_dict(s, r), cx, nearmiss=(c == c0), n=n)
    elif bud == "medium":
        a_contents = contents
        if fmt == "bigcrypt" and quick:
            a_contents = [c for c in contents if c != "mixed"]  # one 10 ms reference DES per 8 bytes
        for n in lengths:
            for c in a_contents:
                if block42 and not quick and c not in (c0, c2):
                    rs = [1000 + r for r in RESIDUES_QUICK]  # thorough: all 86 residues on two contents
                else:
                    rs = costs_a
                for r in rs:
                    salts = base_salts[:1]
                    if c == c0 and ax["salt"] and (quick or not block42 or r - 1000 in RESIDUES_QUICK):
                        salts = base_salts[:2]  # second (minimum-size) salt on the first content class
                    for s in salts:
                        add("A", pw(c, n), c, settings_dict(s, r), ctx0, nearmiss=(c == c0 and r == rs[0]), n=n)
    elif bud in ("slow", "wrapper"):
        for n in lengths:
            for c in (contents if bud == "slow" and not quick else (c0, c2)):
                for r in (costs_a[:1] if bud == "slow" else costs_a):
                    add("A", pw(c, n), c, settings_dict(base_salts[0], r), ctx0, nearmiss=(c == c0 and n in (0, 8, 72, 73)), n=n)
    else:  # token
        for n in lengths:
            add("A", pw(c0, n), c0, settings_dict(base_salts[0], costs_a[0]), ctx0, nearmiss=(n == 8), n=n)
    # ---- B: every salt size, every salt symbol in every position
    b_pw = {"cheap": small[:6] if quick else small, "medium": tiny, "slow": one, "wrapper": one, "token": one}[bud]
    b_costs = costs_a[:2] if bud == "cheap" else costs_a[:1]
    b_salts = size_salts + walk_salts
    if bud in ("wrapper", "token"):
        b_salts = (size_salts[:: max(1, len(size_salts) // 3)] + walk_salts)[: 6 if bud == "wrapper" else 2]
    for s in b_salts:
        for c, n in b_pw:
            for r in b_costs:
                add("B", pw(c, n), c, settings_dict(s, r), ctx0, nearmiss=(bud == "cheap"), n=n)
    # ---- C: every cost
    c_pw = {"cheap": small, "medium": small[:6], "slow": tiny, "wrapper": tiny, "token": []}[bud]
    for r in costs_all:
        for c, n in c_pw:
            add("C", pw(c, n), c, settings_dict(base_salts[0], r), ctx0, nearmiss=(bud == "cheap"), n=n)
    # ---- D: idents x variants x users x realms x encodings
    others = ax["other"]
    okeys = sorted(others)
    combos = [dict(zip(okeys, vals)) for vals in itertools.product(*[others[k] for k in okeys])] if okeys else [{}]
    d_pw = {"cheap": small, "medium": tiny, "slow": one, "wrapper": one, "token": one}[bud]
    if fmt.split(".")[-1] in BCRYPT_FAMILY and bud in ("medium", "slow"):
        # every ident with the empty password (the $2$ key schedule reads the terminator only) and around 72 bytes
        d_pw = [(c0, 0), (c2, 1), (c0, 72), (c2, 73)]
    if len(idents) * len(combos) * len(ctx_full) > 1:
        for ident in idents:
            for combo in combos:
                for cx in ctx_full:
                    for c, n in d_pw:
                        for r in (costs_a[:2] if others else costs_a[:1]):  # variants also meet a second cost
                            add("D", pw(c, n), c, settings_dict(base_salts[0], r, ident, combo), cx, n=n)
    if fmt == "scrypt":
        # the $7$ form packs r and p as 30-bit little-endian hash64 numbers: values on both sides of every digit
        # boundary of that encoding (one digit = 6 bits), each with the other parameter at 1 and the cheapest N
        for ident in idents:
            for key in ("block_size", "parallelism"):
                for v in (63, 64, 65, 4095, 4096) if not (backend == "builtin" and quick) else (63, 64, 4096):
                    combo = {"block_size": 1, "parallelism": 1}
                    combo[key] = v
                    add("D", pw(c0, 9), c0, settings_dict(base_salts[0], costs_a[0], ident, combo), ctx0, n=9)
        if backend != "builtin":
            # the working memory 128 * N * r on both sides of the C library's own default limit (32 MiB), with p = 1
            # and p = 2 (the library has to ask for what the cost needs: N * r = 2^17, 2^18 -- the limit itself --, 2^19)
            for ln, r, p_ in ((5, 4096, 1), (6, 4096, 1), (6, 4096, 2), (7, 4096, 1), (15, 8, 1), (13, 32, 1)) if not quick else ((6, 4096, 1), (6, 4096, 2), (13, 32, 1)):
                for ident in idents:
                    add("D", pw(c0, 9), c0, settings_dict(base_salts[0], ln, ident, {"block_size": r, "parallelism": p_}), ctx0, n=9)
    if ax["ctx"]:
        # users/realms crossed with every length (the padding / append rules are length dependent)
        for cx in ctx_full:
            for n in (lengths if ax["maxlen"] is not None else SMALL_LENGTHS):
                for c in (contents if ax["maxlen"] is not None else [c0]):
                    if bud == "slow" and n not in (0, 9, 97):
                        continue
                    add("D", pw(c, n), c, settings_dict(base_salts[0], costs_a[0]), cx, n=n)
    # ---- E: byte / code-point grid over the significant prefix
    sig = ax.get("sig") or 16
    glen = min(sig, 16, ax["maxlen"] if ax["maxlen"] is not None else 99)
    step = {"cheap": 1, "medium": 1, "slow": 16 if quick else 4, "wrapper": 32, "token": 128}[bud]
    if fmt in DES_REF and quick:
        step = 4
    st_e = settings_dict(base_salts[0], costs_a[0])
    if kind in ("bytes", "nonul", "encodable"):
        for j in range(0, 255, step):
            add("E", bytes(1 + (j + 32 * i + seed) % 255 for i in range(glen)), "grid", st_e, ctx0)
    elif kind in ("text", "plain", "ldap_plain"):
        pool = [cp for cp in itertools.chain(range(0x21, 0x7F), range(0xA1, 0x180), range(0x391, 0x3CA),
                                             range(0x410, 0x450), (0x4E2D, 0xFB01, 0x1D11E, 0x10400, 0xFFFD))
                if cp != 0x7B]
        for j in range(0, len(pool), step):
            add("E", "".join(chr(pool[(j + 29 * i + seed) % len(pool)]) for i in range(glen)), "grid", st_e, ctx0)
    elif kind == "oem":
        pool = [chr(c) for c in range(0x21, 0x7F)] + list("éüñÄç£åÉö")
        for j in range(0, len(pool), step):
            add("E", "".join(pool[(j + 29 * i + seed) % len(pool)] for i in range(14)), "grid", st_e, ctx0)
    elif kind == "saslprep":
        pool = [chr(c) for c in range(0x21, 0x7F)] + list(_SASL)
        for j in range(0, len(pool), step):
            add("E", "".join(pool[(j + 29 * i + seed) % len(pool)] for i in range(12)), "grid", st_e, ctx0)
        # a "mapped to nothing" character BETWEEN a composable pair (base + combining mark, Hangul L + V): the profile maps
        # first and normalises afterwards, so the pair composes
        for text in ("e\u00ad\u0301x", "n\ufe00\u0303o", "\u1100\u2060\u1161", "a\u200d\u0308b", "A\u034f\u030a"):
            add("E", text, "compose_across_b1", st_e, ctx0)
    return cases


# ---------------------------------------------------------------------------
# single-case evaluator (shard loop and replay)
# ---------------------------------------------------------------------------
def len_class(n):
    for hi, name in ((0, "len=0"), (8, "len1-8"), (16, "len9-16"), (72, "len17-72"), (95, "len73-95")):
        if n <= hi:
            return name
    return "len>=96"


ATTR_ORDER = ["len", "bits", "tail", "ident", "variant", "salt", "user", "enc", "via"]


def case_attrs(case):
    """coarse, seed-independent attributes of a case; violation keys are built from them"""
    fmt = case["fmt"]
    p = case["secret"]
    raw = p.encode("utf-8") if isinstance(p, str) else p
    st = case["settings"]
    ax = axes_of(fmt)
    # nominal size and content class (not the concrete bytes, which rotate with the seed)
    n = case.get("n", len(raw))
    content = case.get("content")
    if content is None:
        content = "8bit" if any(b >= 0x80 for b in raw) else "7bit"
    at = {"len": len_class(n), "bits": "7bit" if content in ("ascii", "mixed", "7bit") else "8bit"}
    ra = ax["rounds"]
    if ra and ra.get("block42") and "rounds" in st:
        tail = st["rounds"] % 42
        at["tail"] = "tail0" if tail == 0 else ("tail-odd" if tail & 1 else "tail-even")
    if ax["ident"]:
        at["ident"] = "ident=" + str(st.get("ident") or ax["ident"][0]).strip("$")
    if ax["other"]:
        at["variant"] = "+".join(f"{k}={st.get(k, ax['other'][k][0])}" for k in sorted(ax["other"]))
    if isinstance(st.get("salt"), (str, bytes)):
        at["salt"] = "salt-empty" if len(st["salt"]) == 0 else "salt-nonempty"
    cx = case["ctx"]
    if "user" in cx:
        at["user"] = "user" if cx["user"] else "nouser"
    if "encoding" in ax["ctx"]:
        at["enc"] = "enc=" + str(cx.get("encoding") or "default")
    at["via"] = case.get("via") or "using"
    return at


def case_class(case):
    """the class part of a key.  Inside a run the failing cases of one (format, backend, comparison) are
    summarised by the attribute values they all share (see summarise()); the summary travels with the case
    (`key_class`) and is honoured here when the case really has those attribute values."""
    at = case_attrs(case)
    hint = case.get("key_class")
    if hint is not None:
        want = [h for h in hint.split(",") if h not in ("all", "some")]
        if all(h in at.values() for h in want):
            return hint
    return ",".join(at[k] for k in ATTR_ORDER if k in at)


def summarise(violations, evaluated):
    """[(key, desc, case)] with per-case class keys -> the same list with one summarised key per
    (format, backend, comparison): the attribute values shared by *all* its failing cases, restricted to
    attributes that took more than one value among the evaluated cases; `all` when every evaluated case of
    the pair failed and nothing discriminates, else `some`."""
    groups = {}
    for key, desc, case in violations:
        head, _, _ = key.rpartition(":")
        groups.setdefault(head, []).append((key, desc, case))
    out = []
    for head, items in groups.items():
        fmt, backend = head.split("|")[1:3]
        seen_vals = evaluated.get((fmt, backend), {})
        ncases = seen_vals.get("__n__", 0)
        shared = []
        for k in ATTR_ORDER:
            vals = {core.dec(c).get("__attrs__", {}).get(k) for _, _, c in items}
            vals.discard(None)
            if len(vals) == 1 and len(seen_vals.get(k, ())) > 1:
                shared.append(next(iter(vals)))
        nfail = len({repr(c) for _, _, c in items})
        cls = ",".join(shared) if shared else ("all" if nfail >= ncases else "some")
        for key, desc, case in items:
            case = dict(case)
            case.pop("__attrs__", None)
            case["key_class"] = cls
            out.append((head + ":" + cls, desc, case))
    return out


def _libpass_obj(fmt, st):
    import importlib

    clsname = LIBPASS[fmt][1]
    mod = {"SHA": "libpass.hashers.sha_crypt", "Bcr": "libpass.hashers.bcrypt", "PBK": "libpass.hashers.pbkdf2"}[clsname[:3]]
    cls = getattr(importlib.import_module(mod), clsname)
    if clsname.startswith("SHA") or clsname.startswith("PBK"):
        return cls(rounds=st["rounds"])
    if clsname == "BcryptHasher":
        return cls(rounds=st["rounds"], prefix=(st.get("ident") or "2b"))
    return cls(rounds=st["rounds"])


def _libpass_hash(fmt, obj, p, st):
    if fmt.startswith("libpass.sha"):
        return obj.hash(p, salt=st["salt"])
    if fmt.startswith("libpass.pbkdf2"):
        return obj.hash(p, salt=st["salt"], rounds=st["rounds"])
    ident = st.get("ident") or "2b"
    cfg = ("$%s$%02d$%s" % (ident, st["rounds"], st["salt"])).encode("ascii")
    return obj.hash(p, salt=cfg)


def reference_of(case):
    """reference string (+ third-party agreement); raises HarnessError when the oracle itself is in trouble"""
    fmt = case["fmt"]
    rname = LIBPASS[fmt][0] if fmt in LIBPASS else fmt
    st = dict(case["settings"])
    if rname in ("sha256_crypt", "sha512_crypt", "ldap_sha256_crypt", "ldap_sha512_crypt"):
        st["implicit_rounds"] = (st.get("rounds") == 5000) and fmt not in LIBPASS
    kw = dict(st)
    kw.update(case["ctx"])
    try:
        ref = F.REFS[rname](case["secret"], **kw)
    except Exception as e:  # noqa: BLE001
        raise HarnessError(f"reference {rname} failed on {core.short(case)}: {e!r}") from e
    parties = []
    for party, fn in F.THIRD.get(rname, []):
        try:
            other = fn(case["secret"], **kw)
        except Exception as e:  # noqa: BLE001
            raise HarnessError(f"third party {party} failed on {core.short(case)}: {e!r}") from e
        if other is None:
            continue
        parties.append(party)
        if other != ref:
            raise HarnessError(f"reference {rname} = {ref!r} but {party} = {other!r} on {core.short(case, 400)}")
    return ref, parties


def evaluate(case):
    """-> (violations [(key, desc)], info dict).  The backend named in the case is selected and restored."""
    fmt = case["fmt"]
    backend = case.get("backend")
    ref, parties = reference_of(case)
    p = case["secret"]
    st = case["settings"]
    cx = case["ctx"]
    cls = case_class(case)
    head = f"C02|{fmt}|{backend or '-'}|"
    out = []
    info = {"ref": ref, "parties": parties}
    q = near_miss(p)
    with warnings.catch_warnings():
        warnings.simplefilter("ignore")
        if fmt in LIBPASS:
            try:
                obj = _libpass_obj(fmt, st)
                got = _libpass_hash(fmt, obj, p, st)
            except Exception as e:  # noqa: BLE001
                out.append((head + f"hash:raises:{type(e).__name__}:{cls}", f"hash({core.short(p, 60)}, {st}) raised {e!r}"))
                got = None
            if got is not None and got != ref:
                out.append((head + f"hash!=ref:{cls}", f"hash({core.short(p, 60)}, {st}) = {got!r}, reference {ref!r}"))
            try:
                obj = _libpass_obj(fmt, st)
                ok = obj.verify(ref, p)
                bad = False if case.get("skip_nearmiss") else obj.verify(ref, q)
            except Exception as e:  # noqa: BLE001
                out.append((head + f"verify:raises:{type(e).__name__}:{cls}", f"verify({ref!r}, {core.short(p, 60)}) raised {e!r}"))
            else:
                if ok is not True:
                    out.append((head + f"verify(ref)=False:{cls}", f"verify({ref!r}, {core.short(p, 60)}) = {ok!r}"))
                if bad is not False:
                    out.append((head + f"verify(nearmiss)=True:{cls}", f"verify({ref!r}, {core.short(q, 60)}) = {bad!r}"))
            info["got"] = got
            return out, info
        H = handler(fmt)
        orig = None
        if backend:
            orig = H.get_backend()
            if orig != backend:
                H.set_backend(backend)
        try:
            if backend and H.get_backend() != backend:
                raise HarnessError(f"{fmt}: backend {backend} not active")
            # (1) passlib renders the same string
            try:
                if case.get("via") == "genhash":
                    # the reference string minus its checksum is the configuration string
                    config = ref[:-11] if "bsdi" in fmt else ref[: ref.rindex("$")]
                    got = H.genhash(p, config, **cx)
                else:
                    # bare_salt=False is the default and (like True) not a using() keyword
                    pst = {k: v for k, v in st.items() if not (k == "bare_salt" and v is False)}
                    got = (H.using(**pst) if pst else H).hash(p, **cx)
            except Exception as e:  # noqa: BLE001
                out.append((head + f"hash:raises:{type(e).__name__}:{cls}",
                            f"using({st}).hash({core.short(p, 60)}, {cx}) raised {e!r}; reference {ref!r}"))
                got = None
            if got is not None and got != ref:
                out.append((head + f"hash!=ref:{cls}",
                            f"using({st}).hash({core.short(p, 60)}, {cx}) = {got!r}, reference {ref!r} (agreeing third parties: {parties})"))
            # (2) the reference's / third parties' string verifies, a near miss does not
            try:
                ok = H.verify(p, ref, **cx)
            except Exception as e:  # noqa: BLE001
                out.append((head + f"verify:raises:{type(e).__name__}:{cls}", f"verify({core.short(p, 60)}, {ref!r}, {cx}) raised {e!r}"))
            else:
                if ok is not True:
                    out.append((head + f"verify(ref)=False:{cls}", f"verify({core.short(p, 60)}, {ref!r}, {cx}) = {ok!r} (third parties producing this string: {parties})"))
            if not case.get("skip_nearmiss"):
                try:
                    bad = H.verify(q, ref, **cx)
                except Exception as e:  # noqa: BLE001
                    out.append((head + f"verify:raises:{type(e).__name__}:{cls}", f"verify({core.short(q, 60)}, {ref!r}, {cx}) raised {e!r}"))
                else:
                    if bad is not False:
                        out.append((head + f"verify(nearmiss)=True:{cls}", f"verify({core.short(q, 60)}, {ref!r}, {cx}) = {bad!r}"))
            info["got"] = got
        finally:
            if backend and orig != backend:
                H.set_backend(orig)
    # one report per key and case
    uniq = {}
    for k, d in out:
        uniq.setdefault(k, d)
    return list(uniq.items()), info


def replay(case):
    from mc import run

    run._assert_repo()
    case = {k: v for k, v in case.items()}
    v, _ = evaluate(case)
    return v


# ---------------------------------------------------------------------------
# shard worker
# ---------------------------------------------------------------------------
def est_ms(fmt, backend, case):
    ax = axes_of(fmt)
    base = ax["cost_ms"]
    n = byte_len(case["secret"])
    st = case["settings"]
    r = st.get("rounds")
    name = fmt.split(".")[-1].replace("ldap_", "")
    ms = base
    if name in ("sha256_crypt", "sha512_crypt"):
        ms = 4.0 * (r or 5000) / 1000 * (1 + n / 200)
    elif name in ("des_crypt", "django_des_crypt", "crypt16"):
        ms = 12
    elif name == "bigcrypt":
        ms = 12 * max(1, (n + 7) // 8)
    elif name == "bsdi_crypt":
        ms = 0.45 * ((r or 1) + n // 8) + 1
    elif name == "oracle10":
        ms = 0.45 * ((n + 40) // 2) + 1
    elif name in BCRYPT_FAMILY or name.startswith("bcrypt"):
        ms = (330 if backend == "builtin" else 6) * (1 << ((r or 4) - 4))
    elif name == "sun_md5_crypt":
        ms = 170
    elif name == "atlassian_pbkdf2_sha1":
        ms = 250
    elif name == "msdcc2":
        ms = 125
    elif name == "scrypt":
        ms = (2.0 if backend == "builtin" else 0.3) * (1 << (r or 1)) * st.get("block_size", 8) * st.get("parallelism", 1) / 8 + 0.5
    elif name == "phpass":
        ms = 0.002 * (1 << (r or 7)) + 0.2
    elif r and ax["rounds"] and ax["rounds"]["type"] == "linear":
        ms = base + 0.03 * r * (3 if name == "scram" else 1)
    return ms + 0.15


_CASES = {}  # filled by plan() in the parent; the fork pool's workers inherit it


def cases_of(fmt, backend, tier, seed):
    key = (fmt, backend, tier, seed)
    if key not in _CASES:
        _CASES[key] = gen_cases(fmt, backend, tier, seed)
    return _CASES[key]


def plan(tier, seed):
    """-> list of shard tasks {fmt, backend, tier, seed, index, of}"""
    tasks = []
    target = 1500.0 if tier == "quick" else 6000.0  # ms of estimated work per shard
    for fmt in all_formats():
        for backend in backends_of(fmt):
            cases = cases_of(fmt, backend, tier, seed)
            if not cases:
                raise HarnessError(f"{fmt}/{backend}: empty case list")
            total = sum(est_ms(fmt, backend, c) for c in cases)
            k = max(1, min(len(cases), int(total / target) + 1))
            for i in range(k):
                tasks.append({"fmt": fmt, "backend": backend, "tier": tier, "seed": seed, "index": i, "of": k,
                              "est": total / k, "ncases": len(cases)})
    return tasks


def work(task):
    acc = Acc()
    fmt, backend = task["fmt"], task["backend"]
    cases = cases_of(fmt, backend, task["tier"], task["seed"])
    mine = cases[task["index"] :: task["of"]]
    ax = axes_of(fmt)
    for case in mine:
        viol, info = evaluate(case)
        acc.ev()
        p = case["secret"]
        st = case["settings"]
        n = byte_len(p)
        salt = st.get("salt")
        acc.cls(fmt, backend, n, case["content"], "s%s" % (len(salt) if isinstance(salt, (str, bytes)) else salt),
                core.stable_hash(repr(salt)) % 997 if isinstance(salt, (str, bytes)) else "",
                st.get("rounds"), st.get("ident"), *[st.get(k) for k in sorted(ax["other"])],
                *[f"{k}={v}" for k, v in sorted(case["ctx"].items())])
        acc.axis("format", fmt)
        acc.axis("backend", f"{backend}")
        acc.axis("length", n)
        acc.axis("content", case["content"])
        acc.axis("secret_type", type(p).__name__)
        acc.axis("part", case["part"])
        if isinstance(salt, (str, bytes)):
            acc.axis("salt_size", len(salt))
        if "rounds" in st:
            acc.axis("rounds", st["rounds"])
            if ax["rounds"] and ax["rounds"].get("block42"):
                acc.axis("rounds_mod_42", st["rounds"] % 42)
        if st.get("ident") is not None:
            acc.axis("ident", st["ident"])
        for k in ax["other"]:
            if k in st:
                acc.axis(k, st[k])
        for k, v in case["ctx"].items():
            acc.axis("ctx_" + k, v)
        for party in info["parties"]:
            acc.count("third_party_agreements:" + party)
        acc.outcome("agree" if not viol else "|".join(sorted(k.split("|")[3].split(":")[0] for k, _ in viol)))
        if not acc.samples and task["index"] == 0:
            acc.sample({"case": {k: case[k] for k in ("fmt", "backend", "secret", "settings", "ctx")}, "reference": info["ref"]})
        at = case_attrs(case)
        for k, v in at.items():
            acc.count(f"att|{fmt}|{backend or '-'}|{k}|{v}")
        acc.count(f"att|{fmt}|{backend or '-'}|__n__|")
        for key, desc in viol:
            acc.violation(key, desc, dict(case, __attrs__=at))
    return acc


def run(ctx):
    from mc.refs import selfcheck_formats

    if os.environ.get("PASSLIB_BUILTIN_BCRYPT") != "enabled":
        raise HarnessError("PASSLIB_BUILTIN_BCRYPT=enabled expected (./check sets it)")
    selfcheck_formats.quick_sanity()
    tasks = plan(ctx.tier, ctx.seed)
    ctx.log(f"{len(tasks)} shards, {sum(t['ncases'] // t['of'] for t in tasks)} cases (approx), "
            f"estimated {sum(t['est'] for t in tasks) / 1000 / core.NPROC:.0f}s wall")
    # longest first keeps the pool busy to the end; merge order stays deterministic
    order = sorted(range(len(tasks)), key=lambda i: -tasks[i]["est"])
    acc = core.pmap(work, [tasks[i] for i in order])
    # one summarised key per (format, backend, comparison); the attribute bookkeeping leaves the evidence
    evaluated = {}
    for name in [k for k in acc.counters if k.startswith("att|")]:
        _, f_, b_, k, v = name.split("|", 4)
        n = acc.counters.pop(name)
        d = evaluated.setdefault((f_, b_), {})
        if k == "__n__":
            d["__n__"] = n
        else:
            d.setdefault(k, set()).add(v)
    acc.violations = summarise(acc.violations, evaluated)
    ctx.merge(acc)
    fam = {}
    for t in tasks:
        fam.setdefault(t["fmt"], set()).add(str(t["backend"]))
    if os.environ.get("VERIF_C02_ONLY"):
        ctx.cap("VERIF_C02_ONLY restricted the format axis to " + os.environ["VERIF_C02_ONLY"])
    if UNUSABLE:
        ctx.cov["backends_not_probeable"] = {f"{f}/{b}": v for (f, b), v in sorted(UNUSABLE.items())}
        ctx.cap("has_backend() raised for " + ", ".join(f"{f}/{b}" for f, b in sorted(UNUSABLE)) + " (not walked here; C03's subject)")
    ctx.cov["formats"] = len(fam)
    ctx.cov["format_backend_pairs"] = sum(len(v) for v in fam.values())
    ctx.cov["backends_by_format"] = {k: sorted(v) for k, v in sorted(fam.items()) if v != {"None"}}
    ctx.assume("bcrypt and scrypt have no from-scratch reference: the bcrypt wheel and OpenSSL's scrypt are the "
               "independent implementations (libxcrypt third); argon2 has no backend on this host and is not hashed")
    ctx.assume("passwords come from the length x content alphabet (ASCII, mixed, walk through bytes 1..255, multi-byte "
               "UTF-8, non-UTF-8), not from all 256^n strings; NUL is never generated")
    ctx.assume("non-UTF-8 passwords are not generated for bcrypt-family handlers under the os_crypt backend "
               "(documented PasswordValueError); libpass BcryptHasher is driven with <=72-byte passwords (C05 owns size limits)")
    ctx.assume("sun_md5_crypt bare_salt=True is reached through genhash(config): using() has no such keyword")
    ctx.assume("reference bit-list DES costs 0.4 ms per DES: bsdi_crypt rounds <= 129 (thorough 4097), DES formats on one base salt in product A")
