"""C04, part "zero_limits": cost limits whose VALUE is 0 (falsy but meaningful).

sun_md5_crypt is the one scheme whose hard minimum is 0 (its native Solaris form has no rounds field), so a
configured maximum / fixed cost of 0 is admissible there.  Contexts [sun_md5_crypt, md5_crypt] (either order, with
and without a deprecated list) x policy in {max_rounds 0 / "0", rounds 0, min_rounds 0, default_rounds 0, window
0..0, admin-only max 0, min 0 + max 5} x stored hashes with cost {0, 1, 5, 6, 34000 (synthetic)} x category
{None, admin}: needs_update is True exactly when the cost lies outside the window the policy states for that
category (or the scheme is deprecated), verify_and_update rehashes exactly then, and the new hash comes from the
default scheme with a cost inside its window.  The expectation is computed from the policy text alone.
"""
from __future__ import annotations

import warnings

from mc import hashers as HS
from mc.core import Acc

warnings.filterwarnings("ignore")

PW = "pw-zero"
S = "sun_md5_crypt"
HARD_MIN, HARD_MAX, STOCK_DEFAULT = 0, 4294963199, 34000
SALT = "abcdefgh"

POLICIES = {
    "max0": {f"{S}__max_rounds": 0},
    "max0_str": {f"{S}__max_rounds": "0"},
    "rounds0": {f"{S}__rounds": 0},
    "min0": {f"{S}__min_rounds": 0},
    "default0": {f"{S}__default_rounds": 0},
    "window0": {f"{S}__min_rounds": 0, f"{S}__max_rounds": 0},
    "admin_max0": {f"{S}__max_rounds": 5, f"admin__{S}__max_rounds": 0},
    "min0_max5": {f"{S}__min_rounds": 0, f"{S}__max_rounds": 5, f"{S}__default_rounds": 5},
    "max5": {f"{S}__max_rounds": 5},
}
COSTS = (0, 1, 5, 6, 34000)
LISTS = ((S, "md5_crypt"), ("md5_crypt", S))
DEPS = (None, ["md5_crypt"], [S])


def window(policy, category):
    """(min, max, default) the policy text states for sun_md5_crypt in that category"""
    opts = {}
    for k, v in policy.items():
        parts = k.split("__")
        if len(parts) == 2 and parts[0] == S:
            opts.setdefault(parts[1], int(v))
    if category == "admin":
        for k, v in policy.items():
            parts = k.split("__")
            if len(parts) == 3 and parts[0] == "admin" and parts[1] == S:
                opts[parts[2]] = int(v)
    if "rounds" in opts:
        r = opts["rounds"]
        return r, r, r
    lo = opts.get("min_rounds", HARD_MIN)
    hi = opts.get("max_rounds", HARD_MAX)
    d = opts.get("default_rounds", STOCK_DEFAULT)
    d = min(max(d, lo), hi)
    return lo, hi, d


def stored(cost):
    """(hash string, real?)"""
    H = HS.handler(S)
    if cost <= 6:
        return H.using(rounds=cost, salt=SALT).hash(PW), True
    # synthetic: right shape, digest not computed (identify / needs_update only)
    return f"$md5,rounds={cost}${SALT}$$" + "x" * 22, False


def rounds_of(h):
    H = HS.handler(S)
    return H.from_string(h).rounds


def configs():
    out = []
    for L in LISTS:
        for dep in DEPS:
            if dep and L[0] in dep and len(L) == 1:
                continue
            for pname in POLICIES:
                out.append({"schemes": list(L), "deprecated": dep, "policy": pname})
    return out


def eval_cfg(cfg):
    from passlib.context import CryptContext

    out = []
    policy = POLICIES[cfg["policy"]]
    kw = {"schemes": cfg["schemes"], **policy}
    if cfg["deprecated"]:
        if cfg["schemes"][0] in cfg["deprecated"]:
            kw["default"] = cfg["schemes"][1]
        kw["deprecated"] = cfg["deprecated"]
    key = f"C04|{S}|zero_limits:{cfg['policy']}:"
    try:
        ctx = CryptContext(**kw)
    except Exception as e:  # noqa: BLE001
        return [(key + f"valid_config_refused:{type(e).__name__}", f"CryptContext(**{kw!r}) raised {e!r}")]
    default = kw.get("default") or cfg["schemes"][0]
    depset = set(cfg["deprecated"] or ())
    for category in (None, "admin"):
        lo, hi, d = window(policy, category)
        ck = {"category": category} if category else {}
        for cost in COSTS:
            h, real = stored(cost)
            want = S in depset or not (lo <= cost <= hi)
            where = f"{kw!r} category={category}: hash with cost {cost}, window [{lo}, {hi}]"
            try:
                nu = ctx.needs_update(h, **ck)
                if bool(nu) != want:
                    out.append((key + f"needs_update:{'missed' if want else 'spurious'}", f"{where}: needs_update = {nu!r}, expected {want}"))
                if real:
                    ok, new = ctx.verify_and_update(PW, h, **ck)
                    if ok is not True:
                        out.append((key + "verify_and_update:rejected", f"{where}: verify_and_update = {(ok, new)!r} for the right password"))
                    elif (new is not None) != want:
                        out.append((key + f"verify_and_update:{'no_rehash' if want else 'spurious_rehash'}", f"{where}: verify_and_update returned new={'set' if new else None}, expected {'a replacement' if want else 'None'}"))
                    if new is not None:
                        who = ctx.identify(new)
                        if who != default:
                            out.append((key + "verify_and_update:new_not_default", f"{where}: replacement {new!r} is from {who}, default scheme is {default}"))
                        elif who == S and not (lo <= rounds_of(new) <= hi):
                            out.append((key + "verify_and_update:new_outside_window", f"{where}: replacement {new!r} has cost {rounds_of(new)}"))
                        elif ctx.needs_update(new, **ck):
                            out.append((key + "verify_and_update:new_needs_update", f"{where}: replacement {new!r} is itself flagged"))
            except Exception as e:  # noqa: BLE001
                out.append((key + f"raises:{type(e).__name__}", f"{where}: raised {e!r}"))
        if default == S:
            try:
                fresh = ctx.hash(PW, **ck)
                r = rounds_of(fresh)
                if not (lo <= r <= hi) or r != d:
                    out.append((key + "hash:cost", f"{kw!r} category={category}: fresh hash has cost {r}, expected {d} (window [{lo}, {hi}])"))
                if ctx.needs_update(fresh, **ck):
                    out.append((key + "hash:fresh_needs_update", f"{kw!r} category={category}: fresh hash {fresh!r} is flagged"))
            except Exception as e:  # noqa: BLE001
                out.append((key + f"hash_raises:{type(e).__name__}", f"{kw!r} category={category}: hash() raised {e!r}"))
    return out


def replay(case):
    return eval_cfg(case["cfg"])


def work(task):
    acc = Acc()
    for cfg in task["cfgs"]:
        acc.ev()
        acc.cls("zero_limits", ",".join(cfg["schemes"]), cfg["deprecated"], cfg["policy"])
        acc.axis("zero_policy", cfg["policy"])
        vs = eval_cfg(cfg)
        acc.outcome(("zero_limits", "viol" if vs else "ok"))
        for key, desc in vs:
            acc.violation(key, desc, {"part": "zero_limits", "cfg": cfg})
    return acc


def tasks():
    if not HS.usable(S):
        return []
    cfgs = configs()
    return [{"cfgs": cfgs[i::16]} for i in range(16)]


# ---------------------------------------------------------------------------
# part "reused_hashers": a context built from the configured hasher OBJECTS of another context
# (old.schemes(resolve=True) / old.handler(name)): nothing of the old policy may travel with them
# ---------------------------------------------------------------------------
REUSE_POOL = ("sha256_crypt", "md5_crypt", "des_crypt", "ldap_md5_crypt")


def reuse_configs():
    import itertools

    out = []
    for n in (2, 3):
        for L in itertools.permutations(REUSE_POOL, n):
            for old_dep in ([L[-1]], list(L[1:]), "auto"):
                for new_dep in (None, [L[0]], "auto"):
                    for rev in (False, True):
                        out.append({"schemes": list(L), "old_dep": old_dep, "new_dep": new_dep, "reversed": rev})
    return out


def eval_reuse(cfg):
    from passlib.context import CryptContext

    out = []
    L = cfg["schemes"]
    key = "C04|reused_hashers|"
    kw_old = {"schemes": L, "deprecated": cfg["old_dep"]}
    if "sha256_crypt" in L:
        kw_old["sha256_crypt__rounds"] = 1000
    try:
        old = CryptContext(**kw_old)
        objs = list(old.schemes(resolve=True))
    except Exception as e:  # noqa: BLE001
        return [(key + f"setup_raises:{type(e).__name__}", f"CryptContext(**{kw_old!r}).schemes(resolve=True) raised {e!r}")]
    if cfg["reversed"]:
        objs = objs[::-1]
    names = [o.name for o in objs]
    kw_new = {"schemes": objs}
    if cfg["new_dep"] is not None:
        if cfg["new_dep"] != "auto" and cfg["new_dep"][0] == names[0]:
            kw_new["default"] = names[1]
        kw_new["deprecated"] = cfg["new_dep"]
    try:
        new = CryptContext(**kw_new)
    except Exception as e:  # noqa: BLE001
        return [(key + f"valid_config_refused:{type(e).__name__}", f"CryptContext(schemes=<hashers of {kw_old!r}>{' reversed' if cfg['reversed'] else ''}, deprecated={cfg['new_dep']!r}) raised {e!r}")]
    default = kw_new.get("default") or names[0]
    if cfg["new_dep"] == "auto":
        depset = set(names) - {default}
    else:
        depset = set(cfg["new_dep"] or ())
    where = f"new = CryptContext(schemes=old.schemes(resolve=True){'[::-1]' if cfg['reversed'] else ''}, deprecated={cfg['new_dep']!r}{', default=' + repr(kw_new['default']) if 'default' in kw_new else ''}) with old = CryptContext(**{kw_old!r})"
    try:
        if new.default_scheme() != default:
            out.append((key + "default_scheme", f"{where}: default scheme {new.default_scheme()!r}, expected {default!r}"))
        for n in names:
            H = HS.handler(n)
            kw = {"rounds": 1000} if n == "sha256_crypt" else {}
            h = (H.using(**kw) if kw else H).hash(PW)
            want = n in depset
            nu = new.needs_update(h)
            if bool(nu) != want:
                out.append((key + f"needs_update:{'missed' if want else 'stale_deprecated_flag'}", f"{where}: needs_update(<{n} hash>) = {nu!r}, the new policy deprecates {sorted(depset)}"))
            ok, repl = new.verify_and_update(PW, h)
            if ok is not True or (repl is not None) != want:
                out.append((key + "verify_and_update:rehash_decision", f"{where}: verify_and_update(<{n} hash>) = ({ok!r}, {'new' if repl else None}), expected rehash = {want}"))
            if repl is not None and new.identify(repl) != default:
                out.append((key + "verify_and_update:new_not_default", f"{where}: replacement from {new.identify(repl)!r}, default is {default!r}"))
        fresh = new.hash(PW)
        if new.identify(fresh) != default:
            out.append((key + "hash:not_default", f"{where}: hash() made a {new.identify(fresh)!r} hash"))
        if new.needs_update(fresh):
            out.append((key + "hash:fresh_needs_update", f"{where}: a hash the context has just made needs an update"))
        # ... and the old context still follows ITS policy
        old_default = L[0]
        old_dep = set(L) - {old_default} if cfg["old_dep"] == "auto" else set(cfg["old_dep"])
        for n in L:
            H = HS.handler(n)
            kw = {"rounds": 1000} if n == "sha256_crypt" else {}
            h = (H.using(**kw) if kw else H).hash(PW)
            if bool(old.needs_update(h)) != (n in old_dep):
                out.append((key + "old_context_changed", f"{where}: old.needs_update(<{n} hash>) no longer follows the old policy"))
    except Exception as e:  # noqa: BLE001
        out.append((key + f"raises:{type(e).__name__}", f"{where}: raised {e!r}"))
    return out


_replay_zero = replay


def replay(case):  # noqa: F811
    if case.get("part") == "reused_hashers":
        return eval_reuse(case["cfg"])
    return _replay_zero(case)


def work_reuse(task):
    acc = Acc()
    for cfg in task["cfgs"]:
        acc.ev()
        acc.cls("reused_hashers", ",".join(cfg["schemes"]), cfg["old_dep"], cfg["new_dep"], cfg["reversed"])
        vs = eval_reuse(cfg)
        acc.outcome(("reused_hashers", "viol" if vs else "ok"))
        for key, desc in vs:
            acc.violation(key, desc, {"part": "reused_hashers", "cfg": cfg})
    return acc


def tasks_reuse():
    cfgs = reuse_configs()
    return [{"cfgs": cfgs[i::16]} for i in range(16)]


# ---------------------------------------------------------------------------
# part "versioned": a scheme that flags its own old format version (bcrypt_sha256 v1 / v2)
# ---------------------------------------------------------------------------
def versioned_configs():
    out = []
    for L in (["bcrypt_sha256", "md5_crypt"], ["md5_crypt", "bcrypt_sha256"], ["bcrypt_sha256"]):
        for ver in (None, 1, 2, "1"):
            for admin in (None, 1, 2):
                for dep in (None, ["md5_crypt"]):
                    if dep and ("md5_crypt" not in L or L[0] == "md5_crypt"):
                        continue
                    for via in ("ctor", "copy", "update"):
                        out.append({"schemes": L, "version": ver, "admin_version": admin, "deprecated": dep, "via": via})
    return out


def eval_versioned(cfg):
    from passlib.context import CryptContext

    B = "bcrypt_sha256"
    out = []
    key = "C04|bcrypt_sha256|versioned:"
    kw = {"schemes": cfg["schemes"], f"{B}__rounds": 4}
    opts = {}
    if cfg["version"] is not None:
        opts[f"{B}__version"] = cfg["version"]
    if cfg["admin_version"] is not None:
        opts[f"admin__{B}__version"] = cfg["admin_version"]
    if cfg["deprecated"]:
        opts["deprecated"] = cfg["deprecated"]
    try:
        if cfg["via"] == "ctor":
            ctx = CryptContext(**kw, **opts)
        elif cfg["via"] == "copy":
            ctx = CryptContext(**kw).copy(**opts)
        else:
            ctx = CryptContext(**kw)
            ctx.update(**opts)
    except Exception as e:  # noqa: BLE001
        return [(key + f"valid_config_refused:{type(e).__name__}", f"{cfg!r} raised {e!r}")]
    H = HS.handler(B)
    stored = {1: H.using(version=1, rounds=4, ident="2b").hash(PW), 2: H.using(version=2, rounds=4).hash(PW)}
    default = cfg["schemes"][0]
    depset = set(cfg["deprecated"] or ())
    for category in (None, "admin"):
        want_ver = int(cfg["version"] or 2)
        if category == "admin" and cfg["admin_version"] is not None:
            want_ver = int(cfg["admin_version"])
        ck = {"category": category} if category else {}
        where = f"{cfg!r} category={category} (configured version {want_ver})"
        try:
            for v, h in stored.items():
                want = v < want_ver
                nu = ctx.needs_update(h, **ck)
                if bool(nu) != want:
                    out.append((key + f"needs_update:{'missed' if want else 'spurious'}", f"{where}: needs_update(<v{v} hash>) = {nu!r}, expected {want}"))
                ok, new = ctx.verify_and_update(PW, h, **ck)
                if ok is not True or (new is not None) != want:
                    out.append((key + "verify_and_update:rehash_decision", f"{where}: verify_and_update(<v{v} hash>) = ({ok!r}, {'new' if new else None}), expected rehash = {want}"))
                if new is not None and ctx.needs_update(new, **ck):
                    out.append((key + "verify_and_update:new_needs_update", f"{where}: the replacement {new!r} is itself flagged"))
            fresh = ctx.hash(PW, **ck)
            if ctx.needs_update(fresh, **ck):
                out.append((key + "hash:fresh_needs_update", f"{where}: a hash the context has just made ({fresh!r}) needs an update"))
            ok, new = ctx.verify_and_update(PW, fresh, **ck)
            if ok is not True or new is not None:
                out.append((key + "hash:fresh_rehashed", f"{where}: verify_and_update of a fresh hash returned ({ok!r}, {'new' if new else None})"))
            if default == B:
                got_ver = H.from_string(fresh).version
                if got_ver != want_ver:
                    out.append((key + "hash:version", f"{where}: fresh hash has version {got_ver}"))
            h5 = HS.handler("md5_crypt").hash(PW) if "md5_crypt" in cfg["schemes"] else None
            if h5 and bool(ctx.needs_update(h5, **ck)) != ("md5_crypt" in depset):
                out.append((key + "other_scheme", f"{where}: needs_update(<md5_crypt hash>) does not follow the deprecated list {sorted(depset)}"))
        except Exception as e:  # noqa: BLE001
            out.append((key + f"raises:{type(e).__name__}", f"{where}: raised {e!r}"))
    return out


_replay_reuse = replay


def replay(case):  # noqa: F811
    if case.get("part") == "versioned":
        return eval_versioned(case["cfg"])
    return _replay_reuse(case)


def work_versioned(task):
    acc = Acc()
    for cfg in task["cfgs"]:
        acc.ev()
        acc.cls("versioned", ",".join(cfg["schemes"]), cfg["version"], cfg["admin_version"], cfg["deprecated"], cfg["via"])
        vs = eval_versioned(cfg)
        acc.outcome(("versioned", "viol" if vs else "ok"))
        for key, desc in vs:
            acc.violation(key, desc, {"part": "versioned", "cfg": cfg})
    return acc


def tasks_versioned():
    if not HS.usable("bcrypt_sha256"):
        return []
    cfgs = versioned_configs()
    return [{"cfgs": cfgs[i::16]} for i in range(16)]


# ---------------------------------------------------------------------------
# part "aliases": the documented legacy spellings of the decisions (hash_needs_update, encrypt, positional
# scheme / category arguments) answer like the current ones, for every category
# ---------------------------------------------------------------------------
def eval_aliases(cfg):
    import warnings as W

    from passlib.context import CryptContext

    out = []
    key = "C04|aliases|"
    kw = dict(schemes=["sha256_crypt", "md5_crypt"], deprecated=["md5_crypt"], sha256_crypt__min_rounds=1000, sha256_crypt__max_rounds=2000,
              sha256_crypt__default_rounds=1500, admin__sha256_crypt__min_rounds=3000, admin__sha256_crypt__max_rounds=4000,
              admin__sha256_crypt__default_rounds=3500, legacy__context__deprecated=[])
    ctx = CryptContext(**kw)
    S5 = HS.handler("sha256_crypt")
    hashes = {"sha256@1500": S5.using(rounds=1500).hash(PW), "sha256@3500": S5.using(rounds=3500).hash(PW), "md5": HS.handler("md5_crypt").hash(PW)}
    windows = {None: (1000, 2000), "admin": (3000, 4000), "legacy": (1000, 2000), "unknown": (1000, 2000)}
    cat, hname = cfg["category"], cfg["hash"]
    h = hashes[hname]
    lo, hi = windows[cat]
    if hname == "md5":
        want = cat != "legacy"
    else:
        r = int(hname.split("@")[1])
        want = not (lo <= r <= hi)
    calls = {
        "needs_update(h, category=c)": lambda: ctx.needs_update(h, category=cat),
        "needs_update(h, None, c)": lambda: ctx.needs_update(h, None, cat),
        "hash_needs_update(h, category=c)": lambda: ctx.hash_needs_update(h, category=cat),
        "hash_needs_update(h, None, c)": lambda: ctx.hash_needs_update(h, None, cat),
        "hash_needs_update(h, scheme=s, category=c)": lambda: ctx.hash_needs_update(h, scheme=("md5_crypt" if hname == "md5" else "sha256_crypt"), category=cat),
        "verify_and_update(pw, h, category=c)": lambda: ctx.verify_and_update(PW, h, category=cat)[1] is not None,
        "verify_and_update(pw, h, None, c)": lambda: ctx.verify_and_update(PW, h, None, cat)[1] is not None,
    }
    with W.catch_warnings():
        W.simplefilter("ignore")
        for label, f in calls.items():
            try:
                got = f()
            except Exception as e:  # noqa: BLE001
                out.append((key + f"raises:{type(e).__name__}", f"{label} with category {cat!r} on the {hname} hash raised {e!r}"))
                continue
            if bool(got) != want:
                out.append((key + f"{label.split('(')[0]}:{'positional' if ', None, c' in label else 'keyword'}:{'missed' if want else 'spurious'}",
                            f"{label} with category {cat!r} on the {hname} hash = {got!r}; the policy for that category (window {lo}..{hi}, deprecated {'[]' if cat == 'legacy' else ['md5_crypt']}) says {want}"))
        # hashing through the legacy name
        try:
            for label, f in (("encrypt(pw, category=c)", lambda: ctx.encrypt(PW, category=cat)), ("hash(pw, category=c)", lambda: ctx.hash(PW, category=cat)),
                             ("hash(pw, None, c)", lambda: ctx.hash(PW, None, cat))):
                fresh = f()
                r = S5.from_string(fresh).rounds
                if not (lo <= r <= hi) or ctx.needs_update(fresh, category=cat):
                    out.append((key + f"{label.split('(')[0]}:cost", f"{label} with category {cat!r} made a hash with cost {r}, window {lo}..{hi}"))
        except Exception as e:  # noqa: BLE001
            out.append((key + f"hash_raises:{type(e).__name__}", f"hashing with category {cat!r} raised {e!r}"))
    return out


_replay_versioned = replay


def replay(case):  # noqa: F811
    if case.get("part") == "aliases":
        return eval_aliases(case["cfg"])
    return _replay_versioned(case)


def work_aliases(task):
    acc = Acc()
    for cfg in task["cfgs"]:
        acc.ev()
        acc.cls("aliases", cfg["category"], cfg["hash"])
        vs = eval_aliases(cfg)
        acc.outcome(("aliases", "viol" if vs else "ok"))
        for key, desc in vs:
            acc.violation(key, desc, {"part": "aliases", "cfg": cfg})
    return acc


def tasks_aliases():
    cfgs = [{"category": c, "hash": h} for c in (None, "admin", "legacy", "unknown") for h in ("sha256@1500", "sha256@3500", "md5")]
    return [{"cfgs": cfgs[i::4]} for i in range(4)]


# ---------------------------------------------------------------------------
# part "derived": the policy of a context reached through copy / update / using / export+import / load(other context)
# is the policy of its configuration -- in particular a per-category deprecated list that is EMPTY (falsy, yet
# meaningful: "nothing is deprecated for this category", it shadows the global list) survives every derivation
# ---------------------------------------------------------------------------
DERIVED_SCHEMES = ("sha256_crypt", "md5_crypt", "des_crypt")
DERIVED_GLOBAL = (None, ["md5_crypt"], ["md5_crypt", "des_crypt"], "auto", [])
DERIVED_ADMIN = ("unset", [], "", ["des_crypt"], ["md5_crypt", "des_crypt"])
DERIVATIONS = ("ctor", "update_empty", "update_other_key", "copy", "copy_of_copy", "using", "dict_roundtrip", "dict_resolved_roundtrip",
               "string_roundtrip", "load_ctx", "load_update_dict", "load_update_string")


def derived_configs():
    return [{"global": g, "admin": a, "route": r} for g in DERIVED_GLOBAL for a in DERIVED_ADMIN for r in DERIVATIONS]


def _derive(ctx, route):
    from passlib.context import CryptContext

    if route == "ctor":
        return ctx
    if route == "update_empty":
        ctx.update()
        return ctx
    if route == "update_other_key":
        ctx.update(sha256_crypt__max_rounds=5000)
        return ctx
    if route == "copy":
        return ctx.copy()
    if route == "copy_of_copy":
        return ctx.copy().copy(sha256_crypt__max_rounds=5000)
    if route == "using":
        return ctx.using(sha256_crypt__default_rounds=1000)
    if route == "dict_roundtrip":
        return CryptContext(**ctx.to_dict())
    if route == "dict_resolved_roundtrip":
        return CryptContext(**ctx.to_dict(resolve=True))
    if route == "string_roundtrip":
        return CryptContext.from_string(ctx.to_string())
    if route == "load_ctx":
        other = CryptContext(schemes=["md5_crypt"])
        other.load(ctx)
        return other
    if route == "load_update_dict":
        ctx.load({"sha256_crypt__max_rounds": 5000}, update=True)
        return ctx
    if route == "load_update_string":
        ctx.load("[passlib]\nsha256_crypt__max_rounds = 5000\n", update=True)
        return ctx
    raise KeyError(route)


def eval_derived(cfg):
    from passlib.context import CryptContext

    out = []
    key = f"C04|derived|{cfg['route']}:"
    kw = dict(schemes=list(DERIVED_SCHEMES), sha256_crypt__rounds=1000)
    if cfg["global"] is not None:
        kw["deprecated"] = cfg["global"]
    if cfg["admin"] != "unset":
        kw["admin__context__deprecated"] = cfg["admin"]

    def depset(cat):
        d = cfg["global"]
        if cat == "admin" and cfg["admin"] != "unset":
            d = cfg["admin"]
        if d == "auto":
            return set(DERIVED_SCHEMES[1:])
        return set(d or ())

    hashes = {s: (HS.handler(s).using(rounds=1000) if s == "sha256_crypt" else HS.handler(s)).hash(PW) for s in DERIVED_SCHEMES}
    try:
        ctx = _derive(CryptContext(**kw), cfg["route"])
    except Exception as e:  # noqa: BLE001
        return [(key + f"raises:{type(e).__name__}", f"CryptContext(**{kw!r}) then {cfg['route']} raised {e!r}")]
    for cat in (None, "admin", "other"):
        dep = depset(cat)
        for s, h in hashes.items():
            want = s in dep
            try:
                got = {"needs_update": bool(ctx.needs_update(h, category=cat)),
                       "verify_and_update": ctx.verify_and_update(PW, h, category=cat)[1] is not None,
                       "handler.deprecated": bool(ctx.handler(s, category=cat).deprecated)}
            except Exception as e:  # noqa: BLE001
                out.append((key + f"raises:{type(e).__name__}", f"{kw!r} after {cfg['route']}, category {cat!r}, {s} hash: raised {e!r}"))
                continue
            for what, g in got.items():
                if g != want:
                    out.append((key + f"{what}:{'missed' if want else 'spurious'}:{'category_list_empty' if cat == 'admin' and cfg['admin'] in ([], '') else 'other'}",
                                f"CryptContext(**{kw!r}) after {cfg['route']}: {what} for the {s} hash under category {cat!r} = {g}; "
                                f"deprecated for that category: {sorted(dep)}"))
    return out


_replay_aliases = replay


def replay(case):  # noqa: F811
    if case.get("part") == "derived":
        return eval_derived(case["cfg"])
    return _replay_aliases(case)


def work_derived(task):
    acc = Acc()
    for cfg in task["cfgs"]:
        acc.ev()
        acc.cls("derived", repr(cfg["global"]), repr(cfg["admin"]), cfg["route"])
        acc.axis("derivation", cfg["route"])
        vs = eval_derived(cfg)
        acc.outcome(("derived", "viol" if vs else "ok"))
        for key, desc in vs:
            acc.violation(key, desc, {"part": "derived", "cfg": cfg})
    return acc


def tasks_derived():
    cfgs = derived_configs()
    return [{"cfgs": cfgs[i::16]} for i in range(16)]
