"""C04, part "ambiguous": first-claimant attribution when several configured schemes recognise the same string.

Scheme groups whose hash strings are indistinguishable by shape (13-character DES hashes: des_crypt / bigcrypt;
32 hex digits: hex_md5 / hex_md4 / nthash / lmhash; 16 hex digits: mysql323 / oracle10; cisco_pix / cisco_asa;
anything + plaintext) x every ordered scheme list of size 2-3 drawn from a group x default in {unset, each} x
deprecated in {unset, auto, [first], [last]} x category in {None, admin with its own default}: for a hash made by
every listed scheme the context must attribute it to the FIRST scheme in list order whose identify() accepts it,
and verify / needs_update / verify_and_update must be that scheme's answers.
The expectation is computed from the plain (unconfigured) hashers only.
"""
from __future__ import annotations

import itertools
import warnings

from mc import hashers as HS
from mc.core import Acc

warnings.filterwarnings("ignore")

GROUPS = (
    ("des_crypt", "bigcrypt", "crypt16"),
    ("hex_md5", "hex_md4", "nthash", "lmhash"),
    ("mysql323", "oracle10"),
    ("cisco_pix", "cisco_asa"),
    ("md5_crypt", "plaintext"),
    ("hex_sha1", "mysql41", "plaintext"),
)
PW = "pw-amb"


def ctxkw_for(name):
    ck = HS.g(name, "context_kwds", ())
    return {"user": "usr"} if "user" in ck else {}


def make_hash(name):
    H = HS.handler(name)
    kw = HS.min_cost_kw(name)
    if "salt" in HS.g(name, "setting_kwds", ()) and HS.salt_alphabet(name) is not None:
        kw["salt"] = HS.make_salt(name, HS.g(name, "default_salt_size") or HS.g(name, "min_salt_size") or 0, 1, 1)
    Hc = H.using(**kw) if kw else H
    return Hc.hash(PW, **ctxkw_for(name))


def configs():
    out = []
    for group in GROUPS:
        group = [g for g in group if HS.usable(g)]
        for n in (2, 3):
            for schemes in itertools.permutations(group, n):
                for default in (None,) + schemes:
                    for dep in (None, "auto", "first", "last"):
                        for admin_default in (None, schemes[-1]):
                            out.append({"schemes": list(schemes), "default": default, "deprecated": dep, "admin_default": admin_default})
    return out


def build(cfg):
    from passlib.context import CryptContext

    kw = {"schemes": cfg["schemes"]}
    if cfg["default"]:
        kw["default"] = cfg["default"]
    dep = cfg["deprecated"]
    if dep == "auto":
        kw["deprecated"] = "auto"
    elif dep == "first":
        kw["deprecated"] = [cfg["schemes"][0]]
    elif dep == "last":
        kw["deprecated"] = [cfg["schemes"][-1]]
    if cfg["admin_default"]:
        kw["admin__context__default"] = cfg["admin_default"]
    return CryptContext(**kw)


def model(cfg, category):
    """(default scheme, deprecated set) for the category, from the documented rules; None when invalid"""
    schemes = cfg["schemes"]
    dep = cfg["deprecated"]
    explicit = cfg["default"]
    if category == "admin" and cfg["admin_default"]:
        explicit = cfg["admin_default"]
    if dep == "auto":
        default = explicit or schemes[0]
        depset = set(schemes) - {default}
    else:
        depset = {schemes[0]} if dep == "first" else {schemes[-1]} if dep == "last" else set()
        if explicit:
            if explicit in depset:
                return None
            default = explicit
        else:
            cands = [s for s in schemes if s not in depset]
            if not cands:
                return None
            default = cands[0]
    return default, depset


def eval_cfg(cfg):
    out = []
    key = "C04|ambiguous|"
    # validity per the documented rules (default category and admin)
    valid = model(cfg, None) is not None and model(cfg, "admin") is not None
    try:
        ctx = build(cfg)
    except Exception as e:  # noqa: BLE001
        if valid:
            out.append((key + f"valid_config_refused:{type(e).__name__}", f"CryptContext({cfg}) raised {e!r}"))
        return out
    if not valid:
        return out  # acceptance / refusal of inconsistent configurations is C10's subject
    for maker in cfg["schemes"]:
        try:
            h = make_hash(maker)
        except Exception:  # noqa: BLE001
            continue
        claimant = next((s for s in cfg["schemes"] if HS.handler(s).identify(h)), None)
        if claimant is None:
            continue
        C = HS.handler(claimant)
        ck = ctxkw_for(claimant)
        for category in (None, "admin"):
            default, depset = model(cfg, category)
            ckw = dict(ck)
            for s2 in cfg["schemes"]:
                ckw.update(ctxkw_for(s2))  # the context filters keywords a scheme does not take
            if category:
                ckw["category"] = category
            try:
                got = ctx.identify(h, category=category) if category else ctx.identify(h)
                if got != claimant:
                    out.append((key + "identify:not_first_claimant",
                                f"schemes {cfg['schemes']} default={default} category={category}: identify({h!r}) = {got!r}; the first scheme in list order that claims it is {claimant!r} ({cfg})"))
                    continue
                for p in (PW, PW + "x"):
                    try:
                        want = C.verify(p, h, **ck)
                    except Exception:  # noqa: BLE001
                        continue
                    gotv = ctx.verify(p, h, **ckw)
                    if bool(gotv) != bool(want):
                        out.append((key + "verify:not_claimants_answer", f"verify({p!r}, {h!r}, category={category}) = {gotv!r}, {claimant} says {want!r} ({cfg})"))
                    ok, new = ctx.verify_and_update(p, h, **ckw)
                    if bool(ok) != bool(want):
                        out.append((key + "verify_and_update:not_claimants_answer", f"verify_and_update({p!r}, {h!r}, category={category}) = {(ok, new)!r}, {claimant} says {want!r} ({cfg})"))
                    if ok:
                        exp_new = claimant in depset or bool(getattr(C, "needs_update", lambda x: False)(h))
                        if (new is not None) != exp_new:
                            out.append((key + "verify_and_update:rehash_decision", f"verify_and_update returned new={'set' if new else None}; claimant {claimant} deprecated={claimant in depset} ({cfg}, category={category})"))
                        if new is not None and ctx.identify(new, category=category) not in (default,) and HS.handler(default).identify(new) is False:
                            out.append((key + "verify_and_update:new_not_default", f"replacement hash {new!r} is not from the default scheme {default} ({cfg})"))
                nu = ctx.needs_update(h, category=category) if category else ctx.needs_update(h)
                exp = claimant in depset or bool(C.needs_update(h)) if hasattr(C, "needs_update") else claimant in depset
                if bool(nu) != bool(exp):
                    out.append((key + "needs_update:not_claimants_answer", f"needs_update({h!r}, category={category}) = {nu!r}, expected {exp!r}: claimant {claimant}, deprecated {sorted(depset)} ({cfg})"))
            except Exception as e:  # noqa: BLE001
                out.append((key + f"raises:{type(e).__name__}", f"{cfg} category={category} hash {h!r}: raised {e!r}"))
    return out


def replay(case):
    return eval_cfg(case["cfg"])


def work(task):
    acc = Acc()
    for cfg in task["cfgs"]:
        acc.ev()
        acc.cls("ambiguous", ",".join(cfg["schemes"]), cfg["default"], cfg["deprecated"], cfg["admin_default"])
        acc.axis("amb_group", cfg["schemes"][0])
        vs = eval_cfg(cfg)
        acc.outcome(("ambiguous", "viol" if vs else "ok"))
        for key, desc in vs:
            acc.violation(key, desc, {"part": "ambiguous", "cfg": cfg})
    if task["cfgs"]:
        acc.sample({"part": "ambiguous", "cfg": task["cfgs"][0]})
    return acc


def tasks():
    cfgs = configs()
    return [{"cfgs": cfgs[i::32]} for i in range(32)]
