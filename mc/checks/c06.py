"""C06 -- generated salts, keys and passwords are uniform over their declared space.

The random source is an owned seam (mc.env.ScriptedRng), so "uniform given a uniform source" is a counting
statement about the map  answer vector -> output,  decided by enumeration:
  * small spaces: ALL answer vectors -> the output multiset is exactly uniform over the declared space;
  * large spaces: every digit lane of every request (d * N^i, all d) moves exactly one output position through
    its whole legal alphabet, uniformly; lanes drive distinct positions and cover all of them; pairs of lanes
    act independently; the top answer is accepted.
"""
from __future__ import annotations

import collections
import itertools
import math
import warnings

from mc import core, env
from mc import hashers as HS
from mc.core import Acc

warnings.filterwarnings("ignore")

ID = "C06"
LEVEL = "exploration"
RULE = (
    "per generator target: all answer vectors of the scripted random source when the answer space is <= 2^16 "
    "(thorough 2^22), else all digit lanes (every digit value) + lane pairs + the top answer; a case = one "
    "(target, answer vector) execution of the real generator; non-trivial = the generator consumed >= 1 request; "
    "distinct class = target|answer-vector class (exhaustive index / lane,digit / pair)"
)

FULL_LIMIT_QUICK = 1 << 16
FULL_LIMIT_THOROUGH = 1 << 22


def bits_of(b):
    return [(byte >> k) & 1 for byte in b for k in range(8)]


# ---------------------------------------------------------------------------
# targets: spec -> (f(answers) -> (symbols, log), meta)
# ---------------------------------------------------------------------------
def make_target(spec):
    """returns dict(f=callable(answers)->(symbols list, request log), legal=callable(pos)->set or None,
    hint=alphabet size hint, expect_len=int or None, space=int or None)"""
    kind = spec["kind"]
    if kind == "getrandbytes":
        from passlib.utils import getrandbytes

        n = spec["count"]

        def f(ans):
            r = env.ScriptedRng(ans)
            out = getrandbytes(r, n)
            if not isinstance(out, bytes):
                raise TypeError(f"getrandbytes returned {type(out).__name__}")
            return bits_of(out) + [("len", len(out))], r.log

        return dict(f=f, hint=2, expect_len=8 * n + 1, space=256**n, legal=lambda pos: {0, 1})
    if kind == "getrandstr":
        from passlib.utils import getrandstr

        cs = spec["charset"]
        n = spec["count"]

        def f(ans):
            r = env.ScriptedRng(ans)
            out = getrandstr(r, cs, n)
            if type(out) is not type(cs):
                raise TypeError(f"getrandstr returned {type(out).__name__} for {type(cs).__name__} charset")
            return list(out) + [("len", len(out))], r.log

        return dict(f=f, hint=len(cs), expect_len=n + 1, space=len(cs) ** n, legal=lambda pos: set(cs))
    if kind == "hasher_salt":
        name = spec["hasher"]
        H = HS.handler(name)
        kw = dict(HS.min_cost_kw(name))
        kw.update(spec.get("settings") or {})
        if spec.get("salt_size") is not None:
            kw["salt_size"] = spec["salt_size"]
        if spec["hasher"] == "scrypt":
            kw["rounds"] = 2  # (libxcrypt's $7$ starts at N = 2^2: the interoperability clause needs a cost it takes)
        Hc = H.using(**kw) if kw else H
        ctxkw = HS.ctx_grid(name)[0]
        raw = HS.is_raw_salt(name)
        size = spec.get("salt_size")
        if size is None:
            size = Hc.default_salt_size
        chars = getattr(Hc, "default_salt_chars", None)
        b = HS.base_name(name)

        def extract(h):
            rec = H.from_string(h) if not hasattr(H, "wrapped") else H.wrapped.from_string(H._unwrap_hash(h))
            salt = rec.salt
            if name == "scrypt" and kw.get("ident") == "$7$":
                import base64

                s = salt if isinstance(salt, bytes) else salt.encode("ascii")
                rawsalt = base64.b64decode(s.replace(b".", b"+") + b"=" * (-len(s) % 4))
                return bits_of(rawsalt) + [("len", len(rawsalt))]
            if isinstance(salt, bytes) and raw:
                return bits_of(salt) + [("len", len(salt))]
            return list(salt) + [("len", len(salt))]

        def f(ans):
            r = env.ScriptedRng(ans)
            with env.scripted_rng(r):
                h = Hc.hash("pw", **ctxkw)
            return extract(h), r.log

        if spec.get("via") == "django_adapter":
            # the Django-hasher adapter of passlib.ext.django (what Django's get_hasher() hands out once the extension is
            # loaded): an adapter that has ALREADY re-computed a stored hash under its explicit salt makes the next new
            # hash under a salt that follows the random source, like the handler itself
            from mc.checks.c17 import _configure_django

            _configure_django()
            from passlib.ext.django.utils import DjangoTranslator

            fixed = HS.make_salt(name, size, 0, 9)

            def adapter_hash(ans):
                ad = DjangoTranslator().passlib_to_django(Hc)
                ad.encode("stored-password", fixed)
                r = env.ScriptedRng(ans)
                with env.scripted_rng(r):
                    return ad.encode("pw", ad.salt()), r.log

            def f(ans):  # noqa: F811
                h, log = adapter_hash(ans)
                return extract(h), log

        if raw or (name == "scrypt"):
            legal = lambda pos: {0, 1}  # noqa: E731
            hint = 2
            elen = 8 * size + 1
            space = 256**size
        else:
            cset = set(chars)

            def legal(pos):
                if b in ("bcrypt", "bcrypt_sha256") and pos == size - 1:
                    return set(".Oeu")
                return cset

            hint = len(chars)
            elen = size + 1
            space = None
        def hash_of(ans):
            r = env.ScriptedRng(ans)
            with env.scripted_rng(r):
                return Hc.hash("pw", **ctxkw)

        def fixed_hash():
            """a hash of the same settings under an explicitly given salt from the harness' own generator"""
            st = [g for g in HS.settings_grid(name, True, 0) if "salt" in g and all(g.get(k) == v for k, v in kw.items() if k in ("ident",))]
            st.sort(key=lambda g: -len(g["salt"]))
            return H.using(**dict(kw, salt=st[0]["salt"])).hash("pw", **ctxkw) if st and "salt_size" not in kw else None

        if spec.get("via"):
            return dict(f=f, hint=hint, expect_len=elen, space=space, legal=legal)
        return dict(f=f, hint=hint, expect_len=elen, space=space, legal=legal, two_draws=True, hash_of=hash_of, fixed_hash=fixed_hash)
    if kind == "totp_new":
        from passlib import totp as T

        alg, size = spec["alg"], spec["size"]

        def f(ans):
            r = env.ScriptedRng(ans)
            with env.scripted_rng(r):
                o = T.TOTP(new=True, alg=alg, size=size)
            return bits_of(o.key) + [("len", len(o.key))], r.log

        return dict(f=f, hint=2, expect_len=8 * size + 1, space=256**size, legal=lambda pos: {0, 1})
    if kind == "wallet_salt":
        # the salt AppWallet.encrypt_key() draws for every encrypted key (AES from `cryptography` or the pinned stand-in)
        import base64

        from passlib import totp as T

        from mc.checks.c15 import ensure_aes

        ensure_aes()
        size = spec["size"]

        def f(ans):
            r = env.ScriptedRng(ans)
            w = T.AppWallet({"1": "app-secret"}, encrypt_cost=0)
            if size is not None:
                w.salt_size = size
            with env.scripted_rng(r):
                enc = w.encrypt_key(b"0123456789")
            txt = enc["s"]
            salt = base64.b32decode(txt + "=" * (-len(txt) % 8))
            return bits_of(salt) + [("len", len(salt))], r.log

        n = 12 if size is None else size
        return dict(f=f, hint=2, expect_len=8 * n + 1, space=256**n, legal=lambda pos: {0, 1})
    if kind == "generate_secret":
        from passlib import totp as T
        from passlib.utils.binary import BASE64_CHARS

        ent = spec["entropy"]
        cs = spec.get("charset") or BASE64_CHARS[:-2]

        def f(ans):
            r = env.ScriptedRng(ans)
            with env.scripted_rng(r):
                s = T.generate_secret(ent, cs) if spec.get("charset") else T.generate_secret(ent)
            return list(s) + [("len", len(s))], r.log

        return dict(f=f, hint=len(cs), expect_len=None, space=None, legal=lambda pos: set(cs), min_entropy=(ent, len(cs)))
    if kind == "genword":
        from passlib import pwd as P

        kw = dict(spec["kw"])
        if kw.get("returns") == "iter":
            kw["returns"] = iter

        def f(ans):
            r = env.ScriptedRng(ans)
            s = P.genword(rng=r, **kw)
            if not isinstance(s, (str, bytes)):
                # returns=N / returns=iter: a batch -- every symbol of every password is an output position of its own
                # (passwords of one batch are independent draws: no answer of the source may feed two positions)
                batch = list(s) if not hasattr(s, "__next__") else [next(s) for _ in range(3)]
                return [ch for w in batch for ch in w] + [("len", tuple(len(w) for w in batch))], r.log
            return list(s) + [("len", len(s))], r.log

        if "chars" in kw:
            cs = kw["chars"]
            if isinstance(cs, bytes):
                cs = cs.decode("utf-8")  # the documented reading of a bytes alphabet: its UTF-8 decoding, symbol = character
        else:
            cs = P.default_charsets[kw.get("charset", "ascii_62")]
        return dict(f=f, hint=len(cs), expect_len=None, space=None, legal=lambda pos: set(cs),
                    min_entropy=(_requested_entropy(kw), len(cs)), min_len=kw.get("length"))
    if kind == "genphrase":
        from passlib import pwd as P

        kw = dict(spec["kw"])
        if "words" in kw:
            words = list(kw["words"])
        else:
            words = list(P.default_wordsets[kw.get("wordset", "eff_long")])
        sep = kw.get("sep", " ")

        def f(ans):
            r = env.ScriptedRng(ans)
            s = P.genphrase(rng=r, **kw)
            parts = s.split(sep) if sep else [s]
            return parts + [("len", len(parts))], r.log

        wset = set(words)
        return dict(f=f, hint=len(words), expect_len=None, space=None, legal=lambda pos: wset,
                    min_entropy=(_requested_entropy(kw), len(words)), min_len=kw.get("length"))
    if kind == "django_disabled":
        H = HS.handler("django_disabled")
        from passlib.utils.binary import BASE64_CHARS

        cs = BASE64_CHARS[:-2]

        def f(ans):
            r = env.ScriptedRng(ans)
            with env.scripted_rng(r):
                h = H.hash("pw")
            suffix = h[1:]
            return list(suffix) + [("len", len(suffix))], r.log

        return dict(f=f, hint=len(cs), expect_len=None, space=None, legal=lambda pos: set(cs))
    if kind == "cisco_type7":
        H = HS.handler("cisco_type7")

        def f(ans):
            r = env.ScriptedRng(ans)
            with env.scripted_rng(r):
                h = H.hash("pw")
            return [int(h[:2]), ("len", 1)], r.log

        return dict(f=f, hint=16, expect_len=2, space=16, legal=lambda pos: set(range(16)))
    if kind == "libpass_salt":
        import libpass._salt as LS

        fn, arg = spec["fn"], spec["arg"]

        def f(ans):
            r = env.ScriptedRng(ans)
            with env.scripted_rng(r):
                s = getattr(LS, fn)(arg)
            return list(s) + [("len", len(s))], r.log

        cs = LS.DEFAULT_CHARS
        me = (arg, len(cs)) if fn == "generate_salt_by_entropy" else None
        return dict(f=f, hint=len(cs), expect_len=(arg + 1 if fn == "generate_salt" else None), space=None,
                    legal=lambda pos: set(cs), min_entropy=me)
    if kind == "libpass_hasher_salt":
        from mc.checks.c01 import libpass_hasher

        name = spec["hasher"]
        hz = libpass_hasher(name, None)
        import libpass._salt as LS

        def f(ans):
            r = env.ScriptedRng(ans)
            with env.scripted_rng(r):
                h = hz.hash("pw")
            if name.startswith("lp_sha"):
                salt = h.split("$")[3]
                return list(salt) + [("len", len(salt))], r.log
            from libpass._utils.deprecated import ab64_decode

            salt = ab64_decode(h.split("$")[3])
            return list(salt.decode("ascii")) + [("len", len(salt))], r.log

        if name.startswith("lp_sha"):
            cs = HS.handler("sha256_crypt").salt_chars
        else:
            cs = LS.DEFAULT_CHARS
        return dict(f=f, hint=len(cs), expect_len=None, space=None, legal=lambda pos: set(cs),
                    min_entropy=((128, len(cs)) if not name.startswith("lp_sha") else (16 * 5.9, len(cs))))
    raise core.HarnessError(f"unknown target {kind}")


#: documented entropy aliases of passlib.pwd (docs/lib/passlib.pwd.rst); "strong" is the documented default
ENTROPY_ALIASES = {"unsafe": 12, "weak": 24, "fair": 36, "strong": 48, "secure": 60}


def _requested_entropy(kw):
    ent = kw.get("entropy")
    if ent is None and kw.get("length") is None:
        ent = "strong"
    return ENTROPY_ALIASES.get(ent, ent)


def tname(spec):
    k = spec["kind"]
    if k == "getrandbytes":
        return f"getrandbytes({spec['count']})"
    if k == "getrandstr":
        cs = spec["charset"]
        return f"getrandstr({'bytes' if isinstance(cs, bytes) else 'text'}{len(cs)},{spec['count']})"
    if k == "hasher_salt":
        extra = ",".join(f"{a}={b}" for a, b in sorted((spec.get("settings") or {}).items()))
        return f"salt:{spec['hasher']}:{spec.get('salt_size')}" + (f":{extra}" if extra else "") + (f":via={spec['via']}" if spec.get("via") else "")
    if k == "totp_new":
        return f"TOTP.new({spec['alg']},{spec['size']})"
    if k == "wallet_salt":
        return f"AppWallet.encrypt_key.salt({spec['size'] or 'default12'})"
    if k == "generate_secret":
        return f"generate_secret({spec['entropy']},{len(spec.get('charset') or '') or 'default'})"
    if k in ("genword", "genphrase"):
        kw = spec["kw"]
        return f"{k}(" + ",".join(f"{a}={((type(b).__name__ + str(len(b)) + ('' if not isinstance(b, (str, bytes)) or (b if isinstance(b, str) else b.decode('utf-8')).isascii() else 'nonascii')) if a in ('chars', 'words') else b)}" for a, b in sorted(kw.items())) + ")"
    if k == "libpass_salt":
        return f"libpass.{spec['fn']}({spec['arg']})"
    if k == "libpass_hasher_salt":
        return f"libpass_salt:{spec['hasher']}"
    return k


def tgroup(spec):
    """coarse component name for violation keys"""
    k = spec["kind"]
    if k == "hasher_salt":
        return f"salt:{spec['hasher']}"
    if k == "getrandstr":
        return "getrandstr:" + ("bytes" if isinstance(spec["charset"], bytes) else "text")
    if k == "libpass_hasher_salt":
        return f"libpass_salt:{spec['hasher']}"
    if k == "libpass_salt":
        return f"libpass.{spec['fn']}"
    return k


def digits_for(R, hint):
    """(N, k) such that N**k == R: prefer the alphabet size, then 2, then the range itself"""
    for N in (hint, 2):
        if N and N > 1:
            k, x = 0, 1
            while x < R:
                x *= N
                k += 1
            if x == R:
                return N, k
    return R, 1


def analyse(spec, quick=True, acc=None):
    """run the whole analysis of one target; returns list of (key, desc)"""
    t = make_target(spec)
    f, legal, hint = t["f"], t["legal"], t["hint"]
    comp = tgroup(spec)
    name = tname(spec)
    out = []
    acc = acc if acc is not None else Acc()

    def viol(cls, desc):
        out.append((f"C06|{comp}|{cls}", f"{name}: {desc}"))

    def run(ans, cls):
        acc.ev()
        if cls is None:
            acc.count("bulk_enumerated_distinct_cases")  # answer vectors beyond the first 65536 of a target: counted, not named
        else:
            acc.cls(name, cls)
        return f(ans)

    try:
        base, log = run([], "base")
    except core.HarnessError:
        raise
    except Exception as e:  # noqa: BLE001
        viol(f"raises:{type(e).__name__}", f"generator raised {e!r} under the all-zero answers")
        return out
    if not log:
        viol("no_randomness", "generator consumed no request from the random source")
        return out
    acc.count("requests", len(log))
    if t.get("hash_of") and not spec.get("settings", {}).get("truncate_error"):
        # interoperability of the GENERATED salt: where the host's crypt() demonstrably implements the format (it reproduces
        # a hash made under an explicit salt), it also reproduces every hash made under a generated one -- with every
        # answer digit at 0, at its maximum, and at each value d in turn (every symbol the generator can emit shows up)
        from mc.refs import formats as F

        try:
            fx = t["fixed_hash"]()
        except Exception:  # noqa: BLE001
            fx = None
        if fx is not None and isinstance(fx, str) and fx.isascii() and F.os_crypt("pw", fx.replace("{CRYPT}", "")) == fx.replace("{CRYPT}", ""):
            acc.count("crypt_interop_targets")
            for d in range(256 if hint == 2 else hint):
                ans = []
                for _k, R in log:
                    N, k = digits_for(R, hint if hint != 2 else 256)
                    ans.append(sum((d % N) * N**i for i in range(k)) % R)
                acc.ev()
                h = t["hash_of"](ans)
                inner = h.replace("{CRYPT}", "")
                if F.os_crypt("pw", inner) != inner:
                    viol("crypt_refuses_generated_salt", f"the host's crypt() implements the format (it reproduces {fx!r}) but refuses / does not reproduce {h!r}, made under a generated salt")
                    break
    npos = len(base) - 1
    if t.get("expect_len") is not None and len(base) != t["expect_len"]:
        viol("size", f"output has {npos} symbols, declared {t['expect_len'] - 1}")
    for j, s in enumerate(base[:-1]):
        if s not in legal(j):
            viol("alphabet", f"symbol {s!r} at position {j} outside the declared alphabet")
            break
    me = t.get("min_entropy")
    if me and me[0]:
        got = npos * math.log2(me[1])
        if got + 1e-9 < me[0]:
            viol("entropy", f"{npos} symbols over {me[1]} = {got:.2f} bits < requested {me[0]}")
    if t.get("min_len") and npos < t["min_len"]:
        viol("length", f"{npos} symbols < requested length {t['min_len']}")
    sizes = [R for _k, R in log]
    total = 1
    for R in sizes:
        total *= R
    limit = FULL_LIMIT_QUICK if quick else FULL_LIMIT_THOROUGH
    if spec.get("full_limit"):
        limit = spec["full_limit"]
    # ---------------- exhaustive: every answer vector ----------------
    if total <= limit:
        counts = collections.Counter()
        logdiff = False
        for idx, ans in enumerate(itertools.product(*[range(R) for R in sizes])):
            o, lg = run(list(ans), f"all:{idx}" if idx < 65536 else None)
            if lg != log:
                logdiff = True
            counts[tuple(o)] += 1
            if o[-1] != base[-1]:
                viol("size", f"output length varies with the random answer ({o[-1]} vs {base[-1]})")
                break
        acc.count("exhaustive_targets")
        acc.count("exhaustive_vectors", total)
        mult = set(counts.values())
        if logdiff:
            viol("data_dependent_requests", "the sequence of requests depends on earlier answers")
        if len(mult) != 1:
            viol("nonuniform", f"{total} equally likely answers give {len(counts)} outputs with multiplicities {sorted(mult)[:6]} (not uniform)")
        space = t.get("space")
        if space is None:
            space = 1
            for j in range(npos):
                space *= len(legal(j))
        if len(counts) != space and len(mult) == 1:
            viol("space", f"only {len(counts)} of the {space} declared values are reachable")
        for o in counts:
            if any(s not in legal(j) for j, s in enumerate(o[:-1])):
                viol("alphabet", f"output {core.short(o, 60)} leaves the declared alphabet")
                break
        return out
    # ---------------- lanes ----------------
    # A lane is one digit (base N) of one request.  Each lane is swept through all its digit values with every
    # other digit at 0; it may move at most ONE output position (or none: a dead digit, e.g. masked-off bits).
    # Lanes are then grouped by the position they drive, and for every position the JOINT sweep of all its lanes
    # (all combinations of their digit values) must visit the legal symbols of that position uniformly.
    acc.count("lane_targets")
    lane_pos = {}
    lane_N = {}
    for r, R in enumerate(sizes):
        N, k = digits_for(R, hint)
        if N > 70000:
            viol("unanalysable_request", f"request {r} has range {R} which is no power of the alphabet size {hint} nor of 2")
            return out
        for i in range(k):
            pos = None
            for d in range(1, N):
                ans = [0] * len(sizes)
                ans[r] = d * N**i
                o, lg = run(ans, f"lane:{r}.{i}:{d}")
                if lg != log:
                    viol("data_dependent_requests", f"requests change with answer {ans[r]} of request {r}")
                    return out
                diff = [j for j in range(len(o)) if o[j] != base[j]]
                if not diff:
                    continue
                if len(diff) != 1:
                    viol("lane_spread",
                         f"digit {i} of request {r} (value {d}) changes {len(diff)} output positions {diff[:8]} instead of at most one")
                    return out
                if pos is None:
                    pos = diff[0]
                elif pos != diff[0]:
                    viol("lane_wanders", f"digit {i} of request {r} drives position {pos} and {diff[0]}")
                    return out
            if pos == len(base) - 1:
                viol("size", "the output length depends on the random answer")
                return out
            lane_N[(r, i)] = N
            if pos is not None:
                lane_pos[(r, i)] = pos
    by_pos = collections.defaultdict(list)
    for lane, pos in lane_pos.items():
        by_pos[pos].append(lane)
    if len(by_pos) != npos:
        missing = [j for j in range(npos) if j not in by_pos]
        viol("uncovered_positions", f"{len(missing)} of {npos} output positions (e.g. {missing[:4]}) are not driven by any random digit")
        return out
    singles = {}
    for pos, lanes_here in sorted(by_pos.items()):
        combos = 1
        for lane in lanes_here:
            combos *= lane_N[lane]
        if combos > 70000:
            viol("unanalysable_position", f"position {pos} is driven by {len(lanes_here)} digits ({combos} combinations)")
            return out
        vals = collections.Counter()
        for digs in itertools.product(*[range(lane_N[lane]) for lane in lanes_here]):
            ans = [0] * len(sizes)
            for (r, i), d in zip(lanes_here, digs):
                ans[r] += d * lane_N[(r, i)] ** i
            o, lg = run(ans, f"pos:{pos}:{digs}")
            diff = [j for j in range(len(o)) if o[j] != base[j]]
            if any(j != pos for j in diff):
                viol("lane_interaction", f"digits {lanes_here} together change positions {diff[:6]}, not only {pos}")
                return out
            vals[o[pos]] += 1
            if sum(1 for d in digs if d) == 1:
                k = [n for n, d in enumerate(digs) if d][0]
                singles[(lanes_here[k][0], lanes_here[k][1], digs[k])] = (pos, o[pos])
        L = legal(pos)
        if set(vals) != set(L) or len(set(vals.values())) != 1:
            viol("position_nonuniform",
                 f"the {combos} equally likely values of the random digits driving position {pos} give {len(vals)} symbols with "
                 f"multiplicities {sorted(set(vals.values()))[:5]}; the declared alphabet has {len(L)} symbols")
            return out
    # ---------------- pairs of lanes driving DIFFERENT positions: independence ----------------
    lanes = sorted(lane_pos)
    if len(lanes) <= 70 or not quick:
        pairs = list(itertools.combinations(lanes, 2))
        if len(pairs) > 3000 and quick:
            pairs = pairs[:: len(pairs) // 3000 + 1]
    else:
        idx = {lane: n for n, lane in enumerate(lanes)}
        pairs = [(a, b) for a in lanes for b in lanes if 0 < idx[b] - idx[a] <= 8]
    for (r1, i1), (r2, i2) in pairs:
        if lane_pos[(r1, i1)] == lane_pos[(r2, i2)]:
            continue
        N1, N2 = lane_N[(r1, i1)], lane_N[(r2, i2)]
        for d1, d2 in ((1, 1), (N1 - 1, N2 - 1)) if max(N1, N2) > 2 else ((1, 1),):
            if (r1, i1, d1) not in singles or (r2, i2, d2) not in singles:
                continue
            ans = [0] * len(sizes)
            ans[r1] += d1 * N1**i1
            ans[r2] += d2 * N2**i2
            o, lg = run(ans, f"pair:{r1}.{i1}.{d1}+{r2}.{i2}.{d2}")
            want = list(base)
            p1, v1 = singles[(r1, i1, d1)]
            p2, v2 = singles[(r2, i2, d2)]
            want[p1], want[p2] = v1, v2
            if o != want:
                viol("lane_interaction", f"digits ({r1},{i1}) and ({r2},{i2}) do not act independently on the output")
                return out
    # ---------------- top answer ----------------
    try:
        o, lg = run(["max"] * len(sizes), "top")
        if any(s not in legal(j) for j, s in enumerate(o[:-1])):
            viol("alphabet", "the top answer produces a symbol outside the alphabet")
    except core.HarnessError:
        raise
    except Exception as e:  # noqa: BLE001
        viol(f"top_raises:{type(e).__name__}", f"top answer raised {e!r}")
    # ---------------- two consecutive draws use separate requests ----------------
    if t.get("two_draws"):
        H = HS.handler(spec["hasher"])
        kw = dict(HS.min_cost_kw(spec["hasher"]))
        kw.update(spec.get("settings") or {})
        if spec.get("salt_size") is not None:
            kw["salt_size"] = spec["salt_size"]
        if spec["hasher"] == "scrypt":
            kw["rounds"] = 2  # (libxcrypt's $7$ starts at N = 2^2: the interoperability clause needs a cost it takes)
        Hc = H.using(**kw) if kw else H
        ctxkw = HS.ctx_grid(spec["hasher"])[0]
        n = len(sizes)
        alpha = [0, 1, sizes[0] - 1, sizes[0] // 2]
        res = {}
        for a in alpha:
            for b2 in alpha:
                r = env.ScriptedRng([a] + [0] * (n - 1) + [b2])
                acc.ev()
                acc.cls(name, f"two:{a}:{b2}")
                with env.scripted_rng(r):
                    h1 = Hc.hash("pw", **ctxkw)
                    h2 = Hc.hash("pw", **ctxkw)
                if len(r.log) != 2 * n:
                    viol("shared_request", f"two hash() calls consumed {len(r.log)} requests, one call consumes {n}")
                    return out
                res[(a, b2)] = (h1, h2)
        for a in alpha:
            if len({res[(a, b2)][0] for b2 in alpha}) != 1:
                viol("draws_related", "the first generated salt depends on the second draw")
            if len({res[(b2, a)][1] for b2 in alpha}) != 1:
                viol("draws_related", "the second generated salt depends on the first draw")
        if len({res[(a, alpha[0])][0] for a in alpha}) != len(alpha):
            viol("draws_constant", "different answers give the same salt")
    return out


# ---------------------------------------------------------------------------
# salt pinning must be refused by CryptContext
# ---------------------------------------------------------------------------
def eval_pin(case):
    from passlib.context import CryptContext

    name, entry, form = case["hasher"], case["entry"], case["form"]
    kw = HS.min_cost_kw(name)
    base_opts = {f"{name}__{k}": v for k, v in kw.items()}
    salt = HS.make_salt(name, HS.handler(name).default_salt_size or HS.handler(name).min_salt_size, 3)
    if isinstance(salt, bytes):
        salt_ini = salt.decode("latin-1")
    else:
        salt_ini = salt
    keyname = {"scheme": f"{name}__salt", "all": "all__salt", "category": f"admin__{name}__salt",
               "default_cat": f"default__{name}__salt"}[form]
    out = []
    key = f"C06|pin:{name}|{entry}:{form}"
    ctx = CryptContext(schemes=[name], **base_opts)
    before = ctx.to_dict()
    try:
        if entry == "constructor":
            CryptContext(schemes=[name], **dict(base_opts, **{keyname: salt}))
        elif entry == "load":
            ctx.load(dict(base_opts, schemes=[name], **{keyname: salt}))
        elif entry == "load_update":
            ctx.load({keyname: salt}, update=True)
        elif entry == "update":
            ctx.update(**{keyname: salt})
        elif entry == "copy":
            ctx.copy(**{keyname: salt})
        elif entry == "using":
            ctx.using(**{keyname: salt})
        elif entry == "from_string":
            ini = "[passlib]\nschemes = %s\n%s = %s\n" % (name, keyname, salt_ini.replace("%", "%%"))
            CryptContext.from_string(ini)
        elif entry == "load_string":
            ini = "[passlib]\nschemes = %s\n%s = %s\n" % (name, keyname, salt_ini.replace("%", "%%"))
            ctx.load(ini)
        else:
            raise core.HarnessError(entry)
        out.append((key + ":accepted", f"CryptContext accepted the configuration key {keyname!r} (a pinned salt) via {entry}"))
    except core.HarnessError:
        raise
    except Exception:  # noqa: BLE001
        pass
    if ctx.to_dict() != before:
        out.append((key + ":state_changed", f"context configuration changed after the refused {keyname!r}"))
    try:
        ctxkw = HS.ctx_grid(name)[0]
        hs = []
        for a in (1, 2):
            with env.scripted_rng(env.ScriptedRng([a])):
                hs.append(ctx.hash("pw", **ctxkw))
        if hs[0] == hs[1]:
            out.append((key + ":salt_pinned", "hashes made under two different random answers are identical after the attempt"))
    except Exception as e:  # noqa: BLE001
        out.append((key + f":hash_raises:{type(e).__name__}", f"raised {e!r}"))
    return out


def eval_dup_history(case):
    """generated passwords carry at least the requested entropy -- also when the symbol source repeats symbols and
    also AFTER other sources have been used (the generators memoise which sources they have already validated).
    A history = 48 rounds of [a valid run-time-built source is used and dropped, then a source of the same type
    and shape with repeated symbols is offered]: the offer must be refused (ValueError) or, if it is accepted, the
    output must still be long enough for the requested entropy counted over the DISTINCT symbols."""
    import gc

    from passlib import pwd as P

    kind, form, entropy = case["kind"], case["form"], case["entropy"]
    out = []
    accepted = []
    for i in range(48):
        tag = f"{i:02d}"
        if kind == "genword":
            valid = "".join(chr(0x41 + (i + j) % 26) for j in range(8 + i % 3))
            dup = "".join(chr(0x61 + (i + j) % 2) for j in range(8 + i % 3))  # 2 distinct symbols
            if form == "bytes":
                valid, dup = valid.encode("ascii"), dup.encode("ascii")
            gen = lambda src: P.genword(entropy=entropy, chars=src)  # noqa: E731
            count = lambda x: len(x)  # noqa: E731
        else:
            valid = " ".join(f"v{tag}w{j}" for j in range(6)).split()
            dup = " ".join(f"d{tag}w{j % 2}" for j in range(6)).split()
            if form == "tuple":
                valid, dup = tuple(valid), tuple(dup)
            elif form == "iter":
                valid, dup = iter(valid), iter(dup)
            gen = lambda src: P.genphrase(entropy=entropy, words=src, sep=" ")  # noqa: E731
            count = lambda x: len(x.split(" "))  # noqa: E731
        try:
            gen(valid)
        except Exception as e:  # noqa: BLE001
            return [(f"C06|{kind}|dup_history:valid_source_refused:{form}", f"a source of distinct symbols ({form}) was refused: {e!r}")]
        del valid
        gc.collect()
        try:
            got = gen(dup)
        except ValueError:
            continue
        except Exception as e:  # noqa: BLE001
            return [(f"C06|{kind}|dup_history:raises:{type(e).__name__}:{form}", f"a source with repeated symbols raised {e!r}")]
        distinct = 2
        have = count(got) * math.log2(distinct)
        if have + 1e-9 < entropy:
            accepted.append((i, got, have))
    if accepted:
        i, got, have = accepted[0]
        out.append((f"C06|{kind}|dup_history:entropy_shortfall:{form}",
                    f"{kind}(entropy={entropy}, {form} source with 2 distinct symbols repeated) was accepted in {len(accepted)} of 48 rounds "
                    f"after a valid source had been used (first: round {i}): output {got!r} carries {have:.1f} bits < {entropy} requested"))
    return out


def eval_named_wordset(case):
    """a wordset registered by the application under a name (default_wordsets[name] = words, or set_path(name,
    file)) and selected with wordset=name: repeated words (also words that only differ by surrounding blanks in
    the file) must be refused, or the phrase must still carry the requested entropy over the DISTINCT words"""
    import os
    import tempfile

    from passlib import pwd as P

    how, entropy = case["how"], case["entropy"]
    words = ["amber", "birch", "cedar", "amber", "delta", "birch", "amber", "elm"]  # 8 entries, 5 distinct
    name = f"c06_{how}"
    tmp = None
    out = []
    try:
        if how == "assigned_list":
            P.default_wordsets[name] = list(words)
        elif how == "assigned_tuple":
            P.default_wordsets[name] = tuple(words)
        elif how == "assigned_text":
            P.default_wordsets[name] = " ".join(words)
        else:
            fd, tmp = tempfile.mkstemp(prefix="c06-words-", suffix=".txt")
            with os.fdopen(fd, "w") as fh:
                fh.write("\n".join(w + ("  " if i % 3 == 0 else "") for i, w in enumerate(words)) + "\n")
            P.default_wordsets.set_path(name, tmp)
        try:
            got = P.genphrase(entropy=entropy, wordset=name, sep=" ")
        except ValueError:
            return []
        n = len(got.split(" "))
        have = n * math.log2(5)
        if have + 1e-9 < entropy:
            out.append((f"C06|genphrase|named_wordset:entropy_shortfall:{how}",
                        f"genphrase(entropy={entropy}, wordset=<{how}: 8 entries, 5 distinct words>) was accepted and made {n} words = {have:.1f} bits < {entropy} requested"))
    except Exception as e:  # noqa: BLE001
        out.append((f"C06|genphrase|named_wordset:raises:{type(e).__name__}:{how}", f"registering / using a named wordset ({how}) raised {e!r}"))
    finally:
        try:
            P.default_wordsets._loaded.pop(name, None)
            P.default_wordsets.paths.pop(name, None)
        except Exception:  # noqa: BLE001
            pass
        if tmp:
            os.unlink(tmp)
    return out


# ---------------------------------------------------------------------------
# part "os_source": the library's DEFAULT random source (random.SystemRandom objects: passlib.utils.rng and its
# copies, secrets._sysrand) left in place, and the operating system's entropy call underneath it scripted
# (random._urandom, the one function every SystemRandom method draws from).  Each generator is called twice in a fresh
# interpreter: the first call while the OS answers stream A, the second while it answers stream B.  The second value
# must be a function of stream B alone (the same for every stream A): nothing drawn for one value may be kept for the
# next -- no read-ahead, no cache -- or two values generated after a fork() / by two workers would be related.
# ---------------------------------------------------------------------------
OS_TARGETS = ("getrandbytes16", "getrandbytes1", "getrandstr22", "salt:pbkdf2_sha256", "salt:sha256_crypt", "salt:ldap_salted_sha1",
              "salt:scram", "salt:md5_crypt", "totp_new", "totp_new10", "generate_secret", "genword", "genphrase", "wallet_salt",
              "libpass_salt", "libpass_pbkdf2", "disable_django")


def _os_call(target):
    import passlib.utils as U

    if target == "getrandbytes16":
        return U.getrandbytes(U.rng, 16)
    if target == "getrandbytes1":
        return U.getrandbytes(U.rng, 1)
    if target == "getrandstr22":
        return U.getrandstr(U.rng, "abcdefghijklmnopqrstuvwxyz012345", 22)
    if target.startswith("salt:"):
        name = target[5:]
        H = HS.handler(name)
        kw = HS.min_cost_kw(name)
        return (H.using(**kw) if kw else H).hash("pw")
    if target.startswith("totp_new"):
        from passlib.totp import TOTP

        return TOTP(new=True, **({"size": 10} if target.endswith("10") else {})).key
    if target == "generate_secret":
        from passlib.totp import generate_secret

        return generate_secret()
    if target == "genword":
        from passlib.pwd import genword

        return genword(entropy=64)
    if target == "genphrase":
        from passlib.pwd import genphrase

        return genphrase(entropy=64)
    if target == "wallet_salt":
        from passlib import totp as T

        from mc.checks.c15 import ensure_aes

        ensure_aes()
        return T.AppWallet({"1": "app-secret"}, encrypt_cost=0).encrypt_key(b"0123456789")["s"]
    if target == "libpass_salt":
        import libpass._salt as LS

        return LS.generate_salt(16)
    if target == "libpass_pbkdf2":
        from libpass.hashers.pbkdf2 import PBKDF2SHA256Handler

        return PBKDF2SHA256Handler(rounds=1).hash("pw")
    if target == "disable_django":
        return HS.handler("django_disabled").hash("pw")
    raise core.HarnessError(target)


def child_os_source(payload):
    """runs in a fresh interpreter: -> {target: (first value, second value, OS requests during first, during second)}"""
    import random

    state = {"tag": payload["tag_a"], "ctr": 0, "calls": 0}

    def fake_urandom(n):
        state["calls"] += 1
        out = bytes((state["tag"] * 29 + (state["ctr"] + i) * 7 + ((state["ctr"] + i) >> 5) * 13) & 0xFF for i in range(n))
        state["ctr"] += n
        return out

    real = random._urandom
    random._urandom = fake_urandom
    try:
        res = {}
        for target in payload["targets"]:
            try:
                state.update(tag=payload["tag_a"], ctr=0, calls=0)
                first = _os_call(target)
                c1 = state["calls"]
                state.update(tag=payload["tag_b"], ctr=0, calls=0)
                second = _os_call(target)
                res[target] = (first, second, c1, state["calls"])
            except Exception as e:  # noqa: BLE001
                res[target] = ("exc", repr(e), 0, 0)
        return res
    finally:
        random._urandom = real


def eval_os_source(case):
    targets = case["targets"]
    runs = [core.call_in_child("mc.checks.c06", "child_os_source", {"targets": targets, "tag_a": a, "tag_b": 201}, optimized=False) for a in (1, 2, 3)]
    out = []
    for t in targets:
        vals = [r[t] for r in runs]
        if any(v[0] == "exc" for v in vals):
            out.append((f"C06|os_source|{t}:raises", f"{t} under a scripted OS entropy source raised {[v[1] for v in vals if v[0] == 'exc'][0]}"))
            continue
        seconds = {repr(v[1]) for v in vals}
        if len(seconds) != 1:
            out.append((f"C06|os_source|{t}:second_value_depends_on_earlier_entropy",
                        f"{t}: the value generated while the OS source answers stream B differs with the stream the PREVIOUS value was drawn from "
                        f"({sorted(seconds)[:2]}): entropy read for one value is kept for the next (read-ahead / cache) -- forked workers would repeat each other"))
        if any(v[3] == 0 for v in vals):
            out.append((f"C06|os_source|{t}:second_value_drew_nothing",
                        f"{t}: the second value was produced without a single request to the OS entropy source"))
        if any(v[2] == 0 for v in vals):
            out.append((f"C06|os_source|{t}:first_value_drew_nothing", f"{t}: the first value was produced without a request to the OS entropy source"))
    return out



def replay(case):
    if case.get("part") == "os_source":
        return eval_os_source(case)
    if case.get("part") == "pin":
        return eval_pin(case)
    if case.get("part") == "dup_history":
        return eval_dup_history(case)
    if case.get("part") == "named_wordset":
        return eval_named_wordset(case)
    return analyse(case["spec"], case.get("quick", True))


# ---------------------------------------------------------------------------
def salted_hashers():
    out = []
    for name in HS.usable_names():
        H = HS.handler(name)
        if "salt" in getattr(H, "setting_kwds", ()) and HS.salt_alphabet(name) is not None:
            out.append(name)
    return out


def targets(quick, seed):
    from passlib.utils.binary import BASE64_CHARS, HASH64_CHARS

    ts = []
    for n in (list(range(1, 17)) + [20, 24, 32, 48, 64]) if quick else range(1, 65):
        ts.append({"kind": "getrandbytes", "count": n})
    if not quick:
        ts.append({"kind": "getrandbytes", "count": 3, "full_limit": 1 << 24})
    base94 = "".join(chr(c) for c in range(33, 127))
    for N in (2, 3, 5, 10, 16, 26, 62, 64, 94):
        cs = base94[:N]
        if N == 64:
            cs = HASH64_CHARS
        counts = sorted({1, 2, 3, 4, 5, 8, 16, 22, 32, 64} if quick else set(range(1, 33)) | {48, 64})
        for c in counts:
            ts.append({"kind": "getrandstr", "charset": cs, "count": c})
            if N in (2, 16, 64, 94) and c in (1, 2, 3, 8, 16):
                ts.append({"kind": "getrandstr", "charset": cs.encode("ascii"), "count": c})
    # sizes beyond the usual ones (long tokens, unbounded text salts): chunk boundaries of any batching scheme
    for N, c in ((2, 65), (2, 127), (2, 128), (2, 129), (16, 128), (16, 200), (64, 128), (64, 192), (94, 256), (16, 1024)):
        ts.append({"kind": "getrandstr", "charset": HASH64_CHARS if N == 64 else base94[:N], "count": c})
    ts.append({"kind": "getrandstr", "charset": bytes(range(256)), "count": 2})
    ts.append({"kind": "getrandstr", "charset": bytes(range(256)), "count": 16})
    for name in salted_hashers():
        H = HS.handler(name)
        sizes = [None]
        if "salt_size" in H.setting_kwds:
            mn, mx, df = H.min_salt_size, H.max_salt_size, H.default_salt_size
            cap = 64
            hi = min(mx, cap) if mx else cap
            sizes = sorted({max(mn, 1), df, hi} | ({min(mn + 1, hi)} if not quick else set()))
        extras = [{}]
        if name == "scrypt":
            extras = [{"ident": "$scrypt$"}, {"ident": "$7$"}]
        if name == "bcrypt":
            extras = [{}, {"ident": "2a"}]
        if name == "bcrypt_sha256":
            extras = [{}, {"ident": "2a", "version": 1}]
        if name in HS.SLOW and HS.SLOW[name] >= 3 and quick:
            sizes = sizes[:1]
        for sz in sizes:
            for e in extras:
                ts.append({"kind": "hasher_salt", "hasher": name, "salt_size": sz, "settings": e})
    for name in ("sha256_crypt", "pbkdf2_sha256", "md5_crypt", "sha1_crypt", "ldap_salted_sha1", "phpass"):
        ts.append({"kind": "hasher_salt", "hasher": name, "salt_size": None, "settings": {}, "via": "django_adapter"})
    for alg, dsz in (("sha1", 20), ("sha256", 32), ("sha512", 64)):
        for size in (sorted({10, 16, dsz}) if quick else range(10, dsz + 1)):
            ts.append({"kind": "totp_new", "alg": alg, "size": size})
    for size in (None, 1, 2, 16) if quick else (None,) + tuple(range(1, 33)):
        ts.append({"kind": "wallet_salt", "size": size})
    for ent in ((1, 2, 6, 7, 64, 128, 256, 512) if quick else list(range(1, 65)) + [100, 128, 255, 256, 257, 512]):
        ts.append({"kind": "generate_secret", "entropy": ent})
    ts.append({"kind": "generate_secret", "entropy": 80, "charset": "0123456789"})
    ts.append({"kind": "generate_secret", "entropy": 80, "charset": "01"})
    ents = (1, 8, 36, 48, 60, 128) if quick else tuple(range(1, 130, 3)) + (128,)
    for cs in ("ascii_62", "ascii_50", "ascii_72", "hex"):
        for ent in ents:
            for length in (None, 1, 5, 50):
                kw = {"charset": cs, "entropy": ent}
                if length:
                    kw["length"] = length
                ts.append({"kind": "genword", "kw": kw})
    for ret in (2, 3, "iter"):
        ts.append({"kind": "genword", "kw": {"charset": "ascii_62", "length": 4, "returns": ret}})
        ts.append({"kind": "genword", "kw": {"chars": "abc", "length": 3, "returns": ret}})
    for n in (2, 3, 7, 94):
        ts.append({"kind": "genword", "kw": {"chars": base94[:n], "entropy": 40}})
        ts.append({"kind": "genword", "kw": {"chars": base94[:n], "length": 6}})
    # the same alphabet spelled as text and as UTF-8 bytes (multi-byte characters: symbol count != byte count)
    for alpha in ("ab", "\u03b1\u03b2\u03b3\u03b4", "a\u00e9\u00f6z", "\u20ac$\u00a3\u00a5\u20b9", "\u65e5\u672c\u8a9e", "x\U0001f600"):
        for form in (alpha, alpha.encode("utf-8")):
            for ent in ((12, 48) if quick else (1, 12, 36, 48, 64, 128)):
                ts.append({"kind": "genword", "kw": {"chars": form, "entropy": ent}})
            ts.append({"kind": "genword", "kw": {"chars": form, "length": 5}})
            ts.append({"kind": "genword", "kw": {"chars": form}})
            ts.append({"kind": "genword", "kw": {"chars": form, "entropy": "fair"}})
    for ws in ("eff_long", "eff_short", "eff_prefixed", "bip39"):
        for ent in ((1, 20, 48, 128) if quick else (1, 10, 13, 20, 26, 48, 64, 77, 128)):
            for length in (None, 1, 5):
                kw = {"wordset": ws, "entropy": ent}
                if length:
                    kw["length"] = length
                ts.append({"kind": "genphrase", "kw": kw})
    ts.append({"kind": "genphrase", "kw": {"words": ["a", "b", "c"], "length": 5, "sep": "-"}})
    ts.append({"kind": "genphrase", "kw": {"words": ["x", "yy"], "entropy": 9, "sep": " "}})
    ts.append({"kind": "django_disabled"})
    ts.append({"kind": "cisco_type7"})
    for n in (1, 2, 8, 16, 22):
        ts.append({"kind": "libpass_salt", "fn": "generate_salt", "arg": n})
    for e in (1, 6, 64, 128, 256):
        ts.append({"kind": "libpass_salt", "fn": "generate_salt_by_entropy", "arg": e})
    for h in ("lp_sha256", "lp_sha512", "lp_pbkdf2_sha256", "lp_pbkdf2_sha512"):
        ts.append({"kind": "libpass_hasher_salt", "hasher": h})
    return ts


def work(task):
    acc = Acc()
    if task.get("part") == "pin":
        for case in task["cases"]:
            acc.ev()
            acc.cls("pin", case["hasher"], case["entry"], case["form"])
            for key, desc in eval_pin(case):
                acc.violation(key, desc, case)
        acc.axis("part", "pin")
        return acc
    if task.get("part") == "os_source":
        case = {"part": "os_source", "targets": task["targets"]}
        for t in task["targets"]:
            acc.ev()
            acc.cls("os_source", t)
        for key, desc in eval_os_source(case):
            acc.violation(key, desc, {"part": "os_source", "targets": [key.split("|")[2].rsplit(":", 1)[0]]})
        acc.axis("part", "os_source")
        return acc
    if task.get("part") == "dup_history":
        for case in task["cases"]:
            acc.ev()
            if case.get("part") == "named_wordset":
                acc.cls("named_wordset", case["how"], case["entropy"])
                found = eval_named_wordset(case)
            else:
                acc.cls("dup_history", case["kind"], case["form"], case["entropy"])
                found = eval_dup_history(case)
            for key, desc in found:
                acc.violation(key, desc, case)
        acc.axis("part", "dup_history")
        return acc
    spec = task["spec"]
    vs = analyse(spec, task["quick"], acc)
    case = {"spec": spec, "quick": task["quick"]}
    for key, desc in vs:
        acc.violation(key, desc, case)
    acc.axis("target_kind", spec["kind"])
    acc.outcome((spec["kind"], "viol" if vs else "ok"))
    if spec["kind"] in ("getrandbytes", "hasher_salt") and spec.get("count", 2) == 2:
        acc.sample(case)
    return acc


def run(ctx):
    ts = targets(ctx.quick, ctx.seed)
    tasks = [{"spec": s, "quick": ctx.quick} for s in ts]
    # salt pinning
    pins = []
    for name in salted_hashers():
        if name in ("cisco_type7",):
            continue
        for entry in ("constructor", "load", "load_update", "update", "copy", "using", "from_string", "load_string"):
            for form in ("scheme", "all", "category", "default_cat"):
                pins.append({"part": "pin", "hasher": name, "entry": entry, "form": form})
    for i in range(0, len(pins), 64):
        tasks.append({"part": "pin", "cases": pins[i : i + 64]})
    dups = [{"part": "dup_history", "kind": k, "form": f, "entropy": e}
            for k, forms in (("genword", ("str", "bytes")), ("genphrase", ("list", "tuple", "iter"))) for f in forms for e in (24, 40)]
    dups += [{"part": "named_wordset", "how": h, "entropy": e} for h in ("assigned_list", "assigned_tuple", "assigned_text", "path") for e in (24, 40)]
    tasks.append({"part": "dup_history", "cases": dups})
    ost = [t for t in OS_TARGETS if not t.startswith("salt:") or HS.usable(t[5:])]
    for i in range(0, len(ost), 3):
        tasks.append({"part": "os_source", "targets": ost[i : i + 3]})
    ctx.log(f"{len(ts)} generator targets, {len(pins)} pinning cases")
    acc = core.pmap(work, tasks)
    ctx.merge(acc)
    from passlib import totp as T

    from mc.checks.c15 import ensure_aes

    if ensure_aes() == "stand-in":
        ctx.assume("TOTP AppWallet salts are drawn with AES-256-CTR supplied by the pinned pure-Python stand-in (mc/refs/aes.py): "
                   "package 'cryptography' is absent on this host; the salt is drawn by the library's own code before the cipher is used")
    ctx.assume("bcrypt.gensalt() used by the libpass bcrypt hashers draws from os.urandom inside the bcrypt wheel: third-party, not owned")
    ctx.assume("uniformity is relative to a uniform answer per request of the random source (random.Random API level)")
