"""C08 -- malformed or altered hash strings are rejected cleanly and never verify.

E1 product: hashers (+ a CryptContext) x seed hashes (one per ident / variant) x EVERY mutation (substitution and
insertion of each symbol of the alphabet, deletion, truncation at every position; field surgery; numeric surgery;
arbitrary strings) x str/bytes, in two interpreter modes (default and `python -O`).
Oracle: identify never raises and returns a bool; verify / needs_update / context methods answer or raise
ValueError / TypeError only; a mutant that verifies the seed's password must be one of the documented re-encodings
of the very same digest bits (decided from the mutation itself, independently of the parser under test).
"""
from __future__ import annotations

import warnings

from mc import core
from mc import hashers as HS
from mc.core import Acc

warnings.filterwarnings("ignore")
import logging as _logging

_logging.getLogger().setLevel(_logging.ERROR)  # digest-name lookups of mutated strings log a warning each

ID = "C08"
LEVEL = "exploration"
RULE = (
    "product hasher x seed hash (per ident/variant) x mutation (every position x {substitute, insert} x alphabet, "
    "delete, truncate; field drop/dup/swap; numeric zero-pad/+-1/negative/empty/huge; fixed odd strings) x "
    "{str, bytes} x interpreter mode {default, -O}; non-trivial = the mutant differs from the seed and was fed to "
    "identify+verify+needs_update; distinct class = hasher|seed#|mode|form|mutation"
)

SIGMA_QUICK = "$=.0aA+{ \x00é\u0664"
SIGMA_FULL = "$,=./019azAZg+-_{}*!:| \x00\n\x7fé€\u0664\uff11"  # incl. two non-ASCII decimal digits (4, 1)
PW = "password"

HEX_INSENSITIVE = ("hex_md4", "hex_md5", "hex_sha1", "hex_sha256", "hex_sha512", "lmhash", "nthash", "msdcc", "msdcc2",
                   "mysql41", "mysql323", "oracle10", "oracle11", "mssql2000", "mssql2005", "htdigest",
                   "ldap_hex_md5", "ldap_hex_sha1", "bsd_nthash", "grub_pbkdf2_sha512", "cisco_type7", "postgres_md5",
                   "django_salted_md5", "django_salted_sha1", "cta_pbkdf2_sha1")
B64_ALPHABETS = (
    "ABCDEFGHIJKLMNOPQRSTUVWXYZabcdefghijklmnopqrstuvwxyz0123456789+/",
    "ABCDEFGHIJKLMNOPQRSTUVWXYZabcdefghijklmnopqrstuvwxyz0123456789./",
    "ABCDEFGHIJKLMNOPQRSTUVWXYZabcdefghijklmnopqrstuvwxyz0123456789-_",
    "./0123456789ABCDEFGHIJKLMNOPQRSTUVWXYZabcdefghijklmnopqrstuvwxyz",
    "./ABCDEFGHIJKLMNOPQRSTUVWXYZabcdefghijklmnopqrstuvwxyz0123456789",
)
SEPS = "$,:}{="


def seeds_for(name, quick, seed):
    """[(seed_index, settings, ctx, hash)]: one seed per ident / variant / version (always), plus the
    special forms (empty salt, elided default rounds) -- thorough keeps up to 8, quick up to 5"""
    H = HS.handler(name)
    grid = HS.settings_grid(name, True, seed)
    primary, extra = [], []
    seen, seen2 = set(), set()
    for st in grid:
        sig = tuple(sorted((k, str(v)) for k, v in st.items() if k in ("ident", "variant", "version", "algs", "marker", "block_size")))
        sig2 = sig + (("salt0", st.get("salt") in ("", b"")),)
        if name in ("sha256_crypt", "sha512_crypt"):
            sig2 += (("r5000", st.get("rounds") == 5000),)
        if isinstance(st.get("salt"), int):
            # an integer salt (cisco_type7): the two ends of its range are seeds of their own
            ends = [g["salt"] for g in grid if isinstance(g.get("salt"), int)]
            sig2 += (("isalt", st["salt"] if st["salt"] in (min(ends), max(ends)) else "inner"),)
        if sig not in seen:
            seen.add(sig)
            seen2.add(sig2)
            primary.append(st)
        elif sig2 not in seen2:
            seen2.add(sig2)
            extra.append(st)
    picked = (primary + extra)[: (max(5, len(primary)) if quick else 8)]
    if quick:
        picked = picked[:6]
    out = []
    ctxs = HS.ctx_grid(name)
    for i, st in enumerate(picked):
        cx = ctxs[0]
        try:
            Hc = H.using(**st) if st else H
            h = Hc.hash(PW, **cx)
        except Exception:  # noqa: BLE001
            continue
        if isinstance(h, str):
            out.append((i, st, cx, h))
    return out


#: (character, the lower-cased ASCII text its upper() / lower() / casefold() denotes)
CASEMAP = (("\ufb00", "ff"), ("\ufb01", "fi"), ("\ufb02", "fl"), ("\ufb03", "ffi"), ("\ufb04", "ffl"), ("\ufb05", "st"), ("\ufb06", "st"),
           ("\u00df", "ss"), ("\u017f", "s"), ("\u0131", "i"), ("\u212a", "k"), ("\u0130", "i"))


CASEMAP_TEXT = 48  # numbered text passwords tried before the byte passwords


def casemap_mutations(h):
    out = []
    low = h.lower()
    for c, img in CASEMAP:
        start = 0
        while True:
            i = low.find(img, start)
            if i < 0:
                break
            out.append((f"casemap@{i}:{ord(c):x}", h[:i] + c + h[i + len(img):]))
            start = i + 1
    return out


def mutations(h, sigma):
    """ordered list of (label, mutant) -- never equal to h"""
    import re

    out = []
    n = len(h)
    for i in range(n):
        for c in sigma:
            if c != h[i]:
                out.append((f"sub@{i}:{ord(c):x}", h[:i] + c + h[i + 1 :]))
        if h[i].swapcase() != h[i]:
            out.append((f"case@{i}", h[:i] + h[i].swapcase() + h[i + 1 :]))
        out.append((f"del@{i}", h[:i] + h[i + 1 :]))
        out.append((f"trunc@{i}", h[:i]))
    for i in range(n + 1):
        for c in sigma:
            out.append((f"ins@{i}:{ord(c):x}", h[:i] + c + h[i:]))
    # field surgery on every separator kind present
    for sep in "$,:":
        if sep in h:
            parts = h.split(sep)
            for j in range(len(parts)):
                out.append((f"dropfield{sep}{j}", sep.join(parts[:j] + parts[j + 1 :])))
                out.append((f"dupfield{sep}{j}", sep.join(parts[: j + 1] + parts[j:])))
                out.append((f"emptyfield{sep}{j}", sep.join(parts[:j] + [""] + parts[j + 1 :])))
                if j + 1 < len(parts):
                    sw = list(parts)
                    sw[j], sw[j + 1] = sw[j + 1], sw[j]
                    out.append((f"swapfield{sep}{j}", sep.join(sw)))
            out.append((f"extrasep{sep}", h + sep))
            out.append((f"dblsep{sep}", h.replace(sep, sep + sep, 1)))
    # a separator MOVED by up to three places (the neighbouring fields trade characters, their concatenation is unchanged)
    for sep in "$:|":
        for i, ch in enumerate(h):
            if ch == sep and 0 < i < n - 1:
                rest = h[:i] + h[i + 1:]
                for k in (-3, -2, -1, 1, 2, 3):
                    j = i + k
                    if 0 < j < len(rest) and sep not in rest[min(i, j):max(i, j)]:
                        out.append((f"movesep{sep}@{i}:{k:+d}", rest[:j] + sep + rest[j:]))
    # parameter lists ('k=v,k=v,...' inside one $-field): every re-ordering of the items, and every numeric item shadowed
    # by the same key with another value (in front of it: "last one wins" parsers; behind it: "first one wins")
    if not h.startswith("$scram$"):  # (scram's list is a set of digests, one per algorithm: its order carries nothing)
        import itertools

        fields = h.split("$")
        for fi, field in enumerate(fields):
            items = field.split(",")
            if len(items) < 2 or not all("=" in it for it in items):
                continue

            def put(new_items, fi=fi):
                return "$".join(fields[:fi] + [",".join(new_items)] + fields[fi + 1:])

            if len(items) <= 4:
                for perm in itertools.permutations(range(len(items))):
                    if list(perm) != sorted(perm):
                        out.append((f"permute${fi}:{''.join(map(str, perm))}", put([items[k] for k in perm])))
            for j, it in enumerate(items):
                k, _, v = it.partition("=")
                if v.isdigit() and v.isascii() and len(v) < 10:
                    other = f"{k}={int(v) + 1}"
                    out.append((f"shadow_before${fi}:{j}", put(items[:j] + [other] + items[j:])))
                    out.append((f"shadow_after${fi}:{j}", put(items[: j + 1] + [other] + items[j + 1:])))
    # k=v surgery: the key or the value of every 'k=v' item emptied
    for i, ch in enumerate(h):
        if ch == "=":
            a = i
            while a > 0 and h[a - 1] not in "$,{}:|":
                a -= 1
            b = i + 1
            while b < n and h[b] not in "$,{}:|":
                b += 1
            out.append((f"dropkey@{i}", h[:a] + h[i:]))
            out.append((f"dropval@{i}", h[: i + 1] + h[b:]))
            out.append((f"dropeq@{i}", h[:i] + h[i + 1 :]))
    # numeric surgery: every maximal digit run
    for m in re.finditer(r"\d+", h):
        a, b = m.span()
        num = h[a:b]
        if len(num) > 12:
            continue
        v = int(num)
        for label, rep in (("zeropad", "0" + num), ("plus1", str(v + 1)), ("minus1", str(v - 1)), ("neg", "-" + num),
                           ("empty", ""), ("huge", "1" + "0" * 30), ("hugedigits", "9" * 5000), ("zero", "0"), ("hex", hex(v)), ("space", " " + num)):
            if rep != num:
                out.append((f"num@{a}:{label}", h[:a] + rep + h[b:]))
        if "pbkdf2" in h[:40].lower() or h.startswith(("$scram$", "$p5k2$")):
            # PBKDF2-based formats allow up to 2^32-1 iterations, the C library underneath 2^31-1: the values in
            # between (never computed: refused at once) -- decimal, and hexadecimal for the formats that write hex
            for label, v in (("int31", 2**31), ("int32max", 2**32 - 1), ("int32", 2**32), ("int63", 2**63)):
                rep = format(v, "x") if h.startswith("$p5k2$") else str(v)
                out.append((f"num@{a}:{label}", h[:a] + rep + h[b:]))
    # two-digit windows at the start of the string and of every field: every value 00..99 (a small decimal field --
    # cisco_type7's offset, bcrypt's cost -- is enumerated completely: an alias may sit anywhere in its range)
    starts = [0] + [i + 1 for i, ch in enumerate(h) if ch in SEPS]
    for a in starts:
        if h[a:a + 2].isdigit() and h[a:a + 2].isascii() and not h[a + 2:a + 3].isdigit() or (a == 0 and h[:2].isdigit() and h[:2].isascii()):
            # (a bcrypt cost field: the legitimate costs 12..31 would be COMPUTED -- 2^31 rounds -- and prove nothing;
            #  the values below and the out-of-range values above them are all enumerated)
            log2_cost = bool(re.search(r"\$2[abxy]?\$$", h[:a]))
            for v in range(100):
                rep = f"{v:02d}"
                if log2_cost and 12 <= v <= 31:
                    continue
                if rep != h[a:a + 2]:
                    out.append((f"num2@{a}:{rep}", h[:a] + rep + h[a + 2:]))
    # characters whose str.upper() / str.lower() is a longer or other ASCII text (ligatures, long s, dotless i, Kelvin
    # sign, sharp s): a parser that case-normalises before validating turns them into ordinary hex / letters
    out += casemap_mutations(h)
    for label, s in (("empty", ""), ("blank", " "), ("nul", "\x00"), ("dollar", "$"), ("dollars", "$$$"), ("x", "x"),
                     ("twice", h + h), ("rev", h[::-1]), ("upper", h.upper()), ("lower", h.lower()),
                     ("nl", h + "\n"), ("sp", h + " "), ("lead_sp", " " + h), ("crlf", h + "\r\n"), ("tab", h + "\t")):
        out.append((f"whole:{label}", s))
    seen = set()
    res = []
    for label, mth in out:
        if mth != h and mth not in seen:
            seen.add(mth)
            res.append((label, mth))
    return res


BYTE_JUNK = (b"\xff", b"\x80", b"\xc3", b"\xe2\x82", b"\xc0\xaf", b"\xed\xa0\x80")


def byte_mutations(h):
    """mutants that exist only on the bytes level: byte strings that are not valid UTF-8 (a lone continuation or
    lead byte, a cut-off sequence, an overlong form, an encoded surrogate) inserted at the start, at the end, around
    every separator and in the middle of every field, and substituted for the first / last character of every
    field.  [(label, bytes)] -- none of them is a re-encoding of anything"""
    hb = h.encode("utf-8")
    n = len(hb)
    pos = {0, n}
    bounds = [i for i, c in enumerate(hb) if c in b"$,:{}="]
    for i in bounds:
        pos |= {i, i + 1}
    edges = [0] + [i + 1 for i in bounds] + [n]
    for a, b in zip(edges, edges[1:]):
        if b - a > 2:
            pos.add((a + b) // 2)
    out = []
    for i in sorted(p for p in pos if 0 <= p <= n):
        for j in BYTE_JUNK:
            out.append((f"binsert@{i}:{j.hex()}", hb[:i] + j + hb[i:]))
    for i in sorted(p for p in pos if 0 <= p < n):
        out.append((f"bsub@{i}:ff", hb[:i] + b"\xff" + hb[i + 1 :]))
    return out


# ---------------------------------------------------------------------------
# which mutants MAY verify (decided from the mutation, not from the parser under test)
# ---------------------------------------------------------------------------
def _field_bounds(h, i):
    a = i
    while a > 0 and h[a - 1] not in SEPS:
        a -= 1
    b = i
    while b < len(h) and h[b] not in SEPS:
        b += 1
    return a, b


def _in_prefix(h, i):
    if h.startswith("{") and "}" in h:
        return i <= h.index("}")
    return False


import re as _re

_SPLIT = _re.compile(r"([$,:|.={}])")
_NUMTOK = _re.compile(r"^([A-Za-z_-]*?)\s*\+?0*(\d+(?:_\d+)*)\s*$")


def _numeric_canon(s, seed_fields=None):
    """canonical form in which decorated integers ('+1', ' 1', '01', '1_000') inside separator-delimited fields are
    reduced to the plain integer -- only for fields that are pure 'word+digits' tokens"""
    parts = _SPLIT.split(s)
    out = []
    for p in parts:
        m = _NUMTOK.match(p)
        if m and len(m.group(2)) <= 16:
            out.append(m.group(1) + str(int(m.group(2))))  # int() also reads '1_000' (PEP 515 digit grouping)
        else:
            out.append(p)
    return "".join(out)


def _single_diff(a, b):
    if len(a) != len(b):
        return None
    d = [i for i in range(len(a)) if a[i] != b[i]]
    return d[0] if len(d) == 1 else None


def _padding_equiv(seedhash, i, x, y, name):
    b = HS.base_name(name)
    a, e = _field_bounds(seedhash, i)
    if i == e - 1:
        flen = e - a
        k = (6 * flen) % 8
        if k:
            for al in B64_ALPHABETS:
                if x in al and y in al:
                    vx, vy = al.index(x), al.index(y)
                    lowmask = (1 << k) - 1
                    if (vx & ~lowmask) == (vy & ~lowmask):
                        return True
                    himask = lowmask << (6 - k)
                    if (vx & ~himask & 63) == (vy & ~himask & 63):
                        return True
    if b == "bcrypt" or name == "django_bcrypt_sha256":
        # salt (22 chars, 4 unused bits) and digest (31 chars, 2 unused bits) are concatenated without separator
        tail = len(seedhash) - i
        al = B64_ALPHABETS[4]
        if x in al and y in al:
            if tail == 32 and (al.index(x) & ~15) == (al.index(y) & ~15):
                return True
            if tail == 1 and (al.index(x) & ~3) == (al.index(y) & ~3):
                return True
    return False


def _scram_parts(h):
    try:
        _e, tag, rounds, salt, chunks = h.split("$")
        if tag != "scram":
            return None
        d = {}
        for c in chunks.split(","):
            k, v = c.split("=")
            if k in d and d[k] != v:
                return None  # conflicting duplicate
            d[k] = v
        return rounds, salt, d
    except ValueError:
        return None


def allowed_to_verify(name, seedhash, label, mutant, lib=False):
    """True when `mutant` is a documented (or value-preserving) re-encoding of the same digest bits and settings.
    Decided from the two strings alone -- never from the parser under test."""
    b = HS.base_name(name)
    # R6: whole-string case change
    if label in ("whole:upper", "whole:lower"):
        if name in HEX_INSENSITIVE:
            return True
        diff = [i for i in range(len(seedhash)) if seedhash[i] != mutant[i]]
        return all(_in_prefix(seedhash, i) for i in diff)
    # R2': a case-mapping look-alike inside the case-insensitive identifying prefix is a re-spelling of the prefix
    if label.startswith("casemap@"):
        i = int(label[8:].split(":")[0])
        if _in_prefix(seedhash, i) or (name == "oracle11" and i == 0):  # oracle11: the constant 'S:' label
            return True
    # R2: one position changed, same length
    i = _single_diff(seedhash, mutant)
    if i is not None:
        x, y = seedhash[i], mutant[i]
        if x.lower() == y.lower() and x in "abcdefABCDEF" and name in HEX_INSENSITIVE:
            return True
        if x.lower() == y.lower() and _in_prefix(seedhash, i):
            return True
        if {x, y} == {"+", "."} and ("pbkdf2" in b or b == "scram"):
            return True
        if b in ("bcrypt", "bcrypt_sha256") and x in "aby" and y in "aby" and i >= 1 and seedhash[i - 1] == "2":
            return True
        if _padding_equiv(seedhash, i, x, y, name):
            return True
    # R4: sha-crypt explicit / implicit default rounds
    if b in ("sha256_crypt", "sha512_crypt"):
        if mutant.replace("rounds=5000$", "", 1) == seedhash or seedhash.replace("rounds=5000$", "", 1) == mutant:
            return True
    # R1: decorated integers denoting the same number ('+1', ' 1', '01') in a numeric field -- for the classic
    # hashers only (their parsers read the field with int(); see DESIGN 10.2).  The libpass hashers render and parse
    # one spelling of every number: there a re-spelled field is an altered string
    if not lib and _numeric_canon(mutant) == _numeric_canon(seedhash):
        return True
    # R7: a parameter of a 'k=v,k=v' list repeated with the identical value denotes the same settings
    if label.startswith("dupfield,"):
        fs, fm = seedhash.split("$"), mutant.split("$")
        if len(fs) == len(fm):
            diff = [j for j in range(len(fs)) if fs[j] != fm[j]]
            if len(diff) == 1 and "=" in fs[diff[0]]:
                a, bb = fs[diff[0]].split(","), fm[diff[0]].split(",")
                if sorted(set(a)) == sorted(set(bb)) and len(set(a)) == len(a):
                    return True
    # R3: '=' padding added to / removed from the end of a standard-base64 field
    if mutant.rstrip("=") == seedhash.rstrip("=") and (b.startswith("ldap_salted") or b in ("fshp", "cta_pbkdf2_sha1", "django_pbkdf2_sha1", "django_pbkdf2_sha256", "atlassian_pbkdf2_sha1")):
        return True
    # R5: documented partial verification
    if name == "mssql2000" and len(mutant) == len(seedhash) and mutant[:14] == seedhash[:14] and mutant[54:] == seedhash[54:]:
        return True  # "Only the second digest is used when verifying passwords"
    if name == "scram":
        ps, pm = _scram_parts(seedhash), _scram_parts(mutant)
        if ps and pm and ps[0] == pm[0] and ps[1] == pm[1]:
            for alg in ("sha-256", "sha-512", "sha-224", "sha-384", "sha-1"):
                if alg in pm[2]:
                    return pm[2][alg] == ps[2].get(alg)  # verify(full=False) consults this digest only
    if name == "cisco_type7" and len(mutant) == len(seedhash) and mutant[2:] == seedhash[2:]:
        try:
            return int(mutant[:2]) == int(seedhash[:2])  # the two leading characters are a decimal offset
        except ValueError:
            return False
    if name == "django_des_crypt":
        fs, fm = seedhash.split("$"), mutant.split("$")
        if len(fs) == 3 and len(fm) == 3 and fs[0] == fm[0] and fs[2] == fm[2] and (fm[1] == "" or fm[1][:2] == fs[2][:2]):
            return True  # the middle field is a redundant copy of the salt (empty in django >= 1.4)
    return False


#: the documented refusals of a malformed hash STRING: ValueError (and subclasses).  TypeError is documented for
#: arguments of the wrong type; every argument offered here is str or bytes, so a TypeError is an internal error
OK_EXC = (ValueError,)


def probe(name, H, cx, seedhash, label, mutant, form, mode, PW=PW):
    """drive identify / verify / needs_update with one mutant; returns violations"""
    out = []
    arg = mutant
    if form == "bytes" and not isinstance(mutant, bytes):
        try:
            arg = mutant.encode("utf-8")
        except UnicodeEncodeError:
            return out
    kind = label.split("@")[0].split(":")[0]
    pre = f"C08|{name}|{mode}|"
    try:
        r = H.identify(arg)
        if not isinstance(r, bool):
            out.append((pre + f"identify_nonbool:{kind}", f"identify({arg!r}) returned {r!r}"))
    except Exception as e:  # noqa: BLE001
        out.append((pre + f"identify_raises:{type(e).__name__}:{kind}", f"identify({arg!r}) raised {e!r} [{label}]"))
    try:
        v = H.verify(PW, arg, **cx)
        if v and (isinstance(mutant, bytes) or not allowed_to_verify(name, seedhash, label, mutant)):
            out.append((pre + f"altered_verifies:{kind}", f"verify({PW!r}, {arg!r}) is True although the stored hash {seedhash!r} was altered [{label}]"))
    except OK_EXC:
        pass
    except Exception as e:  # noqa: BLE001
        out.append((pre + f"verify_raises:{type(e).__name__}:{kind}", f"verify({PW!r}, {arg!r}) raised {e!r} [{label}]"))
    nu = getattr(H, "needs_update", None)
    if nu is not None:
        try:
            nu(arg)
        except OK_EXC:
            pass
        except Exception as e:  # noqa: BLE001
            out.append((pre + f"needs_update_raises:{type(e).__name__}:{kind}", f"needs_update({arg!r}) raised {e!r} [{label}]"))
    return out


# ---------------------------------------------------------------------------
# libpass hashers (identify/verify/needs_update take the hash FIRST; malformed strings answer False, never raise)
# ---------------------------------------------------------------------------
LIBPASS = {
    # name: (constructor settings list, fixed salts)
    "lp_sha256": [({"rounds": 1000}, "saltSALTsalt1234"), ({"rounds": 5000}, "ab"), ({"rounds": 1001}, "")],
    "lp_sha512": [({"rounds": 1000}, "saltSALTsalt1234"), ({"rounds": 5000}, "ab")],
    "lp_pbkdf2_sha256": [({"rounds": 1}, b"0123456789abcdef"), ({"rounds": 12}, b"\x00\xff")],
    "lp_pbkdf2_sha512": [({"rounds": 1}, b"0123456789abcdef")],
    "lp_bcrypt": [({"rounds": 4}, b"$2b$04$abcdefghijklmnopqrstuu"), ({"rounds": 5, "prefix": "2a"}, b"$2a$05$......................")],
    "lp_bcrypt_sha256": [({"rounds": 4}, b"$2b$04$abcdefghijklmnopqrstuu"), ({"rounds": 5}, b"$2b$05$......................")],
}
LIBPASS_BASE = {"lp_sha256": "sha256_crypt", "lp_sha512": "sha512_crypt", "lp_pbkdf2_sha256": "pbkdf2_sha256",
                "lp_pbkdf2_sha512": "pbkdf2_sha512", "lp_bcrypt": "bcrypt", "lp_bcrypt_sha256": "bcrypt_sha256"}


def libpass_seed(name, si):
    from mc.checks.c01 import libpass_hasher

    st, salt = LIBPASS[name][si]
    kw = dict(st)
    H = libpass_hasher(name, kw.pop("rounds"))
    if kw.get("prefix"):
        H = type(H)(rounds=st["rounds"], prefix=kw["prefix"])
    return H, H.hash(PW, salt=salt)


def probe_libpass(name, H, seedhash, label, mutant, form, mode):
    out = []
    arg = mutant
    if form == "bytes" and not isinstance(mutant, bytes):
        try:
            arg = mutant.encode("utf-8")
        except UnicodeEncodeError:
            return out
    kind = label.split("@")[0].split(":")[0]
    pre = f"C08|{name}|{mode}|"
    for op, f in (("identify", lambda: H.identify(arg)), ("needs_update", lambda: H.needs_update(arg)), ("verify", lambda: H.verify(arg, PW))):
        try:
            r = f()
        except OK_EXC as e:
            if op == "identify":
                out.append((pre + f"identify_raises:{type(e).__name__}:{kind}", f"libpass {type(H).__name__}.identify({arg!r}) raised {e!r} [{label}]"))
            continue
        except Exception as e:  # noqa: BLE001
            out.append((pre + f"{op}_raises:{type(e).__name__}:{kind}", f"libpass {type(H).__name__}.{op}({arg!r}) raised {e!r} [{label}]"))
            continue
        if not isinstance(r, bool):
            out.append((pre + f"{op}_nonbool:{kind}", f"{op}({arg!r}) returned {r!r}"))
        if op == "verify" and r and (isinstance(mutant, bytes) or not allowed_to_verify(LIBPASS_BASE[name], seedhash, label, mutant, lib=True)):
            out.append((pre + f"altered_verifies:{kind}", f"libpass {type(H).__name__}.verify({arg!r}, {PW!r}) is True although the stored hash {seedhash!r} was altered [{label}]"))
    return out


def eval_case(case):
    """one mutant (self-contained): {hasher, settings, ctx, label, form, mode}"""
    if case.get("mode") == "O" and __debug__:
        return core.call_in_child("mc.checks.c08", "eval_case", case, optimized=True)
    name = case["hasher"]
    if name == "@context":
        return eval_context_case(case)
    if name in LIBPASS:
        H, seedhash = libpass_seed(name, case["si"])
        for label, mutant in mutations(seedhash, SIGMA_FULL) + byte_mutations(seedhash):
            if label == case["label"]:
                return probe_libpass(name, H, seedhash, label, mutant, case["form"], case.get("mode", "default"))
        return []
    H = HS.handler(name)
    st, cx = case["settings"], case["ctx"]
    Hc = H.using(**st) if st else H
    with _pinned_rng():
        seedhash = Hc.hash(PW, **cx)
    for label, mutant in mutations(seedhash, SIGMA_FULL) + byte_mutations(seedhash):
        if label == case["label"]:
            return probe(name, H, cx, seedhash, label, mutant, case["form"], case.get("mode", "default"))
    return []


def casemap_seed(name, st, cx, n):
    H = HS.handler(name)
    Hc = H.using(**st) if st else H
    # numbered text passwords first; then one byte value repeated (formats whose stored text is a reversible image
    # of the password -- cisco_type7, the plaintext family -- reach 'FF' only through non-ASCII password bytes)
    pw = f"{PW}{n}" if n < CASEMAP_TEXT else bytes([0x80 + (n - CASEMAP_TEXT)]) * 3
    with _pinned_rng():
        return H, pw, Hc.hash(pw, **cx)


def eval_casemap(case):
    """part casemap: the seed is the hash of the n-th numbered password (chosen because its text contains the ASCII
    image of a case-mapping look-alike); one look-alike mutant of it"""
    if case.get("mode") == "O" and __debug__:
        return core.call_in_child("mc.checks.c08", "eval_casemap", case, optimized=True)
    name = case["hasher"]
    H, pw, seedhash = casemap_seed(name, case["settings"], case["ctx"], case["n"])
    for label, mutant in casemap_mutations(seedhash):
        if label == case["label"]:
            return probe(name, H, case["ctx"], seedhash, label, mutant, case["form"], case.get("mode", "default"), PW=pw)
    return []


def work_casemap(task):
    """every look-alike character x the first numbered password (of 48) whose hash contains its image outside the
    identifying prefix, per hasher and seed settings"""
    acc = Acc()
    mode = "default" if __debug__ else "O"
    name, st, cx = task["hasher"], task["settings"], task["ctx"]
    covered = set()
    for n in range(CASEMAP_TEXT + 128):
        if len(covered) == len(CASEMAP):
            break
        try:
            H, pw, seedhash = casemap_seed(name, st, cx, n)
        except Exception:  # noqa: BLE001
            if n < CASEMAP_TEXT:
                break
            continue  # this byte value is not an admissible password of the format
        if not isinstance(seedhash, str):
            break
        for label, mutant in casemap_mutations(seedhash):
            ch = label.split(":")[1]
            i = int(label[8:].split(":")[0])
            if ch in covered or _in_prefix(seedhash, i):
                continue
            covered.add(ch)
            for form in task["forms"]:
                acc.ev()
                case = {"part": "casemap", "hasher": name, "settings": st, "ctx": cx, "n": n, "label": label, "form": form, "mode": mode}
                for key, desc in probe(name, H, cx, seedhash, label, mutant, form, mode, PW=pw):
                    acc.violation(key, desc, case)
            acc.cls(name, "casemap", ch, mode)
    acc.axis("mutation_kind", "casemap_numbered_passwords")
    acc.outcome((mode, "casemap", "ok" if not acc.violations else "viol"))
    return acc


def _pinned_rng():
    from mc import env

    return env.scripted_rng(env.ScriptedRng([7] * 4))


def context_under_test():
    from passlib.context import CryptContext

    return CryptContext(schemes=["sha256_crypt", "md5_crypt", "pbkdf2_sha256", "ldap_salted_sha1", "des_crypt", "hex_md5"],
                        sha256_crypt__rounds=1000, pbkdf2_sha256__rounds=1, deprecated=["des_crypt"])


def eval_context_case(case):
    ctx = context_under_test()
    out = []
    scheme = case["scheme"]
    with _pinned_rng():
        seedhash = ctx.handler(scheme).hash(PW)
    mode = case.get("mode", "default")
    for label, mutant in mutations(seedhash, SIGMA_FULL) + byte_mutations(seedhash):
        if label == case["label"]:
            return probe_context(ctx, scheme, seedhash, label, mutant, case["form"], mode)
    return out


def probe_context(ctx, scheme, seedhash, label, mutant, form, mode):
    out = []
    arg = mutant if (form == "str" or isinstance(mutant, bytes)) else mutant.encode("utf-8")
    kind = label.split("@")[0].split(":")[0]
    pre = f"C08|CryptContext:{scheme}|{mode}|"
    for op, f in (("identify", lambda: ctx.identify(arg)), ("needs_update", lambda: ctx.needs_update(arg)),
                  ("verify", lambda: ctx.verify(PW, arg)), ("verify_and_update", lambda: ctx.verify_and_update(PW, arg))):
        try:
            r = f()
        except OK_EXC:
            continue
        except Exception as e:  # noqa: BLE001
            out.append((pre + f"{op}_raises:{type(e).__name__}:{kind}", f"CryptContext.{op}({arg!r}) raised {e!r} [{label}]"))
            continue
        ok = r[0] if op == "verify_and_update" else r
        if op.startswith("verify") and ok:
            who = ctx.identify(arg)
            if isinstance(mutant, bytes) or not allowed_to_verify(who or scheme, seedhash, label, mutant):
                out.append((pre + f"{op}_altered_verifies:{kind}", f"CryptContext.{op}({PW!r}, {arg!r}) succeeded although {seedhash!r} was altered [{label}]"))
    return out


def replay(case):
    if case.get("part") == "casemap":
        return eval_casemap(case)
    return eval_case(case)


# ---------------------------------------------------------------------------
def work(task):
    """all mutants of one seed hash (one hasher, one settings entry) in the current interpreter mode"""
    if task.get("part") == "casemap":
        return work_casemap(task)
    acc = Acc()
    mode = "default" if __debug__ else "O"
    name = task["hasher"]
    sigma = task["sigma"]
    forms = task["forms"]
    if name == "@context":
        ctx = context_under_test()
        scheme = task["scheme"]
        with _pinned_rng():
            seedhash = ctx.handler(scheme).hash(PW)
        for label, mutant in mutations(seedhash, sigma) + byte_mutations(seedhash):
            for form in (("bytes",) if isinstance(mutant, bytes) else forms):
                acc.evaluations += 1
                vs = probe_context(ctx, scheme, seedhash, label, mutant, form, mode)
                for key, desc in vs:
                    acc.violation(key, desc, {"hasher": "@context", "scheme": scheme, "label": label, "form": form, "mode": mode})
        acc.counters["mutants"] += len(mutations(seedhash, sigma)) * len(forms)
        acc.cls("@context", scheme, mode)
        acc.axis("hasher", "CryptContext")
        return acc
    lib = name in LIBPASS
    if lib:
        H, seedhash = libpass_seed(name, task["si"])
        st, cx = LIBPASS[name][task["si"]][0], {}
    else:
        H = HS.handler(name)
        st, cx = task["settings"], task["ctx"]
        Hc = H.using(**st) if st else H
        with _pinned_rng():
            seedhash = Hc.hash(PW, **cx)
    muts = mutations(seedhash, sigma)
    if task.get("stride", 1) > 1:
        # slow hashers: every structural mutation, but only every k-th position-level symbol mutation
        k = task["stride"]
        muts = [m for n, m in enumerate(muts) if not m[0].startswith(("sub@", "ins@")) or n % k == 0]
    kinds = set()
    bmuts = byte_mutations(seedhash) if "bytes" in forms else []
    for label, mutant in muts + bmuts:
        for form in (("bytes",) if isinstance(mutant, bytes) else forms):
            acc.evaluations += 1
            if lib:
                vs = probe_libpass(name, H, seedhash, label, mutant, form, mode)
                case = {"hasher": name, "si": task["si"], "label": label, "form": form, "mode": mode}
            else:
                vs = probe(name, H, cx, seedhash, label, mutant, form, mode)
                case = {"hasher": name, "settings": st, "ctx": cx, "label": label, "form": form, "mode": mode}
            for key, desc in vs:
                acc.violation(key, desc, case)
        kinds.add(label.split("@")[0].split(":")[0])
    acc.counters["mutants"] += len(muts) * len(forms) + len(bmuts)
    acc.counters["distinct_mutants_bulk"] += len(muts) * len(forms) + len(bmuts)
    for k in kinds:
        acc.cls(name, task["si"], mode, k)
        acc.axis("mutation_kind", k)
    acc.axis("hasher", name)
    acc.axis("mode", mode)
    acc.outcome((mode, "ok" if not acc.violations else "viol"))
    if task["si"] == 0 and muts:
        acc.sample({"hasher": name, "seed_hash": seedhash, "mutant": muts[len(muts) // 2][1], "label": muts[len(muts) // 2][0], "mode": mode})
    return acc


def child_run(payload):
    """entry point inside a `python -O` child: run all tasks on a pool there"""
    tasks = payload["tasks"]
    if payload.get("quick"):
        # quick tier: the -O pass keeps every structural mutation and every 3rd symbol-level one
        tasks = [dict(t, stride=max(3, t.get("stride", 1))) for t in tasks]
    return core.pmap(work, tasks)


def build_tasks(quick, seed):
    tasks = []
    sigma = SIGMA_QUICK if quick else SIGMA_FULL
    for name in HS.usable_names():
        slow = HS.SLOW.get(name, 0)
        for si, st, cx, _h in seeds_for(name, quick, seed):
            t = {"hasher": name, "settings": st, "ctx": cx, "si": si, "sigma": sigma,
                 "forms": ("str", "bytes") if (si == 0 and not slow) else ("str",)}
            if slow >= 3:
                t["stride"] = 12 if quick else 3
                if si > 0 and quick:
                    continue
            elif slow:
                t["stride"] = 3 if quick else 1
            tasks.append(t)
    # part casemap: numbered passwords until the hash text contains the image of every case-mapping look-alike
    for name in HS.usable_names():
        if HS.SLOW.get(name, 0) >= 2:
            continue
        seeds = seeds_for(name, True, seed)
        if seeds:
            si, st, cx, _h = seeds[0]
            tasks.append({"part": "casemap", "hasher": name, "settings": st, "ctx": cx, "si": si, "sigma": sigma, "forms": ("str", "bytes")})
    for name in LIBPASS:
        for si in range(len(LIBPASS[name])):
            tasks.append({"hasher": name, "si": si, "sigma": sigma, "forms": ("str", "bytes") if si == 0 else ("str",)})
    for scheme in ("sha256_crypt", "md5_crypt", "pbkdf2_sha256", "ldap_salted_sha1", "des_crypt", "hex_md5"):
        tasks.append({"hasher": "@context", "scheme": scheme, "sigma": sigma, "forms": ("str", "bytes")})
    tasks.sort(key=lambda t: -HS.SLOW.get(t["hasher"], 0))
    return tasks


def run(ctx):
    tasks = build_tasks(ctx.quick, ctx.seed)
    ctx.log(f"{len(tasks)} seed hashes; modes default and -O")
    import concurrent.futures

    with concurrent.futures.ThreadPoolExecutor(1) as ex:
        fut = ex.submit(core.call_in_child, "mc.checks.c08", "child_run", {"tasks": tasks, "quick": ctx.quick}, True)
        acc = core.pmap(work, tasks)
        acc_o = fut.result()
    ctx.merge(acc, part="default")
    ctx.merge(acc_o, part="python-O")
    ctx.cov["bulk_enumerated_distinct_cases"] = int(ctx.acc.counters.get("distinct_mutants_bulk", 0))
    ctx.cov["explanation"] = (
        "every mutant is a distinct input by construction (deduplicated per seed); distinct_nontrivial counts "
        "hasher|seed|mode|mutation-kind classes, bulk_enumerated_distinct_cases counts the mutants themselves"
    )
    ctx.assume("a mutant may verify only if the mutation is a documented re-encoding: hex case, unused base64 padding bits, "
               "'+'/'.' in adapted base64, bcrypt 2a/2b/2y, {PREFIX} case, explicit/implicit rounds=5000")
